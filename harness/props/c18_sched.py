"""C18 -- deterministic thread-schedule explorer (CHESS-style iterative context bounding).

Property checked with it: "concurrent private-key operations on one RSA key all return the
mathematically correct result, and a SessionCache or verifier database used from many threads never
loses a live entry, returns a wrong, expired or non-resumable entry, exceeds its size bound or raises
an internal error", over all interleavings (at preemption points, bounded number of preemptions, plus
stress) of 2-3 threads doing sign/decrypt on a shared key or get/set/purge on a shared cache.

The scheduling algorithm
------------------------
* A *program* is a fresh shared object plus, per thread, a list of operations (zero-argument
  callables).  It is built by a *program factory* `factory(sched) -> Program`; the factory is called
  once per schedule, so every run starts from the same state.
* Every program thread is a real `threading.Thread`, but only the thread holding the *baton* runs:
  each thread owns a gate (a binary semaphore) and waits on it; whoever holds the baton decides at
  every *preemption point* who runs next and, when that is another thread, opens that thread's gate
  and waits on its own.  (There is no separate controller thread: the scheduling decision is taken
  by the thread that reached the point, which saves two OS context switches per point.  The main
  thread only makes the first choice and waits for the end or the timeout.)  The threads come from
  a small pool that is reused from schedule to schedule (starting threads and installing trace
  functions cost more than a whole schedule); the pool is thrown away after a DEADLOCK/HANG and
  ended by `shutdown_pool()` / at the end of `explore` and of every `explore_*` driver.
* Preemption points: each worker installs `sys.settrace` *in its own thread*.  The global trace
  function returns a local trace function only for frames whose code object is a *target* (chosen by
  file name and function name, or "every function of these files"); everything else runs untraced.
  The local trace function makes each `'line'` event (granularity "line") or each bytecode
  instruction that can touch shared state (granularity "opcode", `frame.f_trace_opcodes`) a
  preemption point.  Acquire and release of a `SchedLock` and the end of a thread are points too.
* Locks: the object's own `threading.Lock` is replaced (attribute swap on the instance) by a
  `SchedLock`.  Acquiring a held lock disables the thread (blocked on that lock) and hands the baton
  on; a release re-enables the waiters.  No enabled thread while some are unfinished = DEADLOCK.
* A *schedule* is the list of choices (thread index) made at the successive points.  `run_schedule`
  follows a given prefix and afterwards the default policy: keep the current thread while it is
  enabled, else the lowest-index enabled thread.  It returns the trace: per point the triple
  (enabled threads, chosen thread, current thread before the choice; -1 at the very first point).
  Same prefix => same execution (nothing else is nondeterministic: one thread runs at a time, the
  clock and the random source are stubs).
* `explore` enumerates schedules by iterative context bounding: a schedule is charged one
  *preemption* for every point where it switches away from a thread that is still enabled (switches
  at thread end or when blocked are free).  Run the default schedule; every point of its default
  suffix and every alternative enabled thread there gives a child prefix (cost: parent cost + 1 if
  the alternative preempts).  Each schedule with at most `max_preemptions` preemptions is generated
  exactly once (it is identified by its last deviation from the default policy).  Children are
  processed in order of increasing preemption count (all 0-preemption schedules, then 1, ...), depth
  first inside a count.  When more prefixes are pending than the remaining budget `max_schedules`,
  the next one is drawn pseudo-randomly from the pending set with the supplied `random.Random`.
* Robustness: an exception in an operation is that operation's result; a per-schedule step limit and
  a wall-clock timeout give HANG; after DEADLOCK/HANG the run is *abandoned*: all gates are opened,
  every thread that reaches a point or a lock is unwound with a BaseException, threads are daemons.
  Only per-thread `sys.settrace` is used (inside the workers), so the main thread's tracing state
  and `threading.settrace` are never changed.  Automatic garbage collection is off while the
  threads of a schedule run (a finalizer running inside a traced thread would add preemption
  points at allocation-dependent moments) and restored afterwards.
* Measured (CPython 3.12.1, this sandbox): 0.4 ms (idle machine) to 1.2 ms (other jobs running) per
  schedule of a 2-thread, 4-operation cache program with 59 preemption points, i.e. 800-2300
  schedules/s at line granularity and roughly half of that at opcode granularity; see
  `measure_speed()`.  The cost is dominated by the OS hand-over between threads.

tlslite is imported inside functions only; the caller selects the tree through sys.path.
"""
import contextlib
import gc
import itertools
import os
import random
import shutil
import sys
import threading
import time as _time
import _thread

__all__ = [
    "Targets", "Program", "Outcome", "Scheduler", "SchedLock", "ClockStub", "patched_clock",
    "run_schedule", "explore", "shutdown_pool", "find_linearization", "RacyDict",
    "cache_program", "rsa_program", "db_program",
    "explore_cache", "explore_rsa", "explore_db", "replay_cache", "replay_rsa", "replay_db",
    "stress_cache", "stress_rsa", "replay_stress", "replay", "measure_speed",
]

RUNNABLE, BLOCKED, FINISHED = 0, 1, 2


class _Abandon(BaseException):
    """unwinds a worker thread of an abandoned run (never caught by the code under test)"""


# ----------------------------------------------------------------------------------------------
# targets: which frames are traced
# ----------------------------------------------------------------------------------------------

_NORM = {}


def _norm(path):
    r = _NORM.get(path)
    if r is None:
        r = _NORM[path] = os.path.realpath(path)
    return r


class Targets(object):
    """Set of traced functions.  `specs` is an iterable of
         "path/file.py"                     every function defined in that file
         ("path/file.py", "name")           the function(s) with that co_name / co_qualname
         ("path/file.py", ["n1", "n2"])
    A ".pyc" path is accepted for the ".py" one."""

    def __init__(self, specs):
        self.files = set()
        self.names = {}
        self.cache = {}
        for s in specs:
            if isinstance(s, str):
                self.files.add(self._file(s))
            else:
                f, names = s
                if isinstance(names, str):
                    names = [names]
                self.names.setdefault(self._file(f), set()).update(names)

    @staticmethod
    def _file(f):
        if f.endswith(".pyc"):
            f = f[:-1]
        return _norm(f)

    def __call__(self, code):
        r = self.cache.get(code)
        if r is None:
            f = _norm(code.co_filename)
            names = self.names.get(f, ())
            r = (f in self.files or code.co_name in names
                 or getattr(code, "co_qualname", None) in names)
            self.cache[code] = r
        return r


def _targets(t):
    return t if isinstance(t, Targets) else Targets(t)


# bytecodes that only touch the frame's own locals/stack or only transfer control: a preemption
# before one of them is equivalent to a preemption before the next instruction that is not in this
# set, so granularity "opcode" skips them.  (LOAD_GLOBAL is in: module globals are not modified
# while a schedule runs.)
_LOCAL_OPNAMES = (
    "NOP", "RESUME", "CACHE", "POP_TOP", "COPY", "SWAP", "PUSH_NULL", "LOAD_CONST", "LOAD_FAST",
    "LOAD_FAST_CHECK", "LOAD_FAST_AND_CLEAR", "STORE_FAST", "DELETE_FAST", "LOAD_GLOBAL", "KW_NAMES",
    "JUMP_FORWARD", "JUMP_BACKWARD", "JUMP_BACKWARD_NO_INTERRUPT", "POP_JUMP_IF_TRUE",
    "POP_JUMP_IF_FALSE", "POP_JUMP_IF_NONE", "POP_JUMP_IF_NOT_NONE", "RETURN_VALUE", "RETURN_CONST",
    "EXTENDED_ARG", "PUSH_EXC_INFO", "POP_EXCEPT", "RERAISE", "CHECK_EXC_MATCH", "BUILD_TUPLE",
    "UNPACK_SEQUENCE", "IS_OP", "UNARY_NOT", "MAKE_CELL", "COPY_FREE_VARS", "LOAD_FAST_LOAD_FAST",
    "STORE_FAST_STORE_FAST", "STORE_FAST_LOAD_FAST", "TO_BOOL", "END_FOR", "NOT_TAKEN",
)
_LOCAL_OPS = None


def _local_ops():
    global _LOCAL_OPS
    if _LOCAL_OPS is None:
        import dis
        _LOCAL_OPS = frozenset(dis.opmap[n] for n in _LOCAL_OPNAMES if n in dis.opmap)
    return _LOCAL_OPS


# ----------------------------------------------------------------------------------------------
# program / outcome
# ----------------------------------------------------------------------------------------------

class Program(object):
    """What a program factory returns: `threads` = per thread a list of zero-argument callables.
    Optional hooks: `finish(outcome)` runs in the main thread after all threads ended normally
    (final-state probes), `cleanup()` always runs last (undo patches, delete files)."""

    def __init__(self, threads=None):
        self.threads = threads if threads is not None else []

    def finish(self, outcome):
        pass

    def cleanup(self):
        pass


class Outcome(object):
    """Result of one schedule.
       status   "ok" | "deadlock" | "hang" | "infeasible" (the prefix asked for a disabled thread:
                the program is not deterministic)
       trace    [(enabled tuple, chosen, current)] per preemption point
       results  per thread a list of {"status": "ok"|"exc", "value", "exc_type", "exc_msg",
                "start", "end"}; start/end are global logical time stamps (one thread runs at a
                time, so they are totally ordered and a.end < b.start means a really preceded b)
       locs     per point (thread, where) when requested"""

    def __init__(self):
        self.status = "ok"
        self.detail = ""
        self.trace = []
        self.results = []
        self.locs = None
        self.program = None

    @property
    def schedule(self):
        return [c for (_, c, _) in self.trace]

    @property
    def preemptions(self):
        return sum(1 for (en, c, cur) in self.trace if cur in en and c != cur)

    def ops(self):
        return sum(len(r) for r in self.results)


# ----------------------------------------------------------------------------------------------
# the scheduler
# ----------------------------------------------------------------------------------------------

class Scheduler(object):
    """Runs one schedule of one program (see the module docstring)."""

    def __init__(self, targets, prefix=(), granularity="line", timeout=10.0, max_steps=20000,
                 record_locs=False, policy=None):
        if granularity not in ("line", "opcode"):
            raise ValueError("granularity must be 'line' or 'opcode'")
        self.targets = _targets(targets)
        self.prefix = list(prefix)
        self.opcode = granularity == "opcode"
        self.timeout = timeout
        self.max_steps = max_steps
        self.policy = policy
        self.current = None          # index of the thread holding the baton, None = main thread
        self.abandoned = False
        self.outcome = Outcome()
        self.trace = self.outcome.trace
        if record_locs:
            self.outcome.locs = []
        self.stamp = itertools.count()
        self.n = 0
        self.state = []
        self.waiting = []
        self.gates = []
        self.enabled = ()
        self.done = _thread.allocate_lock()
        self.done.acquire()
        self._codebytes = {}

    # -- bookkeeping -------------------------------------------------------------------------
    def _recompute(self):
        st = self.state
        self.enabled = tuple(i for i in range(self.n) if st[i] == RUNNABLE)

    def _abandon(self, status, detail):
        if not self.abandoned:
            self.abandoned = True
            self.outcome.status = status
            self.outcome.detail = detail
            for g in self.gates:
                try:
                    g.release()
                except RuntimeError:
                    pass
            try:
                self.done.release()
            except RuntimeError:
                pass

    # -- the preemption point ---------------------------------------------------------------
    def point(self, t, loc=None):
        """Thread t (holding the baton; -1 = main thread at the start) reached a preemption point:
        record (enabled, choice, current), hand the baton over if the choice is another thread and
        wait until t is chosen again."""
        if self.abandoned:
            raise _Abandon()
        en = self.enabled
        trace = self.trace
        k = len(trace)
        if not en:
            if all(s == FINISHED for s in self.state):
                self.current = None
                self.done.release()
                return
            blocked = ["T%d on %s" % (i, self.waiting[i].name)
                       for i in range(self.n) if self.state[i] == BLOCKED]
            self._abandon("deadlock", "no enabled thread; blocked: " + ", ".join(blocked))
            raise _Abandon()
        if k >= self.max_steps:
            self._abandon("hang", "step limit %d reached" % self.max_steps)
            raise _Abandon()
        if k < len(self.prefix):
            c = self.prefix[k]
            if c not in en:
                self._abandon("infeasible", "point %d: thread %r not enabled (enabled %r)" % (k, c, en))
                raise _Abandon()
        elif self.policy is not None:
            c = self.policy(en, t, k)
        elif t >= 0 and self.state[t] == RUNNABLE:
            c = t
        else:
            c = en[0]
        trace.append((en, c, t))
        if self.outcome.locs is not None:
            self.outcome.locs.append((t, loc))
        if c != t:
            self.current = c
            self.gates[c].release()
            if t >= 0 and self.state[t] != FINISHED:
                self.gates[t].acquire()
                if self.abandoned:
                    raise _Abandon()

    def block(self, t, lock):
        """thread t cannot take `lock`: disable it and give the baton away (a free switch)"""
        self.state[t] = BLOCKED
        self.waiting[t] = lock
        self._recompute()
        self.point(t, "blocked on " + lock.name)

    def wake(self, lock):
        st = self.state
        hit = False
        for i in range(self.n):
            if st[i] == BLOCKED and self.waiting[i] is lock:
                st[i] = RUNNABLE
                self.waiting[i] = None
                hit = True
        if hit:
            self._recompute()

    # -- tracing ----------------------------------------------------------------------------
    def _make_trace(self, t):
        point = self.point
        is_target = self.targets
        want_locs = self.outcome.locs is not None
        if self.opcode:
            skip = _local_ops()
            codebytes = self._codebytes

            def local(frame, event, arg):
                if event == "opcode":
                    code = frame.f_code
                    b = codebytes.get(code)
                    if b is None:
                        b = codebytes[code] = code.co_code
                    if b[frame.f_lasti] not in skip:
                        point(t, (code.co_name, frame.f_lineno, frame.f_lasti) if want_locs else None)
                return local

            def glob(frame, event, arg):
                if event == "call" and is_target(frame.f_code):
                    frame.f_trace_opcodes = True
                    frame.f_trace_lines = False
                    return local
                return None
        else:
            def local(frame, event, arg):
                if event == "line":
                    point(t, (frame.f_code.co_name, frame.f_lineno) if want_locs else None)
                return local

            def glob(frame, event, arg):
                if event == "call" and is_target(frame.f_code):
                    return local
                return None
        return glob

    def _worker(self, t, ops):
        """body of program thread t (runs in pool thread t, which got the baton for the first time)"""
        if self.abandoned:
            return
        res = self.outcome.results[t]
        stamp = self.stamp
        try:
            for op in ops:
                rec = {"status": "ok", "value": None, "start": next(stamp)}
                try:
                    rec["value"] = op()
                except Exception as e:      # _Abandon is a BaseException and passes through
                    rec["status"] = "exc"
                    rec["exc_type"] = type(e).__name__
                    rec["exc_msg"] = str(e)[:200]
                rec["end"] = next(stamp)
                res.append(rec)
            self.state[t] = FINISHED
            self._recompute()
            self.point(t, "end of thread")
        except _Abandon:
            pass

    # -- one run ----------------------------------------------------------------------------
    def run(self, factory, keep_pool=False):
        out = self.outcome
        program = factory(self)
        out.program = program
        pool = None
        # no cyclic garbage collection while the threads run: a collection would run finalizers of
        # earlier programs (e.g. dbm.dumb's __del__ -> close) inside a traced worker thread at an
        # allocation-dependent moment and so add preemption points nondeterministically
        gc_was = gc.isenabled()
        gc.disable()
        try:
            n = self.n = len(program.threads)
            self.state = [RUNNABLE] * n
            self.waiting = [None] * n
            pool = _get_pool(n, self.opcode)
            self.gates = [pt.gate for pt in pool.threads[:n]]
            out.results.extend([] for _ in range(n))
            self._recompute()
            for i in range(n):
                pool.threads[i].job = (self, i, program.threads[i])
            try:
                self.point(-1, "start")
            except _Abandon:
                pass
            if not self.done.acquire(timeout=self.timeout):
                self._abandon("hang", "no progress for %.1f s" % self.timeout)
            self.current = None
            if self.abandoned:
                _drop_pool()                # its threads may be stuck or still unwinding
            elif out.status == "ok":
                program.finish(out)
        finally:
            self.abandoned = True           # stray threads of this run unwind at their next point
            self.current = None
            if pool is not None and not keep_pool:
                _drop_pool()
            if gc_was:
                gc.enable()
            program.cleanup()
        return out


# ----------------------------------------------------------------------------------------------
# pool of worker threads (thread creation and sys.settrace are the expensive part of a run)
# ----------------------------------------------------------------------------------------------

class _PoolThread(object):
    """One reusable worker.  It sleeps on its gate; a run gives it a job (scheduler, index, ops) and
    the baton (opens the gate).  `sys.settrace` is installed once, in this thread only; the global
    trace function forwards to the tracer of the current job and is inert between jobs."""

    def __init__(self, k):
        self.gate = _thread.allocate_lock()
        self.gate.acquire()
        self.job = None
        self.tracer = None
        self.dead = False
        self.thread = threading.Thread(target=self._loop, name="c18sched-%d" % k, daemon=True)
        self.thread.start()

    def _trace(self, frame, event, arg):
        f = self.tracer
        return f(frame, event, arg) if f is not None else None

    def _loop(self):
        sys.settrace(self._trace)
        try:
            while not self.dead:
                self.gate.acquire()
                job, self.job = self.job, None
                if job is None:
                    break
                sched, t, ops = job
                self.tracer = sched._make_trace(t)
                try:
                    sched._worker(t, ops)
                finally:
                    self.tracer = None
        finally:
            sys.settrace(None)


class _Pool(object):
    def __init__(self):
        self.threads = []


_POOL = [None]


_OPCODE_FLAG = [False]


def _enable_opcode_events():
    """CPython 3.12 delivers per-instruction events only to trace functions installed (sys.settrace)
    after some frame has had f_trace_opcodes set -- the interpreter remembers that in a sticky flag.
    Set it here, on a throw-away frame, before the pool threads install their trace function.
    (Re-installing a trace function while other threads sit in traced frames crashed 3.12.1.)
    Side effect: from now on traced code is instrumented per instruction, which makes line
    granularity about 1.4 times slower for the rest of the process."""
    sys._getframe().f_trace_opcodes = True
    _OPCODE_FLAG[0] = True


def _get_pool(n, opcode=False):
    if opcode and not _OPCODE_FLAG[0]:
        _drop_pool()
        _enable_opcode_events()
    pool = _POOL[0]
    if pool is None:
        pool = _POOL[0] = _Pool()
    while len(pool.threads) < n:
        pool.threads.append(_PoolThread(len(pool.threads)))
    return pool


def _drop_pool():
    """end the idle pool threads and wait for them (threads stuck in an abandoned run are daemons
    and are left behind after a short wait); afterwards no thread of this module has a trace
    function installed"""
    pool, _POOL[0] = _POOL[0], None
    if pool is not None:
        for pt in pool.threads:
            pt.dead = True
            pt.job = None
            try:
                pt.gate.release()
            except RuntimeError:
                pass
        for pt in pool.threads:
            pt.thread.join(0.2)


shutdown_pool = _drop_pool


class SchedLock(object):
    """Cooperative replacement for `threading.Lock` (acquire, release, context manager, locked).

    Under a running scheduler, acquire and release are preemption points; acquiring a held lock
    blocks the thread in the scheduler (not in the OS).  Release of an unlocked lock raises
    RuntimeError like the real one; release by a thread other than the holder raises RuntimeError
    too (stricter than `threading.Lock`, which would silently free the other thread's lock).
    Used from the main thread (prefill before / probes after the threads) it is a plain flag that
    never blocks: acquiring it while held raises RuntimeError (a worker died holding it)."""

    def __init__(self, sched, name="lock"):
        self.sched = sched
        self.name = name
        self.owner = None               # None = free, -1 = main thread, i = thread i

    def acquire(self, blocking=True, timeout=-1):
        s = self.sched
        if s.abandoned:
            return True
        t = s.current
        if t is None:
            if self.owner is not None:
                if not blocking:
                    return False
                raise RuntimeError("lock %s still held by T%s" % (self.name, self.owner))
            self.owner = -1
            return True
        s.point(t, "acquire " + self.name)
        while self.owner is not None:
            if not blocking:
                return False
            s.block(t, self)
        self.owner = t
        return True

    def release(self):
        s = self.sched
        if s.abandoned:
            self.owner = None
            return
        if self.owner is None:
            raise RuntimeError("release unlocked lock")
        t = s.current
        me = -1 if t is None else t
        if self.owner != me:
            raise RuntimeError("release of lock %s held by T%s from T%s" % (self.name, self.owner, me))
        self.owner = None
        s.wake(self)
        if t is not None:
            s.point(t, "release " + self.name)

    def locked(self):
        return self.owner is not None

    def __enter__(self):
        self.acquire()
        return True

    def __exit__(self, *exc):
        self.release()
        return False


def run_schedule(program_factory, prefix=(), targets=(), granularity="line", timeout=10.0,
                 max_steps=20000, record_locs=False, policy=None, keep_pool=False):
    """Execute one schedule: follow `prefix`, then the default policy (or `policy(enabled, current,
    step)`).  Returns an `Outcome`.  keep_pool=True leaves the worker threads alive for the next
    run (call `shutdown_pool()` at the end)."""
    return Scheduler(targets, prefix, granularity, timeout, max_steps, record_locs,
                     policy).run(program_factory, keep_pool)


def explore(program_factory, n_threads, targets, max_preemptions, max_schedules, rng,
            granularity="line", timeout=10.0, max_steps=20000, keep_pool=False):
    """Iterative context bounding (see the module docstring).  Generator of (schedule, outcome);
    `schedule` is the complete list of choices of that run (replay it with `run_schedule`).
    At most `max_schedules` runs; when the pending prefixes outnumber the remaining budget the next
    one is drawn with `rng` (a `random.Random`; None = always depth first).  The worker threads are
    ended when the generator finishes or is closed, unless keep_pool (then call shutdown_pool())."""
    targets = _targets(targets)
    buckets = [[] for _ in range(max_preemptions + 1)]
    buckets[0].append(((), 0, None, 0))            # (parent choices, position, alternative, cost)
    runs = 0
    try:
        for bound in range(max_preemptions + 1):
            pending = buckets[bound]
            while pending:
                if runs >= max_schedules:
                    return
                if rng is not None and len(pending) > max_schedules - runs:
                    j = rng.randrange(len(pending))
                    pending[j], pending[-1] = pending[-1], pending[j]
                choices, pos, alt, used = pending.pop()
                prefix = list(choices[:pos])
                if alt is not None:
                    prefix.append(alt)
                out = run_schedule(program_factory, prefix, targets, granularity, timeout, max_steps,
                                   keep_pool=True)
                runs += 1
                if out.results and len(out.results) != n_threads:
                    raise ValueError("program has %d threads, expected %d" % (len(out.results), n_threads))
                sched = out.schedule
                yield sched, out
                if out.status == "infeasible":
                    continue
                tr = out.trace
                for i in range(len(prefix), len(tr)):
                    en, chosen, cur = tr[i]
                    if len(en) < 2:
                        continue
                    cost = used + (1 if cur in en else 0)
                    if cost > max_preemptions:
                        continue
                    for a in en:
                        if a != chosen:
                            buckets[cost].append((sched, i, a, cost))
    finally:
        if not keep_pool:
            shutdown_pool()


# ----------------------------------------------------------------------------------------------
# clock stub
# ----------------------------------------------------------------------------------------------

class ClockStub(object):
    """Stands in for the `time` module inside tlslite.sessioncache.  `time()` advances a global
    counter by the next increment of `increments` (0 when exhausted) and returns it, so the clock is
    monotone in call order; equal stamps (increment 0) and jumps across maxAge are expressible.
    Every call is logged as (thread index or None for the main thread, value).  `freeze(inc)` adds
    `inc` once and then keeps the value constant (final probes)."""

    def __init__(self, base, increments, sched=None):
        self.now = base
        self.incs = list(increments)
        self.calls = 0
        self.frozen = False
        self.sched = sched
        self.log = []

    def time(self):
        if not self.frozen:
            i = self.calls
            self.calls = i + 1
            if i < len(self.incs):
                self.now += self.incs[i]
        self.log.append((self.sched.current if self.sched is not None else None, self.now))
        return self.now

    def freeze(self, inc=0):
        self.now += inc
        self.frozen = True


@contextlib.contextmanager
def patched_clock(stub):
    """replace the module attribute `time` of tlslite.sessioncache by `stub`, restore afterwards"""
    import tlslite.sessioncache as sc
    old = sc.time
    sc.time = stub
    try:
        yield stub
    finally:
        sc.time = old


@contextlib.contextmanager
def _patched(obj, name, value):
    old = getattr(obj, name)
    setattr(obj, name, value)
    try:
        yield
    finally:
        setattr(obj, name, old)


# ----------------------------------------------------------------------------------------------
# linearizability search
# ----------------------------------------------------------------------------------------------

def find_linearization(histories, state0, step, final_ok):
    """histories: per thread the list of observed operations (dicts with 'start' and 'end' stamps).
    Search an order of all operations that respects every thread's own order and real time (an
    operation that ended before another started comes first) such that `step(state, op)` -- the
    sequential model applied to the operation, returning the next state or None when the model's
    result differs from the observed one -- succeeds for each, and `final_ok(state)` holds at the
    end.  Returns the order as a list of (thread, op index), or None."""
    n = len(histories)
    pos = [0] * n
    order = []

    def rec(state):
        pend = [i for i in range(n) if pos[i] < len(histories[i])]
        if not pend:
            return final_ok(state)
        min_end = min(histories[i][pos[i]]["end"] for i in pend)
        for i in pend:
            op = histories[i][pos[i]]
            if op["start"] > min_end:
                continue
            ns = step(state, op)
            if ns is None:
                continue
            order.append((i, pos[i]))
            pos[i] += 1
            if rec(ns):
                return True
            pos[i] -= 1
            order.pop()
        return False

    return order if rec(state0) else None


# ----------------------------------------------------------------------------------------------
# shared driver plumbing
# ----------------------------------------------------------------------------------------------

def _segments(out):
    """human-readable trace: runs of consecutive points of one thread, [thread, from, to, points]"""
    segs = []
    for (t, loc) in out.locs or []:
        if isinstance(loc, tuple):
            loc = ":".join(str(x) for x in loc)
        if segs and segs[-1][0] == t:
            segs[-1][2] = loc
            segs[-1][3] += 1
        else:
            segs.append([t, loc, loc, 1])
    return segs


def _new_stats():
    return {"schedules": 0, "distinct_schedules": 0, "programs": 0, "explorations": 0,
            "explorations_exhausted": 0, "ops": 0,
            "points": 0, "failures_by_key": {},
            "max_preemptions_used": 0, "seconds": 0.0, "schedules_per_second": 0.0,
            "truncated_by_deadline": False, "first_failure_at_schedule": None}


def _drive(kind, jobs, factory_of, targets_of, check, deadline, stats, failures, max_failures=3):
    """jobs: list of (desc, cfg, seed) with cfg = {"granularity", "max_preemptions",
    "max_schedules"}.  Explore each program; a program is left at its first failure; one failure dict
    is kept per failure class (`key`), further ones of the same class are only counted."""
    seen = set()
    t0 = _time.time()
    # first the schedules without preemption of every program (cheap; shows sequential defects at once)
    smoke, done = [], set()
    for desc, cfg, seed in jobs:
        tag = repr(desc)
        if tag not in done:
            done.add(tag)
            smoke.append((desc, {"granularity": "line", "max_preemptions": 0, "max_schedules": 6}, seed))
    stats["programs"] += len(smoke)
    # load independence: directed programs first and never cut by the deadline; line granularity
    # before opcode granularity (see _enable_opcode_events); the random bulk last within each group
    ordered = sorted(list(jobs), key=lambda j: (j[1]["granularity"] == "opcode", not j[1].get("directed", True)))
    stats.setdefault("cut_by_budget", 0)
    try:
        for desc, cfg, seed in smoke + ordered:
            if len(failures) >= max_failures:
                break
            directed = cfg.get("directed", True)
            if not directed and _time.time() > deadline:
                stats["truncated_by_deadline"] = True
                stats["cut_by_budget"] += 1
                continue
            stats["explorations"] += 1
            gran = cfg["granularity"]
            targets = targets_of(desc)
            k = 0
            cut = False
            for schedule, out in explore(factory_of(desc), len(desc["threads"]), targets,
                                         cfg["max_preemptions"], cfg["max_schedules"],
                                         random.Random(seed), gran, keep_pool=True):
                k += 1
                stats["schedules"] += 1
                stats["ops"] += out.ops()
                stats["points"] += len(schedule)
                seen.add(hash((stats["explorations"], tuple(schedule))))
                p = out.preemptions
                if p > stats["max_preemptions_used"]:
                    stats["max_preemptions_used"] = p
                bad = check(desc, out)
                if bad:
                    key, why = bad
                    cut = True
                    if stats["first_failure_at_schedule"] is None:
                        stats["first_failure_at_schedule"] = stats["schedules"]
                    stats["failures_by_key"][key] = stats["failures_by_key"].get(key, 0) + 1
                    if not any(f["key"] == key for f in failures):
                        failures.append(_failure(kind, desc, schedule, gran, out, key, why, k,
                                                 stats["schedules"], factory_of, targets))
                    break
                if not directed and _time.time() > deadline:
                    stats["truncated_by_deadline"] = True
                    stats["cut_by_budget"] += 1
                    cut = True
                    break
            if not cut and k < cfg["max_schedules"]:
                stats["explorations_exhausted"] += 1   # every schedule within the bound was run
    finally:
        shutdown_pool()
    stats["distinct_schedules"] += len(seen)
    dt = _time.time() - t0
    stats["seconds"] = round(stats["seconds"] + dt, 3)
    if stats["seconds"] > 0:
        stats["schedules_per_second"] = round(stats["schedules"] / stats["seconds"], 1)


def _failure(kind, desc, schedule, gran, out, key, why, k_prog, k_total, factory_of, targets):
    fd = {"kind": kind, "key": key, "deterministic": True, "program": desc, "schedule": list(schedule),
          "granularity": gran, "status": out.status, "detail": out.detail,
          "preemptions": out.preemptions, "observed": _observed(out), "why": why,
          "schedules_in_program": k_prog, "schedules_total": k_total}
    try:        # once more with locations, for the reader (and as a determinism check)
        again = run_schedule(factory_of(desc), schedule, targets, gran, record_locs=True)
        fd["trace"] = _segments(again)
        fd["reproduced"] = (_observed(again) == fd["observed"] and again.status == out.status)
    except Exception as e:
        fd["trace"] = "re-run failed: %r" % (e,)
        fd["reproduced"] = False
    return fd


def _observed(out):
    obs = {"results": [[_strip(r) for r in th] for th in out.results]}
    extra = getattr(out.program, "observed", None)
    if extra:
        obs.update(extra)
    return obs


def _strip(rec):
    if rec["status"] == "ok":
        return rec["value"]
    return {"exc": rec["exc_type"], "msg": rec["exc_msg"]}


def _status_failure(kind, out):
    if out.status != "ok":
        return ("c18:%s-%s" % (kind, out.status), "%s: %s" % (out.status.upper(), out.detail))
    return None


def replay(fd):
    """re-execute any failure dict of this module; True if it still fails"""
    return {"cache": replay_cache, "rsa": replay_rsa, "db": replay_db,
            "stress_cache": replay_stress, "stress_rsa": replay_stress}[fd["kind"]](fd)


def _replay(fd, factory_of, targets_of, check):
    desc = fd["program"]
    out = run_schedule(factory_of(desc), fd["schedule"], targets_of(desc), fd["granularity"])
    return bool(check(desc, out))


# ----------------------------------------------------------------------------------------------
# 1. SessionCache
# ----------------------------------------------------------------------------------------------

class _Sess(object):
    """the part of a Session the cache uses"""

    def __init__(self, n, resumable=True):
        self.n = n
        self.resumable = resumable

    def valid(self):
        return self.resumable


def _sid(i):
    return bytes([65 + i])


def _ref_module():
    try:
        from . import c18_ref
        return c18_ref
    except ImportError:
        import importlib.util
        path = os.path.join(os.path.dirname(os.path.abspath(__file__)), "c18_ref.py")
        spec = importlib.util.spec_from_file_location("c18_ref", path)
        mod = importlib.util.module_from_spec(spec)
        spec.loader.exec_module(mod)
        return mod


def cache_program(maxEntries, maxAge, prefill, threads, incs=None, sessions=None, n_ids=None,
                  final_inc=0, base=1000):
    """Program description (JSON-serialisable).
       prefill  [[id, session], ...] stored sequentially before the threads start
       threads  per thread [["set", id, session] | ["get", id], ...]; ids and sessions are small ints
       incs     clock increments, one per clock read in call order (prefill stores first); default 1
       sessions resumable flag per session index (default all resumable)"""
    ops = [op for th in threads for op in th]
    used_s = [p[1] for p in prefill] + [op[2] for op in ops if op[0] == "set"]
    used_i = [p[0] for p in prefill] + [op[1] for op in ops]
    n_clock = len(prefill) + len(ops)
    if incs is None:
        incs = [1] * n_clock
    if sessions is None:
        sessions = [1] * (max(used_s) + 1 if used_s else 0)
    if n_ids is None:
        n_ids = max(used_i) + 1
    return {"maxEntries": maxEntries, "maxAge": maxAge, "base": base, "incs": list(incs),
            "final_inc": final_inc, "n_ids": n_ids, "sessions": list(sessions),
            "prefill": [list(p) for p in prefill], "threads": [[list(o) for o in th] for th in threads]}


def _cache_targets(desc=None):
    import tlslite.sessioncache as sc
    return Targets([sc.__file__])


_TCACHE = {}


def _cached_targets(key, make):
    r = _TCACHE.get(key)
    if r is None:
        r = _TCACHE[key] = make()
    return r


def _cache_factory(desc):
    def factory(sched):
        import tlslite.sessioncache as sc
        prog = Program()
        clock = ClockStub(desc["base"], desc["incs"], sched)
        stack = contextlib.ExitStack()
        stack.enter_context(patched_clock(clock))
        prog.cleanup = stack.close
        try:
            cache = sc.SessionCache(desc["maxEntries"], desc["maxAge"])
            cache.lock = SchedLock(sched, "cache.lock")
            sessions = [_Sess(i, bool(r)) for i, r in enumerate(desc["sessions"])]
            prog.cache = cache
            prog.clock = clock
            prog.observed = obs = {"prefill": [], "final": None, "size": None}
            for sid, s in desc["prefill"]:
                i0 = len(clock.log)
                try:
                    cache[bytearray(_sid(sid))] = sessions[s]
                    r = ["ok"]
                except Exception as e:
                    r = ["exc", type(e).__name__, str(e)[:200]]
                obs["prefill"].append({"r": r, "clocks": [v for (_, v) in clock.log[i0:]]})

            def get(sid):
                try:
                    s = cache[bytearray(_sid(sid))]
                    return ["session", s.n] if isinstance(s, _Sess) else ["garbage", repr(s)[:80]]
                except KeyError:
                    return ["KeyError"]
                except Exception as e:
                    return ["exc", type(e).__name__, str(e)[:200]]

            def mk(t, op):
                kind, sid = op[0], op[1]

                def run():
                    i0 = len(clock.log)
                    if kind == "set":
                        try:
                            cache[bytearray(_sid(sid))] = sessions[op[2]]
                            r = ["ok"]
                        except Exception as e:
                            r = ["exc", type(e).__name__, str(e)[:200]]
                    else:
                        r = get(sid)
                    return {"r": r, "clocks": [v for (th, v) in clock.log[i0:] if th == t]}
                return run

            def finish(outcome):
                clock.freeze(desc.get("final_inc", 0))
                obs["final_now"] = clock.now
                obs["final"] = [get(sid) for sid in range(desc["n_ids"])]
                obs["size"] = len(cache.entriesDict)

            prog.finish = finish
            prog.threads = [[mk(t, op) for op in th] for t, th in enumerate(desc["threads"])]
        except BaseException:
            stack.close()
            raise
        return prog
    return factory


def _check_cache(desc, out):
    """None when the run is explained by the reference cache, else the reason (a string)."""
    bad = _status_failure("cache", out)
    if bad:
        return bad
    ref = _ref_module()
    obs = out.program.observed
    flags = desc["sessions"]
    me, ma = desc["maxEntries"], desc["maxAge"]

    def lookup(log, sid, now):
        rc = ref.RefCache(me, ma)
        rc.log = list(log)
        r = rc.lookup(_sid(sid), now, lambda s: bool(flags[s]))
        return ["KeyError"] if r == ref.KEYERROR else ["session", r]

    # sequential prefill
    log = ()
    last = desc["base"]
    for (sid, s), o in zip(desc["prefill"], obs["prefill"]):
        if o["r"] != ["ok"] or len(o["clocks"]) != 1:
            return "c18:cache-internal-error", "sequential prefill store of id %d failed: %r" % (sid, o)
        last = o["clocks"][0]
        log = log + ((_sid(sid), last, s),)
    hist = []
    for t, (ops, recs) in enumerate(zip(desc["threads"], out.results)):
        if len(recs) != len(ops):
            return "c18:cache-internal-error", "thread %d performed %d of %d operations" % (t, len(recs), len(ops))
        h = []
        for j, (op, rec) in enumerate(zip(ops, recs)):
            if rec["status"] != "ok":
                return "c18:cache-harness-error", "harness error in T%d op %d: %s %s" % (t, j, rec["exc_type"], rec["exc_msg"])
            v = rec["value"]
            r = v["r"]
            if r[0] in ("exc", "garbage"):
                return "c18:cache-internal-error", "internal error: T%d %r -> %r" % (t, op, r)
            if op[0] == "set" and r != ["ok"]:
                return "c18:cache-internal-error", "internal error: T%d %r -> %r" % (t, op, r)
            if len(v["clocks"]) != 1:
                return "c18:cache-internal-error", "T%d %r read the clock %d times (result %r)" % (t, op, len(v["clocks"]), r)
            h.append({"start": rec["start"], "end": rec["end"], "op": op, "r": r, "now": v["clocks"][0]})
        hist.append(h)
    for sid, r in enumerate(obs["final"]):
        if r[0] in ("exc", "garbage"):
            return "c18:cache-internal-error", "internal error in the final sequential lookup of id %d: %r" % (sid, r)
    if obs["size"] > me - 1:
        return "c18:cache-size-bound", "size bound exceeded: %d sessions cached, maxEntries-1 = %d" % (obs["size"], me - 1)
    final_now = obs["final_now"]

    def step(state, o):
        log, last = state
        now = o["now"]
        if now < last:
            return None
        op = o["op"]
        if op[0] == "set":
            return (log + ((_sid(op[1]), now, op[2]),), now)
        return state[:1] + (now,) if lookup(log, op[1], now) == o["r"] else None

    def final_ok(state):
        return all(lookup(state[0], sid, final_now) == r for sid, r in enumerate(obs["final"]))

    if find_linearization(hist, (log, last), step, final_ok) is None:
        return ("c18:cache-not-linearizable", "not linearizable: no sequential order of the operations (program order, real time "
                "and clock order respected) run on the reference cache gives these results and this "
                "final content")
    return None


def _random_cache_program(rng, three=None):
    me = rng.choice([2, 3, 3, 4])
    ma = rng.choice([2, 5, 100])
    n_ids = rng.choice([1, 2, 2, 3, 3])
    nthreads = (3 if rng.random() < 0.3 else 2) if three is None else (3 if three else 2)
    nprefill = rng.randrange(0, me + 2)
    nsess = [0]

    def new_s():
        nsess[0] += 1
        return nsess[0] - 1

    prefill = [[rng.randrange(n_ids), new_s()] for _ in range(nprefill)]
    threads = []
    for _ in range(nthreads):
        nops = rng.randint(1, 2 if nthreads == 3 else 3)
        th = []
        for _ in range(nops):
            if rng.random() < 0.5:
                th.append(["set", rng.randrange(n_ids), new_s()])
            else:
                th.append(["get", rng.randrange(n_ids)])
        threads.append(th)
    nclock = nprefill + sum(len(t) for t in threads)
    incs = [rng.choice([0, 0, 1, 1, 1, 2, ma, ma + 1]) for _ in range(nclock)]
    sessions = [0 if rng.random() < 0.12 else 1 for _ in range(nsess[0])]
    return cache_program(me, ma, prefill, threads, incs, sessions, n_ids,
                         final_inc=rng.choice([0, 0, 1, ma + 1]))


def _fixed_cache_programs():
    A, B, C, D = 0, 1, 2, 3
    P = cache_program
    return [
        # both threads store the same ID
        P(3, 100, [], [[["set", A, 0]], [["set", A, 1]]], n_ids=2),
        P(3, 100, [], [[["set", A, 0], ["get", A]], [["set", A, 1], ["get", A]]], n_ids=2),
        # same ID stored twice, then a third store evicts the older list entry
        P(3, 100, [[A, 0]], [[["set", A, 1], ["set", B, 2]], [["get", A], ["get", A]]]),
        # a purge in get races with a set (the get's clock read crosses maxAge)
        P(4, 5, [[A, 0], [B, 1]], [[["get", A]], [["set", C, 2]]], incs=[1, 1, 10, 0]),
        P(4, 5, [[A, 0], [B, 1]], [[["get", B], ["get", C]], [["set", C, 2], ["set", A, 3]]],
          incs=[1, 3, 3, 0, 0, 6], final_inc=6),
        # the ring is full
        P(3, 100, [[A, 0], [B, 1]], [[["set", C, 2]], [["get", A], ["get", B]]]),
        P(2, 100, [[A, 0]], [[["set", B, 1]], [["set", C, 2]]]),
        # wrapped-around ring, mixed
        P(3, 100, [[A, 0], [B, 1], [C, 2]], [[["set", A, 3], ["get", B]], [["get", C], ["set", B, 4]]]),
        # a non-resumable session is replaced
        P(3, 100, [[A, 0]], [[["get", A]], [["set", A, 1], ["get", A]]], sessions=[0, 1], n_ids=2),
        # three threads, one operation each
        P(3, 100, [], [[["set", A, 0]], [["set", A, 1]], [["get", A]]], n_ids=2),
        # duplicates of which the older one is expired, equal time stamps
        P(4, 3, [[A, 0], [A, 1]], [[["get", A]], [["set", B, 2]]], incs=[1, 4, 0, 0], n_ids=2),
        P(4, 3, [[A, 0]], [[["set", A, 1], ["get", A]], [["set", B, 2], ["get", A]]],
          incs=[0, 0, 0, 0, 4], final_inc=4, n_ids=2),
        # the order of the time stamps in the ring must be the order of the stores (the purge stops at
        # the first live entry): the later clock reading is maxAge/2 later, the final probe expires
        # only the earlier one
        P(4, 10, [], [[["set", A, 0]], [["set", B, 1]]], incs=[0, 5], final_inc=6),
        P(4, 10, [], [[["set", A, 0]], [["set", B, 1]], [["get", A]]], incs=[0, 5, 6], final_inc=0),
        P(3, 10, [[C, 2]], [[["set", A, 0], ["get", A]], [["set", B, 1]]], incs=[0, 0, 5, 6], final_inc=0),
    ]


def _job(d, gran, pre, cap, directed=True):
    """directed = a hand-written program that exists to expose one kind of defect: it is explored
    completely whatever the machine load (never cut by the wall-clock guard); only the seeded random
    programs (`_rjob`) may be cut, and the cut is recorded in stats['cut_by_budget']."""
    return (d, {"granularity": gran, "max_preemptions": pre, "max_schedules": cap, "directed": directed})


def _rjob(d, gran, pre, cap):
    return _job(d, gran, pre, cap, directed=False)


def _cache_jobs(rng, tier):
    """(program, exploration parameters, seed) list; sized from the measured speed (about 700-1000
    schedules/s at line and 450/s at opcode granularity) for about 20 s (quick) / 3-4 min (thorough).
    Line-granularity jobs come first: see _enable_opcode_events."""
    fixed = _fixed_cache_programs()
    if tier == "quick":
        jobs = [_job(d, "line", 2, 1500) for d in fixed]
        jobs += [_rjob(_random_cache_program(rng, three=(i % 4 == 3)), "line", 2, 600) for i in range(16)]
        jobs += [_job(d, "opcode", 1, 400) for d in fixed[:3]]
    else:
        jobs = [_job(d, "line", 3, 6000) for d in fixed]
        jobs += [_rjob(_random_cache_program(rng, three=(i % 3 == 2)), "line", 3, 1200) for i in range(60)]
        jobs += [_job(d, "opcode", 2, 2500) for d in fixed]
        jobs += [_rjob(_random_cache_program(rng, three=False), "opcode", 2, 1000) for i in range(10)]
    return [(d, c, rng.getrandbits(48)) for d, c in jobs]


def explore_cache(rng, tier="quick", budget=None, max_failures=3):
    """Explore SessionCache programs; returns (failures, stats).  `budget` = wall-clock guard in
    seconds (default 45 quick / 360 thorough, about twice the expected run time: 20 s / 3-4 min); the
    schedule counts are fixed per tier, so equal
    seeds give equal results unless the guard cuts the run short (stats['truncated_by_deadline'])."""
    stats = _new_stats()
    failures = []
    if budget is None:
        budget = 45 if tier == "quick" else 360
    targets = _cached_targets(("cache", _tree()), _cache_targets)
    _drive("cache", _cache_jobs(rng, tier), _cache_factory, lambda d: targets, _check_cache,
           _time.time() + budget, stats, failures, max_failures)
    return failures, stats


def replay_cache(fd):
    return _replay(fd, _cache_factory, _cache_targets, _check_cache)


def _tree():
    import tlslite
    return os.path.dirname(os.path.abspath(tlslite.__file__))


# ----------------------------------------------------------------------------------------------
# 2. RSA private-key operation
# ----------------------------------------------------------------------------------------------

# two fixed 128-bit primes: the arithmetic of blinding is the same for every size, and a small key
# keeps a schedule at about a millisecond
_RSA_P = 0xf38452c4b460a8eae98d2c9619e9ae0d
_RSA_Q = 0xc89ab551e90d27f7eeb5bef934309379
_RSA_E = 65537
_RSA_N = _RSA_P * _RSA_Q
_RSA_D = pow(_RSA_E, -1, (_RSA_P - 1) * (_RSA_Q - 1))      # independent of the key object's own d


_RSA_MEMO = {}


def _rsa_input(i):
    """the i-th fixed test input (a deterministic residue mod n, never 0 or 1)"""
    r = _RSA_MEMO.get(i)
    if r is None:
        r = _RSA_MEMO[i] = pow(0x10001 + 2 * i + 1, 12345 + i, _RSA_N - 3) + 2
    return r


def _rsa_want(i):
    """c^d mod n for the i-th input, computed without the key object"""
    r = _RSA_MEMO.get(("want", i))
    if r is None:
        r = _RSA_MEMO[("want", i)] = pow(_rsa_input(i), _RSA_D, _RSA_N)
    return r


def rsa_program(threads, warm=0, post=(), seed=1):
    """threads: per thread the list of input indices; warm: sequential operations before the threads
    (0 = the blinder initialisation races too); post: sequential operations afterwards; seed: of the
    stub that replaces getRandomNumber."""
    return {"threads": [list(t) for t in threads], "warm": warm, "post": list(post), "seed": seed}


def _rsa_targets(desc=None):
    import tlslite.utils.python_rsakey as pr
    return Targets([(pr.__file__, "_rawPrivateKeyOp")])


def _rsa_factory(desc):
    def factory(sched):
        import tlslite.utils.python_rsakey as pr
        prog = Program()
        r = random.Random(desc["seed"])
        stack = contextlib.ExitStack()
        stack.enter_context(_patched(pr, "getRandomNumber", lambda low, high: r.randrange(low, high)))
        prog.cleanup = stack.close
        try:
            key = pr.Python_RSAKey(_RSA_N, _RSA_E, 0, _RSA_P, _RSA_Q)
            key._lock = SchedLock(sched, "key._lock")
            prog.key = key
            prog.observed = obs = {"warm": [], "post": None, "blinder": None, "unblinder": None}

            def do(i):
                try:
                    return int(key._rawPrivateKeyOp(_rsa_input(i)))
                except Exception as e:
                    return {"exc": type(e).__name__, "msg": str(e)[:200]}

            for i in range(desc["warm"]):
                obs["warm"].append(do(1000 + i))

            def finish(outcome):
                obs["blinder"] = int(key.blinder)
                obs["unblinder"] = int(key.unblinder)
                obs["post"] = [do(i) for i in desc["post"]]
                obs["blinder_after"] = int(key.blinder)
                obs["unblinder_after"] = int(key.unblinder)

            prog.finish = finish
            prog.threads = [[(lambda i=i: do(i)) for i in th] for th in desc["threads"]]
        except BaseException:
            stack.close()
            raise
        return prog
    return factory


def _check_rsa(desc, out):
    bad = _status_failure("rsa", out)
    if bad:
        return bad
    obs = out.program.observed

    want = _rsa_want
    for i, v in enumerate(obs["warm"]):
        if v != want(1000 + i):
            return "c18:rsa-wrong-result", "sequential warm-up operation %d wrong: %r" % (i, v)
    for t, (ins, recs) in enumerate(zip(desc["threads"], out.results)):
        if len(recs) != len(ins):
            return "c18:rsa-internal-error", "thread %d performed %d of %d operations" % (t, len(recs), len(ins))
        for j, (i, rec) in enumerate(zip(ins, recs)):
            if rec["status"] != "ok":
                return "c18:rsa-harness-error", "harness error in T%d op %d: %s %s" % (t, j, rec["exc_type"], rec["exc_msg"])
            v = rec["value"]
            if isinstance(v, dict):
                return "c18:rsa-internal-error", "internal error: T%d op %d raised %s: %s" % (t, j, v["exc"], v["msg"])
            if v != want(i):
                return "c18:rsa-wrong-result", "wrong result: T%d op %d (input %d) is not c^d mod n" % (t, j, i)
    for tag in ("", "_after"):
        b, u = obs["blinder" + tag], obs["unblinder" + tag]
        if b and (b * pow(u, _RSA_E, _RSA_N)) % _RSA_N != 1:
            return ("c18:rsa-blinding-pair", "blinding pair broken%s: blinder * unblinder^e != 1 mod n"
                    % (" after the sequential post operations" if tag else " after the threads"))
        if tag == "":
            for j, (i, v) in enumerate(zip(desc["post"], obs["post"])):
                if isinstance(v, dict):
                    return "c18:rsa-internal-error", "internal error: sequential post operation %d raised %s: %s" % (j, v["exc"], v["msg"])
                if v != want(i):
                    return "c18:rsa-wrong-result", "wrong result: sequential post operation %d (input %d) is not c^d mod n" % (j, i)
    return None


def _rsa_jobs(rng, tier):
    R = rsa_program
    fixed = [
        R([[0], [1]], warm=0, post=[2]),
        R([[0], [1]], warm=1, post=[2]),
        R([[0, 1], [2]], warm=0, post=[3]),
        R([[0, 1], [2]], warm=2, post=[3, 4]),
        R([[0], [1], [2]], warm=0, post=[3]),
        R([[0, 1], [2, 3]], warm=1, post=[4]),
    ]
    def rand(k):
        nt = 3 if rng.random() < 0.3 else 2
        c = itertools.count()
        threads = [[next(c) for _ in range(rng.randint(1, 2))] for _ in range(nt)]
        return R(threads, warm=rng.choice([0, 0, 1, 2]), post=[next(c) for _ in range(rng.randint(1, 2))],
                 seed=rng.getrandbits(32))

    if tier == "quick":
        jobs = [_job(d, "line", 2, 900) for d in fixed]
        jobs += [_rjob(rand(k), "line", 2, 300) for k in range(2)]
        jobs += [_job(fixed[0], "opcode", 2, 600), _job(fixed[1], "opcode", 2, 400)]
        jobs += [_rjob(rand(k), "opcode", 2, 300) for k in range(2)]
    else:
        jobs = [_job(d, "line", 3, 6000) for d in fixed]
        jobs += [_rjob(rand(k), "line", 3, 1000) for k in range(8)]
        jobs += [_job(d, "opcode", 3, 3000) for d in fixed]
        jobs += [_rjob(rand(k), "opcode", 3, 1000) for k in range(8)]
    return [(d, c, rng.getrandbits(48)) for d, c in jobs]


def explore_rsa(rng, tier="quick", budget=None, max_failures=3):
    """Explore concurrent `_rawPrivateKeyOp` on one Python_RSAKey; returns (failures, stats)."""
    stats = _new_stats()
    failures = []
    if budget is None:
        budget = 30 if tier == "quick" else 240
    targets = _cached_targets(("rsa", _tree()), _rsa_targets)
    _drive("rsa", _rsa_jobs(rng, tier), _rsa_factory, lambda d: targets, _check_rsa,
           _time.time() + budget, stats, failures, max_failures)
    return failures, stats


def replay_rsa(fd):
    return _replay(fd, _rsa_factory, _rsa_targets, _check_rsa)


# ----------------------------------------------------------------------------------------------
# 3. VerifierDB / BaseDB
# ----------------------------------------------------------------------------------------------

class RacyDict(object):
    """A mapping that is deliberately NOT atomic: every mutation is a multi-line read-modify-write of
    a list of pairs.  Put behind BaseDB's lock (mode "racy") it stands for any backend that relies on
    the caller's locking: while BaseDB takes its lock around every access nothing can go wrong, and
    an access outside the lock loses updates visibly.  Its methods are traced (preemption points)."""

    def __init__(self):
        self.items = []

    def __getitem__(self, k):
        for kk, v in self.items:
            if kk == k:
                return v
        raise KeyError(k)

    def __setitem__(self, k, v):
        cur = self.items
        new = [p for p in cur if p[0] != k]
        new.append((k, v))
        self.items = new

    def __delitem__(self, k):
        cur = self.items
        new = [p for p in cur if p[0] != k]
        if len(new) == len(cur):
            raise KeyError(k)
        self.items = new

    def __contains__(self, k):
        for kk, _ in self.items:
            if kk == k:
                return True
        return False

    def keys(self):
        cur = self.items
        return [k for k, _ in cur]


_DB_USERS = ["alice", "bob", "carol"]
_DB_PASSWORDS = ["pw-a", "pw-b"]
_DB_OPS = ("set", "get", "in", "del", "keys", "check", "rget", "rin")
# "rget" / "rin": lookup / membership test of the internal record name; the internal records of a
# database are never user entries: not returned, not contained, not listed by keys()
_DB_RESERVED = "--Reserved--type"
_DB_STATE = {}          # per tree: {"entries": {...}, "caps": {...}, "minimal": bool}
_DB_DIR = [None]
_DB_COUNTER = itertools.count()


def _db_dir():
    if _DB_DIR[0] is None or not os.path.isdir(_DB_DIR[0]):
        d = "/tmp/c18sched_db_%d" % os.getpid()
        os.makedirs(d, exist_ok=True)
        _DB_DIR[0] = d
    return _DB_DIR[0]


def _db_rmdir():
    if _DB_DIR[0] is not None:
        shutil.rmtree(_DB_DIR[0], ignore_errors=True)
        _DB_DIR[0] = None


def _db_user(desc, u):
    name = _DB_USERS[u]
    return name if desc["usertype"] == "str" else name.encode("ascii")


def _db_entries(usertype, minimal):
    """entry index -> (owner user index, password index, value); computed once per process and tree.
    Entry i belongs to user i % len(users) with password i // len(users)."""
    st = _DB_STATE.setdefault(_tree(), {})
    key = ("entries", usertype, minimal)
    if key not in st:
        ents = []
        if minimal:
            for i in range(len(_DB_USERS) * len(_DB_PASSWORDS)):
                ents.append((i % len(_DB_USERS), i // len(_DB_USERS), b"value-%d" % i))
        else:
            from tlslite.verifierdb import VerifierDB
            import tlslite.mathtls as mathtls
            ctr = itertools.count(1)
            with _patched(mathtls, "getRandomBytes",
                          lambda n: bytearray((next(ctr) * 37 + k) % 256 for k in range(n))):
                for i in range(len(_DB_USERS) * len(_DB_PASSWORDS)):
                    u, p = i % len(_DB_USERS), i // len(_DB_USERS)
                    user, pw = _DB_USERS[u], _DB_PASSWORDS[p]
                    if usertype == "bytes":
                        user, pw = user.encode("ascii"), pw.encode("ascii")
                    ents.append((u, p, VerifierDB.makeVerifier(user, pw, 1024)))
        st[key] = ents
    return st[key]


def _db_make(mode, minimal, sched):
    """fresh database of the given mode; returns (db, cleanup)"""
    import tlslite.basedb as basedb
    if minimal:
        class MinimalDB(basedb.BaseDB):
            """BaseDB with identity item conversion (fallback when VerifierDB is broken sequentially)"""

            def __init__(self, filename=None):
                basedb.BaseDB.__init__(self, filename, b"minimal")

            def _getItem(self, username, valueStr):
                return valueStr

            def _setItem(self, username, value):
                return value

            def _checkItem(self, value, username, param):
                return value == param
        cls = MinimalDB
    else:
        from tlslite.verifierdb import VerifierDB as cls
    if mode == "disk":
        path = os.path.join(_db_dir(), "db%d" % next(_DB_COUNTER))
        db = cls(path)
        db.create()
        if type(db.db).__module__ != "dbm.dumb":        # force the pure-Python backend: it is the
            import dbm.dumb                             # one whose internals we can trace
            try:
                db.db.close()
            except Exception:
                pass
            _rm_db_files(path)
            db.db = dbm.dumb.open(path, "n")
            db.db["--Reserved--type"] = db.type

        def cleanup():
            try:
                db.db.close()
            except Exception:
                pass
            _rm_db_files(path)
    else:
        db = cls()
        db.create()
        if mode == "racy":
            db.db = RacyDict()
        cleanup = None
    if sched is not None:
        db.lock = SchedLock(sched, "db.lock")
    return db, cleanup


def _rm_db_files(path):
    for ext in ("", ".dat", ".dir", ".bak", ".db", ".pag"):
        try:
            os.unlink(path + ext)
        except OSError:
            pass


def _db_do(db, desc, entries, op):
    """perform one operation, canonical JSON-able result"""
    kind = op[0]
    try:
        if kind == "keys":
            ks = db.keys()
            return ["keys", sorted(k.decode("ascii") if isinstance(k, bytes) else str(k) for k in ks)]
        if kind in ("rget", "rin"):
            rname = _DB_RESERVED if desc["usertype"] == "str" else _DB_RESERVED.encode("ascii")
            if kind == "rin":
                return ["bool", bool(rname in db)]
            v = db[rname]
            return ["garbage", repr(v)[:80]]
        user = _db_user(desc, op[1])
        if kind == "set":
            db[user] = entries[op[2]][2]
            return ["ok"]
        if kind == "get":
            v = db[user]
            for i, e in enumerate(entries):
                if _same_entry(v, e[2]):
                    return ["entry", i]
            return ["garbage", repr(v)[:80]]
        if kind == "in":
            return ["bool", bool(user in db)]
        if kind == "del":
            del db[user]
            return ["ok"]
        if kind == "check":
            pw = _DB_PASSWORDS[op[2]]
            if desc["minimal"]:
                param = entries[op[1] + len(_DB_USERS) * op[2]][2]
            else:
                param = pw if desc["usertype"] == "str" else pw.encode("ascii")
            return ["bool", bool(db.check(user, param))]
        return ["exc", "BadOp", kind]
    except KeyError:
        return ["KeyError"]
    except Exception as e:
        return ["exc", type(e).__name__, str(e)[:200]]


def _same_entry(v, e):
    if isinstance(e, tuple):
        return (isinstance(v, tuple) and len(v) == len(e)
                and all((bytes(a) if isinstance(a, (bytes, bytearray)) else a)
                        == (bytes(b) if isinstance(b, (bytes, bytearray)) else b) for a, b in zip(v, e)))
    return isinstance(v, (bytes, bytearray)) and bytes(v) == bytes(e)


def _db_model(desc, model, op):
    """the sequential specification: a plain dict user index -> entry index.
    Returns (result, new model)."""
    kind = op[0]
    if kind == "keys":
        return ["keys", sorted(_DB_USERS[u] for u in model)], model
    if kind == "rget":
        return ["KeyError"], model
    if kind == "rin":
        return ["bool", False], model
    u = op[1]
    if kind == "set":
        m = dict(model)
        m[u] = op[2]
        return ["ok"], m
    if kind == "in":
        return ["bool", u in model], model
    if u not in model:
        return ["KeyError"], model
    if kind == "get":
        return ["entry", model[u]], model
    if kind == "del":
        m = dict(model)
        del m[u]
        return ["ok"], m
    if kind == "check":       # the stored verifier matches iff it was made for this user and password
        return ["bool", model[u] == u + len(_DB_USERS) * op[2]], model
    raise ValueError(kind)


def _db_capabilities(mode, usertype, minimal):
    """Which operation kinds behave like the dict model when used *sequentially* on this tree in this
    configuration.  Kinds that do not (e.g. VerifierDB.check with str user names, keys() with bytes
    names on Python 3) are excluded from the concurrent programs: a sequential defect is not a
    concurrency failure.  Returns (set of kinds, {kind: first sequential discrepancy})."""
    st = _DB_STATE.setdefault(_tree(), {})
    key = ("caps", mode, usertype, minimal)
    if key in st:
        return st[key]
    desc = {"usertype": usertype, "minimal": minimal, "mode": mode}
    broken = {}
    try:
        entries = _db_entries(usertype, minimal)
    except Exception as e:
        st[key] = (set(), {"entries": "%s: %s" % (type(e).__name__, e)})
        return st[key]
    script = [["rin"], ["rget"], ["in", 0], ["get", 0], ["del", 0], ["keys"], ["set", 0, 0], ["rin"], ["rget"], ["in", 0], ["get", 0],
              ["check", 0, 0], ["check", 0, 1], ["keys"], ["set", 1, 4], ["set", 0, 3], ["get", 0],
              ["check", 0, 1], ["check", 1, 0], ["keys"], ["del", 0], ["del", 0], ["get", 0],
              ["in", 0], ["keys"], ["check", 0, 0], ["get", 1]]
    for kind in _DB_OPS:
        cleanup = None
        try:
            db, cleanup = _db_make(mode, minimal, None)
            model = {}
            for op in script:
                if op[0] != kind and op[0] not in ("set", "del"):
                    continue
                if op[0] in broken:
                    continue
                got = _db_do(db, desc, entries, op)
                want, model = _db_model(desc, model, op)
                if got != want:
                    broken.setdefault(op[0], "%r: got %r, dict model says %r" % (op, got, want))
                    if op[0] in ("set", "del"):
                        break
        except Exception as e:
            broken.setdefault(kind, "%s: %s" % (type(e).__name__, e))
        finally:
            if cleanup:
                cleanup()
    st[key] = (set(k for k in _DB_OPS if k not in broken), broken)
    return st[key]


def db_program(mode, usertype, threads, prefill=(), minimal=False):
    """mode "mem" (dict) | "racy" (RacyDict behind the lock) | "disk" (dbm.dumb file);
    threads: per thread [["set", user, entry] | ["get", user] | ["in", user] | ["del", user] |
    ["keys"] | ["check", user, password], ...] with small-int indices."""
    return {"mode": mode, "usertype": usertype, "minimal": bool(minimal),
            "prefill": [list(p) for p in prefill], "threads": [[list(o) for o in th] for th in threads]}


def _db_targets(desc):
    def make():
        import tlslite.basedb as basedb
        specs = [basedb.__file__]
        if desc["mode"] == "disk":
            import dbm.dumb
            specs.append(dbm.dumb.__file__)
        if desc["mode"] == "racy":
            specs.append((__file__, ["RacyDict." + n for n in
                                     ("__getitem__", "__setitem__", "__delitem__", "__contains__", "keys")]))
        return Targets(specs)
    return _cached_targets(("db", _tree(), desc["mode"]), make)


def _db_factory(desc):
    def factory(sched):
        prog = Program()
        entries = _db_entries(desc["usertype"], desc["minimal"])
        db, cleanup = _db_make(desc["mode"], desc["minimal"], sched)
        if cleanup:
            prog.cleanup = cleanup
        try:
            prog.db = db
            prog.observed = obs = {"prefill": [], "final": None}
            for op in desc["prefill"]:
                obs["prefill"].append(_db_do(db, desc, entries, op))
            caps = _db_capabilities(desc["mode"], desc["usertype"], desc["minimal"])[0]

            def finish(outcome):
                obs["final"] = [_db_do(db, desc, entries, ["get", u]) for u in range(len(_DB_USERS))]
                if "keys" in caps:
                    obs["final_keys"] = _db_do(db, desc, entries, ["keys"])

            prog.finish = finish
            prog.threads = [[(lambda op=op: _db_do(db, desc, entries, op)) for op in th]
                            for th in desc["threads"]]
        except BaseException:
            if cleanup:
                cleanup()
            raise
        return prog
    return factory


def _check_db(desc, out):
    bad = _status_failure("db", out)
    if bad:
        return bad
    obs = out.program.observed
    model = {}
    for op, got in zip(desc["prefill"], obs["prefill"]):
        want, model = _db_model(desc, model, op)
        if got != want:
            return "c18:db-internal-error", "sequential prefill %r: got %r, expected %r" % (op, got, want)
    hist = []
    for t, (ops, recs) in enumerate(zip(desc["threads"], out.results)):
        if len(recs) != len(ops):
            return "c18:db-internal-error", "thread %d performed %d of %d operations" % (t, len(recs), len(ops))
        h = []
        for j, (op, rec) in enumerate(zip(ops, recs)):
            if rec["status"] != "ok":
                return "c18:db-harness-error", "harness error in T%d op %d: %s %s" % (t, j, rec["exc_type"], rec["exc_msg"])
            r = rec["value"]
            if r[0] in ("exc", "garbage"):
                key = "c18:db-internal-error"
                if op[0] == "keys" and r[1] == "RuntimeError" and "changed size during iteration" in r[2]:
                    key = "c18:db-keys-iterates-dict-view-outside-lock"
                return key, "internal error: T%d %r -> %r" % (t, op, r)
            h.append({"start": rec["start"], "end": rec["end"], "op": op, "r": r})
        hist.append(h)
    for u, r in enumerate(obs["final"]):
        if r[0] in ("exc", "garbage"):
            return "c18:db-internal-error", "internal error in the final sequential lookup of %s: %r" % (_DB_USERS[u], r)

    def step(m, o):
        want, m2 = _db_model(desc, m, o["op"])
        return m2 if want == o["r"] else None

    def final_ok(m):
        for u, r in enumerate(obs["final"]):
            if r != (["entry", m[u]] if u in m else ["KeyError"]):
                return False
        if "final_keys" in obs and obs["final_keys"] != ["keys", sorted(_DB_USERS[u] for u in m)]:
            return False
        return True

    if find_linearization(hist, model, step, final_ok) is None:
        key = "c18:db-not-linearizable"
        if any(o["op"][0] == "keys" for h in hist for o in h):
            # would it be explained if keys() were allowed to return anything?  Then it is the
            # snapshot taken by keys() that is not atomic (same root cause as the RuntimeError)
            def step2(m, o):
                return m if o["op"][0] == "keys" else step(m, o)

            if find_linearization(hist, model, step2, final_ok) is not None:
                key = "c18:db-keys-iterates-dict-view-outside-lock"
        return (key, "not linearizable: no sequential order of the operations (program order and real time "
                "respected) run on a plain dict gives these results and this final content")
    return None


def _random_db_program(rng, mode, usertype, minimal, caps, three=None):
    kinds = [k for k in ("set", "set", "set", "get", "get", "in", "in", "del", "del", "keys", "keys", "check", "check",
                         "rget", "rin") if k in caps]
    nusers = rng.choice([1, 2, 2, 3])
    nent = len(_DB_USERS) * len(_DB_PASSWORDS)

    def op(kind):
        u = rng.randrange(nusers)
        if kind == "set":
            return ["set", u, rng.choice([u, u + len(_DB_USERS), rng.randrange(nent)])]
        if kind == "check":
            return ["check", u, rng.randrange(len(_DB_PASSWORDS))]
        if kind in ("keys", "rget", "rin"):
            return [kind]
        return [kind, u]

    prefill = [op(rng.choice(["set", "set", "del"])) for _ in range(rng.randrange(0, 3))]
    prefill = [p for p in prefill if p[0] in caps]
    nt = (3 if rng.random() < 0.3 else 2) if three is None else (3 if three else 2)
    threads = [[op(rng.choice(kinds)) for _ in range(rng.randint(1, 2 if nt == 3 else 3))]
               for _ in range(nt)]
    return db_program(mode, usertype, threads, prefill, minimal)


def _db_configs():
    """[(mode, usertype, minimal, caps, broken)]; falls back to a minimal BaseDB subclass in the
    configurations where VerifierDB cannot even store and fetch sequentially."""
    out = []
    for mode, usertype in (("racy", "str"), ("racy", "bytes"), ("disk", "bytes"), ("mem", "str"),
                           ("mem", "bytes")):
        caps, broken = _db_capabilities(mode, usertype, False)
        minimal = False
        if not {"set", "get"} <= caps:
            caps2, broken2 = _db_capabilities(mode, usertype, True)
            broken = dict(("VerifierDB." + k, v) for k, v in broken.items())
            broken.update(broken2)
            caps, minimal = caps2, True
        out.append((mode, usertype, minimal, caps, broken))
    return out


def _db_jobs(rng, tier, configs):
    jobs, late = [], []
    for mode, usertype, minimal, caps, _ in configs:
        if not {"set", "get"} <= caps:
            continue
        D = lambda threads, prefill=(): db_program(mode, usertype, threads, prefill, minimal)
        fixed = [D([[["set", 0, 0]], [["set", 1, 1]]]),
                 D([[["set", 0, 0], ["get", 1]], [["set", 1, 1], ["get", 0]]]),
                 D([[["set", 0, 3]], [["del", 0], ["get", 0]]], [["set", 0, 0]]),
                 D([[["set", 1, 1]], [["in", 0], ["get", 0]], [["set", 2, 2]]], [["set", 0, 0]])]
        if "check" in caps:
            fixed.append(D([[["set", 0, 3], ["check", 0, 1]], [["check", 0, 0], ["set", 1, 1]]], [["set", 0, 0]]))
        if "keys" in caps:
            fixed.append(D([[["set", 1, 1], ["keys"]], [["del", 0], ["keys"]]], [["set", 0, 0]]))
        if "rget" in caps and "rin" in caps:
            fixed.append(D([[["rget"], ["rin"]], [["set", 0, 0], ["rin"]]]))
        fixed = [d for d in fixed if all(o[0] in caps for th in d["threads"] for o in th)]
        disk = mode == "disk"
        if tier == "quick":
            cap, pre, nrand = (250 if disk else 300), 2, 3
            fixed = fixed[:3] + fixed[4:] if disk else fixed
        else:
            cap, pre, nrand = 1500, 3, 8
        jobs += [_job(d, "line", pre, cap) for d in fixed]
        jobs += [_rjob(_random_db_program(rng, mode, usertype, minimal, caps, three=(i % 3 == 2)),
                      "line", pre, cap) for i in range(nrand)]
        if mode == "racy" and tier != "quick":
            late += [_job(d, "opcode", 2, cap) for d in fixed[:3]]
    return [(d, c, rng.getrandbits(48)) for d, c in jobs + late]


def explore_db(rng, tier="quick", budget=None, max_failures=3, exclude_ops=()):
    """Explore VerifierDB (BaseDB) programs in memory (dict), in memory behind a non-atomic mapping
    (RacyDict) and on disk (dbm.dumb, traced); returns (failures, stats).  stats['configs'] lists per
    configuration the operation kinds used and the ones left out because they already deviate from a
    dict sequentially on this tree.  `exclude_ops` leaves further kinds out (e.g. ("keys",) once the
    known defect of BaseDB.keys -- it iterates the dict view after releasing the lock -- is recorded)."""
    stats = _new_stats()
    failures = []
    if budget is None:
        budget = 45 if tier == "quick" else 300
    try:
        configs = [(m, u, mini, caps - set(exclude_ops), broken) for m, u, mini, caps, broken in _db_configs()]
        stats["configs"] = [{"mode": m, "usertype": u, "class": "minimal BaseDB subclass" if mini else "VerifierDB",
                             "ops": sorted(caps), "sequentially_broken": broken}
                            for m, u, mini, caps, broken in configs]
        _drive("db", _db_jobs(rng, tier, configs), _db_factory, _db_targets, _check_db,
               _time.time() + budget, stats, failures, max_failures)
    finally:
        _db_rmdir()
    return failures, stats


def replay_db(fd):
    try:
        return _replay(fd, _db_factory, _db_targets, _check_db)
    finally:
        _db_rmdir()


# ----------------------------------------------------------------------------------------------
# stress: real threads, real locks
# ----------------------------------------------------------------------------------------------

@contextlib.contextmanager
def _fast_switching(interval=1e-6):
    old = sys.getswitchinterval()
    sys.setswitchinterval(interval)
    try:
        yield
    finally:
        sys.setswitchinterval(old)


class _CountingClock(object):
    """thread-safe stand-in for the time module: an integer that advances by one every `per` reads"""

    def __init__(self, base, per):
        self.c = itertools.count(base * per)
        self.per = per

    def time(self):
        return next(self.c) // self.per


def _stress(kind, seed, seconds, nthreads, body, final):
    """run body(thread index, rng, stop_time, errors) in nthreads real threads"""
    errors = []
    counts = [0] * nthreads
    stop = _time.time() + seconds

    def work(t):
        r = random.Random(seed * 1000003 + t)
        try:
            counts[t] = body(t, r, stop, errors)
        except Exception as e:
            errors.append("T%d harness/internal error %s: %s" % (t, type(e).__name__, e))

    with _fast_switching():
        ths = [threading.Thread(target=work, args=(t,), daemon=True) for t in range(nthreads)]
        for th in ths:
            th.start()
        for th in ths:
            th.join(seconds + 30)
        if any(th.is_alive() for th in ths):
            errors.append("HANG: a thread did not finish")
    if not errors:
        try:
            final(errors)
        except Exception as e:
            errors.append("final sequential check raised %s: %s" % (type(e).__name__, e))
    stats = {"ops": sum(counts), "threads": nthreads, "seconds": seconds, "seed": seed}
    failures = []
    if errors:
        failures.append({"kind": kind, "deterministic": False, "seed": seed, "seconds": seconds,
                         "threads": nthreads, "why": errors[0], "observed": errors[:10]})
    return failures, stats


def stress_cache(rng, seconds, seed=None, nthreads=4):
    """3-4 unscheduled threads hammer one SessionCache (real lock, switch interval 1e-6).  Checks: no
    exception but KeyError, every returned session was stored under that ID and is valid, size bound
    at the end, final sequential probes do not fail.  Not deterministic; replay = same seed again."""
    import tlslite.sessioncache as sc
    if seed is None:
        seed = rng.getrandbits(32)
    r0 = random.Random(seed)
    me = r0.choice([3, 4, 8, 16])
    ma = r0.choice([3, 20, 10 ** 9])
    n_ids = r0.choice([2, 4, 24])
    cache = sc.SessionCache(me, ma)

    def body(t, r, stop, errors):
        n = 0
        while _time.time() < stop and not errors:
            for _ in range(200):
                sid = r.randrange(n_ids)
                n += 1
                if r.random() < 0.5:
                    s = _Sess((t, n), r.random() < 0.9)
                    s.sid = sid
                    try:
                        cache[bytearray(_sid(sid))] = s
                    except Exception as e:
                        errors.append("set(%d) raised %s: %s" % (sid, type(e).__name__, e))
                        return n
                else:
                    try:
                        s = cache[bytearray(_sid(sid))]
                    except KeyError:
                        continue
                    except Exception as e:
                        errors.append("get(%d) raised %s: %s" % (sid, type(e).__name__, e))
                        return n
                    if not isinstance(s, _Sess) or s.sid != sid:
                        errors.append("get(%d) returned a session stored under %r" % (sid, getattr(s, "sid", s)))
                        return n
                    if not s.resumable:
                        errors.append("get(%d) returned a non-resumable session" % sid)
                        return n
        return n

    def final(errors):
        if len(cache.entriesDict) > me - 1:
            errors.append("size bound exceeded: %d > %d" % (len(cache.entriesDict), me - 1))
        for sid in range(n_ids):
            try:
                s = cache[bytearray(_sid(sid))]
                if s.sid != sid or not s.resumable:
                    errors.append("final get(%d) returned a wrong session" % sid)
            except KeyError:
                pass
        cache[bytearray(_sid(0))] = _Sess("final")
        if cache[bytearray(_sid(0))].n != "final":
            errors.append("final store/lookup does not return the stored session")

    with patched_clock(_CountingClock(1000, 50)):
        f, st = _stress("stress_cache", seed, seconds, nthreads, body, final)
    st.update({"maxEntries": me, "maxAge": ma, "n_ids": n_ids})
    return f, st


def stress_rsa(rng, seconds, seed=None, nthreads=4):
    """3-4 unscheduled threads call `_rawPrivateKeyOp` on one key (alternately fresh and warmed up);
    every result must be c^d mod n and the blinding pair must still match at the end."""
    import tlslite.utils.python_rsakey as pr
    if seed is None:
        seed = rng.getrandbits(32)
    key = pr.Python_RSAKey(_RSA_N, _RSA_E, 0, _RSA_P, _RSA_Q)
    if seed & 1:
        key._rawPrivateKeyOp(5)

    def body(t, r, stop, errors):
        n = 0
        while _time.time() < stop and not errors:
            for _ in range(20):
                c = r.randrange(2, _RSA_N)
                n += 1
                try:
                    m = key._rawPrivateKeyOp(c)
                except Exception as e:
                    errors.append("private-key operation raised %s: %s" % (type(e).__name__, e))
                    return n
                if m != pow(c, _RSA_D, _RSA_N):
                    errors.append("wrong result of operation %d of T%d (input %d)" % (n, t, c))
                    return n
        return n

    def final(errors):
        if key.blinder and (key.blinder * pow(key.unblinder, _RSA_E, _RSA_N)) % _RSA_N != 1:
            errors.append("blinding pair broken: blinder * unblinder^e != 1 mod n")
        if key._rawPrivateKeyOp(12345) != pow(12345, _RSA_D, _RSA_N):
            errors.append("wrong result of the final sequential operation")

    return _stress("stress_rsa", seed, seconds, nthreads, body, final)


def replay_stress(fd):
    """stress failures are not deterministic: run again with the same seed and duration"""
    fn = stress_cache if fd["kind"] == "stress_cache" else stress_rsa
    f, _ = fn(None, fd["seconds"], seed=fd["seed"], nthreads=fd.get("threads", 4))
    return bool(f)


# ----------------------------------------------------------------------------------------------
# speed measurement / command line
# ----------------------------------------------------------------------------------------------

def measure_speed(n=1000):
    """schedules per second of a typical 2-thread, 4-operation cache program (line granularity)"""
    d = cache_program(3, 100, [[0, 0]], [[["set", 0, 1], ["get", 0]], [["set", 1, 2], ["get", 0]]])
    targets = _cache_targets()
    t0 = _time.time()
    k = pts = 0
    for s, out in explore(_cache_factory(d), 2, targets, 2, n, random.Random(1)):
        k += 1
        pts += len(s)
    dt = _time.time() - t0
    return {"schedules": k, "seconds": round(dt, 3), "schedules_per_second": round(k / dt, 1),
            "points_per_schedule": round(pts / float(k), 1), "ms_per_schedule": round(1000 * dt / k, 3)}


def main(argv):
    import json
    tier = argv[1] if len(argv) > 1 else "quick"
    seed = int(argv[2]) if len(argv) > 2 else 1
    which = argv[3].split(",") if len(argv) > 3 else ["cache", "rsa", "db", "stress"]
    import tlslite
    print("tlslite from", tlslite.__file__)
    rc = 0
    for name in which:
        rng = random.Random("%s-%d" % (name, seed))
        if name == "stress":
            res = [stress_cache(rng, 2), stress_rsa(rng, 2)]
        elif name == "speed":
            print(json.dumps(measure_speed()))
            continue
        else:
            res = [{"cache": explore_cache, "rsa": explore_rsa, "db": explore_db}[name](rng, tier)]
        for failures, stats in res:
            print(name, "failures:", len(failures), json.dumps(stats))
            for f in failures:
                rc = 1
                print(json.dumps(f)[:3000])
    return rc


if __name__ == "__main__":
    sys.exit(main(sys.argv))
