"""C20 — negotiated cipher-suite semantics match the suite's registered meaning.

Theorems: lean/Props/C20.lean over the tables generated from tlslite/constants.py on every run
(model of the code = what the registered name denotes, for every negotiable suite x version x role;
version filter exact; classification lists partition; selectors honour excluded names).
Tie: exhaustive correspondence of every mirrored function with the real one over every identifier
the library knows (+ unknown ones) x versions x roles x settings, and live in-memory handshakes.
Oracle: an independent Python reading of the IANA naming convention (parse_iana below) against the
parameters the implementation really uses.
"""
import errno
import hashlib
import hmac as pyhmac
import os
import socket
import time

TRANSLATORS = ["suites", "kexchains"]

MANIFEST = {
    "text": "Proof: for every suite any get*Suites selector can return (table regenerated from constants.py on each run) and every "
            "version and role in which it can be negotiated, the Lean mirror of _getCipherSettings/_getMacSettings/cipher factories/"
            "PRF choice/key-exchange if-chains/filter_for_certificate/canonical names yields exactly the observables denoted by the "
            "suite's registered name as read by an independent parser written from the RFC naming convention "
            "(suite_semantics_match); filterForVersion admits a suite to exactly the versions that define it "
            "(never_below_min_version, negotiated_only_in_defining_version, version_filter_exact); each selectable suite is in exactly "
            "one cipher, MAC/AEAD, key-exchange, version and PRF class (lists_partition); selectors never return a suite whose name "
            "denotes an excluded MAC class, cipher or key exchange (selectors_respect_excluded_names). Tie: generated tables + "
            "exhaustive correspondence of every mirrored function with the real one + live loopback handshakes per suite and version "
            "observing key-exchange classes, handshake messages, certificate kind, installed key/IV/MAC lengths, record sizes and "
            "the accessor names; faulty-peer streams (ServerHello / ClientHello carrying a suite of the wrong era) against both roles, "
            "mirrored by client_rejects_out_of_version_suite; a second independent parser in Python is the direct oracle.",
    "note": "Trusted: Lean kernel (axioms propext, Classical.choice, Quot.sound), translator gen_suites.py, the correspondence "
            "harness, hashlib/hmac. 'Defined in a version' is read as: SHA-1/MD5-MAC CBC/stream suites from SSLv3, SHA-2-MAC and AEAD "
            "suites TLS 1.2 only, TLS_AES_*/TLS_CHACHA20_* TLS 1.3 only (RFC 4492/5054 suites in SSLv3 are not flagged). "
            "AEAD suites: Session.getMacName() is expected to be None. The connection's getCipherName() reports the primitive "
            "(chacha20-poly1305 for the draft-00 construction, None for NULL ciphers).",
    "technique": "Lean 4 kernel-decided theorems over generated tables (model = independent specification); exhaustive differential "
                 "correspondence; live handshake lab; independent spec oracle",
}

VERSIONS = [(3, 0), (3, 1), (3, 2), (3, 3), (3, 4)]
ROLES = ["client", "server"]
KNOWN_KEY = "c20:aead-suite-in-sha384Suites:0x%04x"


# ----------------------------------------------------------------------------------------------
# independent specification (Python): what a registered name denotes
# ----------------------------------------------------------------------------------------------

HASH_LEN = {"md5": 16, "sha1": 20, "sha256": 32, "sha384": 48}


def parse_iana(name):
    """dict(kex, auth, cipher, keyLen, mode, mac, tagLen, prf12, minMinor, tls13) or None.
    Written from the naming convention of RFC 5246 A.5, 4492, 5054, 5288, 5289, 6655, 7251, 7905, 8446 B.4."""
    if not name.startswith("TLS_"):
        return None
    body = name[4:]
    if "_WITH_" in body:
        kx, _, ciph = body.partition("_WITH_")
        kxmap = {"RSA": ("rsa", "rsa"), "DH_DSS": ("dh", "dss"), "DH_RSA": ("dh", "rsa"), "DHE_DSS": ("ffdhe", "dss"),
                 "DHE_RSA": ("ffdhe", "rsa"), "DH_ANON": ("ffdhe", "anon"), "DH_anon": ("ffdhe", "anon"),
                 "ECDH_ECDSA": ("ecdh", "ecdsa"), "ECDH_RSA": ("ecdh", "rsa"), "ECDHE_ECDSA": ("ecdhe", "ecdsa"),
                 "ECDHE_RSA": ("ecdhe", "rsa"), "ECDH_ANON": ("ecdhe", "anon"), "ECDH_anon": ("ecdhe", "anon"),
                 "SRP_SHA": ("srp", "srp"), "SRP_SHA_RSA": ("srp", "rsa"), "SRP_SHA_DSS": ("srp", "dss")}
        if kx not in kxmap:
            return None
        kex, auth = kxmap[kx]
        tls13 = False
    else:
        kex, auth, ciph, tls13 = "tls13", "any", body, True
    hashes = {"MD5": "md5", "SHA": "sha1", "SHA256": "sha256", "SHA384": "sha384"}
    sem = dict(kex=kex, auth=auth, tls13=tls13)
    # AEAD forms first
    aead = None
    for prefix, ciphn, klen, mode, tag in (
            ("AES_128_GCM", "aes", 16, "gcm", 16), ("AES_256_GCM", "aes", 32, "gcm", 16),
            ("AES_128_CCM_8", "aes", 16, "ccm8", 8), ("AES_256_CCM_8", "aes", 32, "ccm8", 8),
            ("AES_128_CCM", "aes", 16, "ccm", 16), ("AES_256_CCM", "aes", 32, "ccm", 16),
            ("CHACHA20_POLY1305_draft_00", "chacha20", 32, "poly1305draft", 16),
            ("CHACHA20_POLY1305", "chacha20", 32, "poly1305", 16)):
        if ciph == prefix or ciph.startswith(prefix + "_"):
            aead = (prefix, ciphn, klen, mode, tag)
            break
    if aead:
        prefix, ciphn, klen, mode, tag = aead
        rest = ciph[len(prefix):]
        if rest.startswith("_"):
            rest = rest[1:]
            if rest == "":
                return None
        if rest == "":
            # only the CCM suites of RFC 6655/7251 (SHA-256 PRF) and the private draft-00 name lack a hash
            if tls13 or mode not in ("ccm", "ccm8", "poly1305draft"):
                return None
            prf = "sha256"
        elif rest in ("SHA256", "SHA384"):
            if mode == "poly1305draft" or (not tls13 and mode in ("ccm", "ccm8")):
                return None
            prf = hashes[rest]
        else:
            return None
        sem.update(cipher=ciphn, keyLen=klen, mode=mode, mac=None, tagLen=tag, prf12=prf,
                   minMinor=4 if tls13 else 3)
        return sem
    if tls13:
        return None
    for prefix, ciphn, klen, mode in (("NULL", "null", 0, "stream"), ("RC4_128", "rc4", 16, "stream"),
                                      ("3DES_EDE_CBC", "3des", 24, "cbc"), ("AES_128_CBC", "aes", 16, "cbc"),
                                      ("AES_256_CBC", "aes", 32, "cbc")):
        if ciph.startswith(prefix + "_"):
            h = ciph[len(prefix) + 1:]
            if h not in hashes:
                return None
            mac = hashes[h]
            sem.update(cipher=ciphn, keyLen=klen, mode=mode, mac=mac, tagLen=0,
                       prf12="sha384" if mac == "sha384" else "sha256",
                       minMinor=3 if mac in ("sha256", "sha384") else 0)
            return sem
    return None


def sem_render(sem):
    if sem is None:
        return "None"
    return ("kex=%s auth=%s cipher=%s keyLen=%d mode=%s mac=%s tagLen=%d prf12=%s minMinor=%d tls13=%d"
            % (sem["kex"], sem["auth"], sem["cipher"], sem["keyLen"], sem["mode"], sem["mac"], sem["tagLen"],
               sem["prf12"], sem["minMinor"], 1 if sem["tls13"] else 0))


def defined_in(sem, v):
    if v[0] != 3:
        return False
    return v[1] == 4 if sem["tls13"] else sem["minMinor"] <= v[1] <= 3


CIPHER_NAME = {("null", "stream", 0): "null", ("rc4", "stream", 16): "rc4", ("3des", "cbc", 24): "3des",
               ("aes", "cbc", 16): "aes128", ("aes", "cbc", 32): "aes256", ("aes", "gcm", 16): "aes128gcm",
               ("aes", "gcm", 32): "aes256gcm", ("aes", "ccm", 16): "aes128ccm", ("aes", "ccm", 32): "aes256ccm",
               ("aes", "ccm8", 16): "aes128ccm_8", ("aes", "ccm8", 32): "aes256ccm_8",
               ("chacha20", "poly1305", 32): "chacha20-poly1305",
               ("chacha20", "poly1305draft", 32): "chacha20-poly1305_draft00"}
KEX_NAME = {("rsa", "rsa"): "rsa", ("ffdhe", "rsa"): "dhe_rsa", ("ffdhe", "dss"): "dhe_dsa", ("ffdhe", "anon"): "dh_anon",
            ("ecdhe", "rsa"): "ecdhe_rsa", ("ecdhe", "ecdsa"): "ecdhe_ecdsa", ("ecdhe", "anon"): "ecdh_anon",
            ("srp", "srp"): "srp_sha", ("srp", "rsa"): "srp_sha_rsa"}
MAC_NAME = {"md5": "md5", "sha1": "sha", "sha256": "sha256", "sha384": "sha384", None: None}


def spec_obs(sem, v):
    """expected observables (dict) of a suite with meaning `sem` in version v; None if the suite uses
    a key exchange this library does not implement (static DH/ECDH)"""
    if sem is None or sem["kex"] in ("dh", "ecdh"):
        return None
    cname = CIPHER_NAME.get((sem["cipher"], sem["mode"], sem["keyLen"]))
    if cname is None:
        return None
    tls13 = v >= (3, 4)
    if tls13:
        iv = 12
    else:
        iv = {"stream": 0, "gcm": 4, "ccm": 4, "ccm8": 4, "poly1305": 12, "poly1305draft": 4}.get(sem["mode"])
        if sem["mode"] == "cbc":
            iv = 8 if sem["cipher"] == "3des" else 16
    if v == (3, 0):
        prf = "ssl3"
    elif v in ((3, 1), (3, 2)):
        prf = "md5sha1"
    else:
        prf = sem["prf12"]
    a, k = sem["auth"], sem["kex"]
    if a == "any":
        kinds = ["rsa", "rsa-pss", "ecdsa", "dsa", "none"]
    elif a == "rsa":
        kinds = ["rsa"] if k == "rsa" else ["rsa", "rsa-pss"]
    elif a == "ecdsa":
        kinds = ["ecdsa"]
    elif a == "dss":
        kinds = ["dsa"]
    else:
        kinds = ["none"]
    if sem["cipher"] == "null":
        conn = None
    elif sem["cipher"] == "chacha20":
        conn = "chacha20-poly1305"
    else:
        conn = cname
    return dict(kex=k, certified=a in ("rsa", "dss", "ecdsa", "any"), ske=k not in ("rsa", "tls13"),
                certKinds=kinds, cipher=sem["cipher"], keyLen=sem["keyLen"], mode=sem["mode"], ivLen=iv,
                mac=sem["mac"], macLen=HASH_LEN.get(sem["mac"], 0), tagLen=sem["tagLen"], prf=prf,
                prfKeyUpdate=sem["prf12"] if tls13 else None,
                sessCipher=cname, sessMac=MAC_NAME[sem["mac"]], connCipher=conn)


OBS_FIELDS = ["kex", "certified", "ske", "certKinds", "cipher", "keyLen", "mode", "ivLen", "mac", "macLen", "tagLen",
              "prf", "prfKeyUpdate", "sessCipher", "sessMac", "connCipher"]


def obs_render(o):
    if o is None:
        return "None"
    out = []
    for f in OBS_FIELDS:
        x = o[f]
        if isinstance(x, bool):
            x = 1 if x else 0
        elif isinstance(x, list):
            x = ",".join(x)
        out.append("%s=%s" % (f, x))
    return " ".join(out)


def obs_parse(line):
    if line in ("None", "bad-op"):
        return None
    d = {}
    for tok in line.split(" "):
        k, _, v = tok.partition("=")
        d[k] = v
    return d


# ----------------------------------------------------------------------------------------------
# the implementation's actual parameters
# ----------------------------------------------------------------------------------------------

def exc_name(e):
    return type(e).__name__


class FullSettings(object):
    """only the attributes _filterSuites reads"""

    def __init__(self, mac, ciph, kex, maxVersion=(3, 4)):
        self.macNames = list(mac)
        self.cipherNames = list(ciph)
        self.keyExchangeNames = list(kex)
        self.maxVersion = maxVersion


def vocab():
    from tlslite import handshakesettings as hs
    return list(hs.ALL_MAC_NAMES), list(hs.ALL_CIPHER_NAMES), list(hs.KEY_EXCHANGE_NAMES)


def getters():
    from tlslite.constants import CipherSuite as C
    return [a for a in sorted(dir(C)) if a.startswith("get") and a.endswith("Suites") and callable(getattr(C, a))]


def all_ids():
    from tlslite.constants import CipherSuite as C
    ids = set(C.ietfNames)
    for a, v in vars(C).items():
        if isinstance(v, list) and all(isinstance(x, int) for x in v):
            ids.update(v)
    return sorted(ids)


def impl_negotiable(role, v):
    """suites the implementation can negotiate in version v (all-enabling settings), mirroring how
    the two roles call the selectors"""
    from tlslite.constants import CipherSuite as C
    mac, ciph, kex = vocab()
    st = FullSettings(mac, ciph, kex)
    res = []
    mvs = [v] if role == "server" else [mv for mv in VERSIONS if mv >= v]
    for mv in mvs:
        for g in getters():
            res += getattr(C, g)(st, mv)
    out = C.filterForVersion(res, v, v)
    return sorted(set(out))


def ref_prf_outputs(secret, label, seed, n):
    """independent reference PRFs (RFC 2246 §5, RFC 5246 §5, SSLv3 6.2.2) -> {kind: bytes}"""
    def p_hash(h, sec, sd, length):
        out, a = b"", sd
        while len(out) < length:
            a = pyhmac.new(sec, a, h).digest()
            out += pyhmac.new(sec, a + sd, h).digest()
        return out[:length]
    half = (len(secret) + 1) // 2
    s1, s2 = secret[:half], secret[len(secret) - half:]
    md5p = p_hash(hashlib.md5, s1, label + seed, n)
    shap = p_hash(hashlib.sha1, s2, label + seed, n)
    tls10 = bytes(x ^ y for x, y in zip(md5p, shap))
    out, i = b"", 0
    while len(out) < n:
        salt = bytes([ord("A") + i]) * (i + 1)
        out += hashlib.md5(secret + hashlib.sha1(salt + secret + seed).digest()).digest()
        i += 1
    return {"md5sha1": tls10, "sha256": p_hash(hashlib.sha256, secret, label + seed, n),
            "sha384": p_hash(hashlib.sha384, secret, label + seed, n), "ssl3": out[:n]}


def impl_prf_kind(v, s):
    """which PRF calc_key really applies for suite s in version v (TLS <= 1.2), found by comparing its
    output with the reference PRFs; for TLS 1.3 the HKDF hash name from _getPRFParams"""
    from tlslite.mathtls import calc_key
    from tlslite.tlsconnection import TLSConnection
    if v >= (3, 4):
        name, size = TLSConnection._getPRFParams(s)
        if HASH_LEN.get(name) != size:
            return "inconsistent:%s/%d" % (name, size)
        return name
    secret = bytes(range(48))
    cr, sr = bytes(range(32)), bytes(range(32, 64))
    try:
        out = bytes(calc_key(v, bytearray(secret), s, b"key expansion", client_random=bytearray(cr),
                             server_random=bytearray(sr), output_length=40))
    except Exception as e:
        return exc_name(e)
    refs = ref_prf_outputs(secret, b"key expansion", sr + cr, 40)
    hit = [k for k, val in sorted(refs.items()) if val == out]
    return hit[0] if len(hit) == 1 else "unknown"


def hkdf_expand_label(hname, secret, label, context, length):
    """RFC 8446 §7.1 / RFC 5869 HKDF-Expand, from hashlib/hmac only"""
    lab = b"tls13 " + label
    info = bytes([length >> 8, length & 0xff, len(lab)]) + lab + bytes([len(context)]) + context
    h = getattr(hashlib, hname)
    out, t, i = b"", b"", 1
    while len(out) < length:
        t = pyhmac.new(bytes(secret), t + info + bytes([i]), h).digest()
        out += t
        i += 1
    return out[:length]


def impl_ku_kind(s):
    """'<hash> <secret length>' that RecordLayer._calcTLS1_3KeyUpdate really uses for suite s, found by
    comparing the secret it returns with reference HKDF-Expand-Label outputs; None if it raises"""
    from tlslite.recordlayer import RecordLayer
    sec = bytes(range(100, 148))
    try:
        new, _state = RecordLayer(None)._calcTLS1_3KeyUpdate(s, bytearray(sec))
    except Exception:
        return None
    new = bytes(new)
    for h in ("sha256", "sha384"):
        for ln in (32, 48):
            if new == hkdf_expand_label(h, sec, b"traffic upd", b"", ln):
                return "%s %d" % (h, ln)
    return "unknown %d" % len(new)


FACTORY_ARGS = {"createAESGCM": 1, "createAESCCM": 1, "createAESCCM_8": 1, "createCHACHA20": 1, "createAES": 2,
                "createRC4": 2, "createTripleDES": 2}


def build_obj(fname, klen, ivlen=None):
    """(name, isAEAD, isBlock, blockSize, tagLength) of the object the factory builds, or exception name"""
    from tlslite.utils import cipherfactory
    f = getattr(cipherfactory, fname)
    try:
        if FACTORY_ARGS[fname] == 1:
            o = f(bytearray(klen), ["python"])
        else:
            o = f(bytearray(klen), bytearray(ivlen if ivlen is not None else {"createAES": 16, "createRC4": 0,
                                                                            "createTripleDES": 8}[fname]), ["python"])
    except Exception as e:
        return exc_name(e)
    return (o.name, bool(o.isAEAD), bool(o.isBlockCipher), getattr(o, "block_size", 0) if o.isBlockCipher else 0,
            getattr(o, "tagLength", 0) if o.isAEAD else 0)


class CertStub(object):
    def __init__(self, alg):
        class X(object):
            certAlg = alg
        self.x509List = [X()]


CERT_ALGS = ["rsa", "rsa-pss", "ecdsa", "Ed25519", "Ed448", "dsa", None]
KIND_ALGS = [("rsa", "rsa"), ("rsa-pss", "rsa-pss"), ("ecdsa", "ecdsa"), ("dsa", "dsa"), ("none", None)]


def impl_static(s):
    """version-independent parameters of suite s taken from the real code; raises nothing"""
    from tlslite.recordlayer import RecordLayer
    from tlslite.constants import CipherSuite as C
    d = {}
    try:
        kl, il, f = RecordLayer._getCipherSettings(s)
        d["cs"] = (kl, il, f.__name__ if f is not None else None)
    except Exception as e:
        d["cs"] = exc_name(e)
    try:
        ml, dm = RecordLayer._getMacSettings(s)
        if dm is None:
            d["ms"] = (ml, None)
        else:
            h = dm()
            d["ms"] = (ml, h.name)
    except Exception as e:
        d["ms"] = exc_name(e)
    d["ccn"] = C.canonicalCipherName(s)
    d["cmn"] = C.canonicalMacName(s)
    d["certKinds"] = [k for k, alg in KIND_ALGS
                      if s in C.filter_for_certificate([s], CertStub(alg) if alg else None)]
    return d


MODE_OF_NAME = {"aes128gcm": ("aes", "gcm"), "aes256gcm": ("aes", "gcm"), "aes128ccm": ("aes", "ccm"),
                "aes256ccm": ("aes", "ccm"), "aes128ccm_8": ("aes", "ccm8"), "aes256ccm_8": ("aes", "ccm8"),
                "aes128": ("aes", "cbc"), "aes192": ("aes", "cbc"), "aes256": ("aes", "cbc"), "3des": ("3des", "cbc"),
                "rc4": ("rc4", "stream")}


def impl_obs(s, v, st=None, kexinfo=None):
    """observables of suite s in version v as the real code determines them (kex part from a live
    handshake when given, else '?'); None if the code would assert"""
    st = st or impl_static(s)
    if isinstance(st["cs"], str) or isinstance(st["ms"], str):
        return None
    kl, il, fname = st["cs"]
    ml, dig = st["ms"]
    if fname is None:
        obj, ciph, mode, conn = None, "null", "stream", None
    else:
        obj = build_obj(fname, kl)
        if isinstance(obj, str):
            return None
        conn = obj[0]
        if conn == "chacha20-poly1305":
            ciph, mode = "chacha20", {12: "poly1305", 4: "poly1305draft"}.get(il, "?")
        else:
            ciph, mode = MODE_OF_NAME.get(conn, ("?", "?"))
    aead = bool(obj and obj[1])
    if aead != (dig is None):
        return None
    o = dict(kex="?", certified="?", ske="?")
    if kexinfo:
        o.update(kexinfo)
    kinds = st["certKinds"]
    if o.get("certified") is False:
        # no Certificate is sent: only "admitted without a chain" matters; a chain the server also holds
        # is not used on the wire (e.g. SRP_SHA suites on a server that has verifierDB and a certificate)
        kinds = [k for k in kinds if k == "none"]
    o.update(certKinds=kinds, cipher=ciph, keyLen=kl, mode=mode, ivLen=12 if v >= (3, 4) else il,
             mac=dig, macLen=ml, tagLen=obj[4] if obj else 0, prf=impl_prf_kind(v, s),
             prfKeyUpdate=(impl_ku_kind(s) or "?").split(" ")[0] if v >= (3, 4) else None,
             sessCipher=st["ccn"], sessMac=st["cmn"], connCipher=conn)
    return o


# ----------------------------------------------------------------------------------------------
# the key-exchange if-chains of tlsconnection.py, read from the AST (translate/gen_kexchains.py)
# ----------------------------------------------------------------------------------------------

KEX_FAMILY = {"RSAKeyExchange": "rsa", "DHE_RSAKeyExchange": "ffdhe", "ADHKeyExchange": "ffdhe",
              "ECDHE_RSAKeyExchange": "ecdhe", "AECDHKeyExchange": "ecdhe", "SRPKeyExchange": "srp"}
_CHAINS = {}


def chains():
    """(extracted data, {list name: members}) for the tree under check"""
    from ..core import REPO
    if REPO not in _CHAINS:
        from translate import gen_kexchains
        from tlslite.constants import CipherSuite as C
        lists = {a: list(v) for a, v in vars(C).items() if isinstance(v, list) and all(isinstance(x, int) for x in v)}
        _CHAINS[REPO] = (gen_kexchains.extract(REPO), lists)
    return _CHAINS[REPO]


def b01(x):
    return "None" if x is None else ("1" if x else "0")


def chain_eval(s):
    """what the chains, as written in the source, do with suite s:
    client: (class|None, expectsCertificate, expectsSKE, checksChain); server: (helper, class, sendsCert)|'AssertionError'|'unknown', recordsChain"""
    from translate import gen_kexchains as g
    data, lists = chains()
    st, leaf = g.eval_tree(data["clientKexChain"], s, lists)
    client = (leaf if st == "ok" else None, g.eval_cond(data["clientExpectsCertificateCond"], s, lists),
              g.eval_cond(data["clientExpectsSKECond"], s, lists), g.eval_cond(data["clientChecksChainCond"], s, lists))
    st, leaf = g.eval_tree(data["serverKexChain"], s, lists)
    if st != "ok":
        server = "unknown"
    elif leaf is None:
        server = "AssertionError"
    else:
        short = g.SERVER_PATHS.get(leaf[0])
        server = (leaf[0], leaf[1], g.eval_cond(data["serverPathSendsCert"].get(short, ("unknown", "")), s, lists))
    return client, server, g.eval_cond(data["serverRecordsChainCond"], s, lists)


def chain_kexinfo(role, s, v):
    """kex / certified / ske part of the implementation's observables, from the source's chains"""
    if v >= (3, 4):
        return dict(kex="tls13", certified=True, ske=False)
    client, server, recorded = chain_eval(s)
    if role == "client":
        cls, cert, ske, chk = client
        if cls is None or cert is None or ske is None or chk != cert:
            return None
        return dict(kex=KEX_FAMILY.get(cls, "?" + str(cls)), certified=cert, ske=ske)
    if not isinstance(server, tuple) or server[2] is None or recorded != server[2]:
        return None
    fam = KEX_FAMILY.get(server[1], "?" + str(server[1]))
    return dict(kex=fam, certified=server[2], ske=fam != "rsa")


def chain_part(ctx, neg, B):
    """generated chains: Lean evaluation vs an independent Python evaluation of the same AST extraction
    (tie), and the chains against what each negotiable suite's name denotes (oracle, per suite)"""
    from tlslite.constants import CipherSuite as C
    names = dict(C.ietfNames)
    data, lists = chains()
    B.add("chainproblems", "-", "kex-chain-translator", {"problems": data["problems"]})
    for s in all_ids() + [0, 3, 0x1306, 0xffff]:
        client, server, recorded = chain_eval(s)
        B.add("ckex %d" % s, "%s %s %s %s" % (client[0], b01(client[1]), b01(client[2]), b01(client[3])),
              "generated-client-kex-chain", {"suite": s})
        if isinstance(server, tuple):
            exp = "%s %s %s %s" % (server[0], server[1], b01(server[2]), b01(recorded))
        else:
            exp = "%s %s" % (server, b01(recorded))
        B.add("skex %d" % s, exp, "generated-server-kex-chain", {"suite": s})
        ctx.case(key=("chain", s), sample=None)
    B.flush()
    bad = {"client": [], "server": []}
    suites = sorted(set(x for (role, v), ss in neg.items() if v <= (3, 3) for x in ss))
    for s in suites:
        sem = parse_iana(names.get(s, ""))
        want = spec_obs(sem, (3, 3)) if sem else None
        if want is None:
            continue
        for role in ROLES:
            got = chain_kexinfo(role, s, (3, 3))
            ctx.case(key=("chain-oracle", role, s), sample={"suite": s, "name": names[s], "role": role, "chain": got}
                     if s in (0x0034, 0xc01e) else None)
            exp = {k: want[k] for k in ("kex", "certified", "ske")}
            if got != exp:
                bad[role].append((s, got, exp))
    for role in ROLES:
        if bad[role]:
            s, got, exp = bad[role][0]
            ctx.violation("c20:kex-chain:" + role,
                          "(%d suites, first:) the %s's key-exchange if-chain in tlsconnection.py gives %s for negotiable suite "
                          "0x%04x %s; its registered name denotes %s" % (len(bad[role]), role, got, s, names[s], exp),
                          {"stage": "kex-chain", "parameter": "kex-chain", "role": role, "suite": s, "name": names[s],
                           "chain": got, "denoted_by_name": exp, "all_suites": [x[0] for x in bad[role]]})


# ----------------------------------------------------------------------------------------------
# run
# ----------------------------------------------------------------------------------------------

def nl(xs):
    xs = list(xs)
    return ",".join(str(x) for x in xs) if xs else "-"


def names_arg(xs):
    return ",".join(xs) if xs else "-"


class Batch(object):
    """collect (line, expected, stream, case) and compare in one driver process"""

    def __init__(self, ctx):
        self.ctx = ctx
        self.items = []

    def add(self, line, expected, stream, case):
        self.items.append((line, expected, stream, case))

    def flush(self):
        lc = self.ctx.lean()
        if lc is None or not self.items:
            self.items = []
            return
        out = lc.batch([i[0] for i in self.items])
        for (line, exp, stream, case), got in zip(self.items, out):
            self.ctx.compared()
            if got != exp:
                self.ctx.disagree(stream, dict(case, request=line), got, exp)
        self.items = []


def fmt_cs(x):
    return x if isinstance(x, str) else "%d %d %s" % x


def fmt_ms(x):
    return x if isinstance(x, str) else "%d %s" % x


def report(ctx, s, v, role, field, impl, want, name, extra=None):
    """the implementation's parameter `field` for negotiable suite s differs from what its name denotes"""
    key = "c20:%s:0x%04x" % (field, s)
    if field == "sessMac" and want is None and impl is not None:
        key = KNOWN_KEY % s
    rep = {"stage": "oracle", "suite": s, "name": name, "version": list(v), "role": role, "parameter": field,
           "implementation": impl, "denoted_by_name": want}
    if extra:
        rep.update(extra)
    ctx.violation(key, "suite 0x%04x %s, %s in %s: %s is %r, the registered name denotes %r"
                  % (s, name, role, "%d.%d" % v, field, impl, want), rep)


def static_part(ctx):
    from tlslite.constants import CipherSuite as C
    from tlslite.recordlayer import RecordLayer
    from tlslite.tlsconnection import TLSConnection
    from tlslite.messages import ServerKeyExchange
    ids = all_ids()
    unknown = [0, 3, 0x0006, 0x00a8, 0x1306, 0xc033, 0xffff, 0x123456]
    B = Batch(ctx)
    names = dict(C.ietfNames)

    # --- tables: names
    B.add("namecodes", "ok", "ietfNames-vs-codes", {})
    for s in ids + unknown:
        B.add("name %d" % s, names.get(s, "None"), "ietfNames", {"suite": s})

    # --- per suite functions
    statics = {}
    for s in ids + unknown:
        st = impl_static(s)
        statics[s] = st
        case = {"suite": s, "name": names.get(s)}
        B.add("cs %d" % s, fmt_cs(st["cs"]), "_getCipherSettings", case)
        B.add("ms %d" % s, fmt_ms(st["ms"]), "_getMacSettings", case)
        B.add("ccn %d" % s, str(st["ccn"]), "canonicalCipherName", case)
        B.add("cmn %d" % s, str(st["cmn"]), "canonicalMacName", case)
        pn, ps = TLSConnection._getPRFParams(s)
        B.add("prf %d" % s, "%s %d" % (pn, ps), "_getPRFParams", case)
        ku = impl_ku_kind(s)
        if ku is not None:
            B.add("kuprf %d" % s, ku, "_calcTLS1_3KeyUpdate-hash", case)
        for v in VERSIONS[:4]:
            k = impl_prf_kind(v, s)
            fn = {"ssl3": "PRF_SSL", "md5sha1": "PRF", "sha256": "PRF_1_2", "sha384": "PRF_1_2_SHA384"}.get(k, k)
            B.add("calcprf %d %d %d" % (v[0], v[1], s), fn, "calc_key-prf", dict(case, version=list(v)))
        # ServerKeyExchange: which parameter block is written, and whether a signature follows
        kind, signed = ske_shape(s, (3, 1))
        B.add("ske %d" % s, "%s %d" % (kind, 1 if signed else 0), "ServerKeyExchange-shape", case)
        ctx.case(key=("static", s), sample=dict(case, **{k: st[k] for k in ("cs", "ms", "ccn", "cmn")})
                 if s in (0x002f, 0xc0ae, 0x1303) else None)
        ctx.count("suite-known" if s in names else "suite-unknown")
    # --- cipher factories: every factory x plausible key lengths
    for f in sorted(FACTORY_ARGS):
        for kl in (0, 8, 15, 16, 17, 24, 32, 33, 64):
            o = build_obj(f, kl)
            exp = o if isinstance(o, str) else "%s %d %d %d %d" % (o[0], o[1], o[2], o[3], o[4])
            # only the outcomes the record layer can reach are mirrored precisely: key lengths it passes
            reach = {"createAESGCM": (16, 32), "createAESCCM": (16, 32), "createAESCCM_8": (16, 32),
                     "createCHACHA20": (0, 8, 15, 16, 17, 24, 32, 33, 64), "createAES": (16, 24, 32),
                     "createRC4": (16, 24, 32), "createTripleDES": (24,)}[f]
            if kl in reach:
                if isinstance(o, str):
                    exp = o if o in ("AssertionError", "ValueError") else "error"
                B.add("obj %s %d" % (f, kl), exp, "cipherfactory", {"factory": f, "keyLength": kl})
                ctx.case(key=("obj", f, kl), sample=None)
    B.flush()

    # --- filterForVersion: every id x every (min,max), singly and as one list
    allv = VERSIONS + [(2, 0), (3, 5)]
    for mn in allv:
        for mx in allv:
            real = C.filterForVersion(ids + unknown, mn, mx)
            B.add("ffv %d %d %d %d %s" % (mn[0], mn[1], mx[0], mx[1], nl(ids + unknown)), nl(real), "filterForVersion",
                  {"min": list(mn), "max": list(mx)})
            ctx.case(key=("ffv", mn, mx), sample=None)
    # --- filter_for_certificate
    for alg in CERT_ALGS:
        real = C.filter_for_certificate(ids + unknown, CertStub(alg) if alg else None)
        B.add("ffc %s %s" % (alg, nl(ids + unknown)), nl(real), "filter_for_certificate", {"certAlg": alg})
        ctx.case(key=("ffc", alg), sample=None)
    # --- _filterSuites / selectors: all-enabled, each single name removed, each single name alone
    #     (per class), the defaults, and seeded random subsets
    mac, ciph, kex = vocab()
    from tlslite import handshakesettings as hs
    configs = [(mac, ciph, kex), (list(hs.MAC_NAMES), list(hs.CIPHER_NAMES), kex), ([], ciph, kex), (mac, [], kex),
               (mac, ciph, []), (mac + ["bogus"], ciph + ["aes192"], kex + ["psk"])]
    for i in range(len(mac)):
        configs.append((mac[:i] + mac[i + 1:], ciph, kex))
        configs.append(([mac[i]], ciph, kex))
    for i in range(len(ciph)):
        configs.append((mac, ciph[:i] + ciph[i + 1:], kex))
        configs.append((mac, [ciph[i]], kex))
    for i in range(len(kex)):
        configs.append((mac, ciph, kex[:i] + kex[i + 1:]))
        configs.append((mac, ciph, [kex[i]]))
    rng = ctx.rng
    for _ in range(ctx.pick(40, 400)):
        configs.append(([x for x in mac if rng.random() < 0.6], [x for x in ciph if rng.random() < 0.6],
                        [x for x in kex if rng.random() < 0.6]))
    gs = getters()
    for (m, c, k) in configs:
        for v in VERSIONS:
            st = FullSettings(m, c, k)
            for g in gs:
                real = getattr(C, g)(st, v)
                B.add("get %s %d %d %s %s %s" % (g, v[0], v[1], names_arg(m), names_arg(c), names_arg(k)), nl(real),
                      "get*Suites", {"getter": g, "version": list(v), "mac": m, "cipher": c, "kex": k})
            real = C._filterSuites(ids + unknown, st, v)
            B.add("fsl %d %d %s %s %s %s" % (v[0], v[1], names_arg(m), names_arg(c), names_arg(k), nl(ids + unknown)),
                  nl(real), "_filterSuites", {"version": list(v), "mac": m, "cipher": c, "kex": k})
            ctx.case(key=("fs", tuple(m), tuple(c), tuple(k), v), sample=None)
        # version=None means settings.maxVersion
        st = FullSettings(m, c, k, maxVersion=(3, 3))
        real = C.getCertSuites(st)
        B.add("get getCertSuites 3 3 %s %s %s" % (names_arg(m), names_arg(c), names_arg(k)), nl(real),
              "get*Suites-default-version", {"mac": m, "cipher": c, "kex": k})
    ctx.count("settings-configs", len(configs))
    B.flush()

    mac0, ciph0, kex0 = vocab()
    # --- negotiable sets, observables: model vs implementation vs the two specifications
    neg = {}
    for role in ROLES:
        for v in VERSIONS:
            neg[(role, v)] = impl_negotiable(role, v)
            B.add("neg %s %d %d" % (role, v[0], v[1]), nl(neg[(role, v)]), "negotiable-set",
                  {"role": role, "version": list(v)})
    B.flush()
    chain_part(ctx, neg, B)
    # two specifications agree on every name (and on damaged names)
    probe_names = sorted(set(names.values()))
    extra = []
    for n in probe_names:
        if n.startswith("TLS_") and "SCSV" not in n:
            extra += [n + "_SHA256", n.replace("_WITH_", "_"), n.replace("AES_128", "AES_192"), n.replace("_SHA", "_MD5", 1),
                      n.replace("CCM", "CCM_8"), n.replace("GCM", "CBC"), n.replace("CBC", "GCM"), n[:-1], n.replace("TLS_", "SSL_", 1),
                      n.replace("DHE_", "DH_"), n.replace("ECDHE_", "ECDH_"), n.replace("_RSA_", "_PSK_"), n.replace("256", "128")]
    for n in probe_names + sorted(set(extra)):
        if " " in n or not n:
            continue
        B.add("parse %s" % n, sem_render(parse_iana(n)), "parseIana-vs-python-spec", {"name": n})
        ctx.case(key=("parse", n), sample=None)
    for s in ids:
        B.add("sem %d" % s, sem_render(parse_iana(names[s])) if s in names else "None", "semOf-vs-python-spec", {"suite": s})
    B.flush()

    lc = ctx.lean()
    triples = [(s, v, role) for role in ROLES for v in VERSIONS for s in neg[(role, v)]]
    ctx.extra["negotiable_triples"] = len(triples)
    ctx.extra["negotiable_suites"] = len(set(t[0] for t in triples))
    model_lines = lc.batch(["obs %d %d %d %s" % (s, v[0], v[1], role) for s, v, role in triples]) if lc else None
    spec_lines = lc.batch(["spec %d %d %d" % (s, v[0], v[1]) for s, v, role in triples]) if lc else None
    prf_cache = {}
    for i, (s, v, role) in enumerate(triples):
        name = names.get(s)
        sem = parse_iana(name) if name else None
        want = spec_obs(sem, v)
        got = impl_obs(s, v, statics[s], chain_kexinfo(role, s, v))
        ctx.case(key=("obs", s, v, role), sample={"suite": s, "name": name, "version": list(v), "role": role,
                                                  "implementation": got, "denoted": want} if i % 97 == 0 else None)
        ctx.count("negotiable:%s:%d.%d" % (role, v[0], v[1]))
        # direct oracle
        if name is None:
            ctx.violation("c20:no-name:0x%04x" % s, "negotiable suite 0x%04x has no registered name" % s,
                          {"stage": "oracle", "suite": s, "version": list(v), "role": role, "parameter": "name"})
            continue
        if sem is None or want is None:
            report(ctx, s, v, role, "name", name, "a TLS cipher suite this library implements", name)
            continue
        if not defined_in(sem, v):
            report(ctx, s, v, role, "version", list(v),
                   "TLS 1.3 only" if sem["tls13"] else "3.%d .. 3.3" % sem["minMinor"], name)
        if got is None:
            report(ctx, s, v, role, "parameters", "AssertionError in _getCipherSettings/_getMacSettings/factory",
                   obs_render(want), name)
            continue
        for f in OBS_FIELDS:
            if got[f] == "?" or f in ("kex", "certified", "ske"):
                continue        # the key-exchange part is judged once per role in chain_part
            if got[f] != want[f]:
                report(ctx, s, v, role, f, got[f], want[f], name)
        # correspondence: model observables vs implementation's, Lean spec vs Python spec
        if lc:
            m = obs_parse(model_lines[i])
            ctx.compared(2)
            if m is None:
                ctx.disagree("modelObs", {"suite": s, "version": list(v), "role": role}, model_lines[i], obs_render(got))
            else:
                g = obs_parse(obs_render(got))
                diff = [f for f in OBS_FIELDS if g[f] != "?" and g[f] != m[f]]
                if diff:
                    ctx.disagree("modelObs", {"suite": s, "version": list(v), "role": role, "fields": diff},
                                 model_lines[i], obs_render(got))
            if spec_lines[i] != obs_render(want):
                ctx.disagree("specObs-vs-python-spec", {"suite": s, "version": list(v)}, spec_lines[i], obs_render(want))
    # minimum version actually negotiable = the one the name denotes; nothing below, nothing missing
    for role in ROLES:
        for s in sorted(set(t[0] for t in triples)):
            sem = parse_iana(names.get(s, ""))
            if sem is None:
                continue
            vs = [v for v in VERSIONS if s in neg[(role, v)]]
            want = [v for v in VERSIONS if defined_in(sem, v)]
            ctx.case(key=("versions", role, s), sample=None)
            if vs and vs != want and min(vs) != min(want):
                report(ctx, s, min(vs), role, "min-version", list(min(vs)), list(min(want)), names[s])
    # a suite the selectors return for a version that defines it must pass the version filter there
    for v in VERSIONS:
        st = FullSettings(mac0, ciph0, kex0)
        sel = sorted(set(x for g in gs for x in getattr(C, g)(st, v)))
        for s in sel:
            sem = parse_iana(names.get(s, ""))
            ctx.case(key=("sel-ffv", s, v), sample=None)
            if sem is not None and defined_in(sem, v) and s not in C.filterForVersion([s], v, v):
                report(ctx, s, v, "both", "refused-in-defining-version", "filterForVersion drops it from %d.%d" % v,
                       "defined there", names[s])
    # every identifier (negotiable or not): filterForVersion(v, v) admits only defined versions
    for s in ids:
        for v in VERSIONS:
            if s in C.filterForVersion([s], v, v):
                sem = parse_iana(names.get(s, ""))
                ctx.case(key=("ffv1", s, v), sample=None)
                if sem is None or not defined_in(sem, v):
                    report(ctx, s, v, "both", "version-filter", "admitted to %d.%d" % v,
                           "not defined there" if sem else "not a cipher suite", names.get(s, "?"))
    # settings that exclude a class never yield a suite of that class (the form the known defect took)
    mac, ciph, kex = vocab()
    for v in VERSIONS:
        for g in gs:
            for i, m in enumerate(mac):
                st = FullSettings(mac[:i] + mac[i + 1:], ciph, kex)
                for s in getattr(C, g)(st, v):
                    sem = parse_iana(names.get(s, ""))
                    cls = "aead" if (sem and sem["mac"] is None) else MAC_NAME.get(sem["mac"]) if sem else None
                    ctx.case(key=("excl-mac", g, v, m, s), sample=None)
                    if cls == m:
                        key = (KNOWN_KEY % s) if m == "aead" else "c20:excluded-mac-offered:0x%04x" % s
                        ctx.violation(key, "%s returns 0x%04x %s although macNames lacks %r" % (g, s, names.get(s), m),
                                      {"stage": "oracle", "parameter": "excluded-mac", "suite": s, "getter": g,
                                       "version": list(v), "excluded": m, "name": names.get(s)})
            for i, c in enumerate(ciph):
                st = FullSettings(mac, ciph[:i] + ciph[i + 1:], kex)
                for s in getattr(C, g)(st, v):
                    sem = parse_iana(names.get(s, ""))
                    cn = CIPHER_NAME.get((sem["cipher"], sem["mode"], sem["keyLen"])) if sem else None
                    ctx.case(key=("excl-ciph", g, v, c, s), sample=None)
                    if cn == c:
                        ctx.violation("c20:excluded-cipher-offered:0x%04x" % s,
                                      "%s returns 0x%04x %s although cipherNames lacks %r" % (g, s, names.get(s), c),
                                      {"stage": "oracle", "parameter": "excluded-cipher", "suite": s, "getter": g,
                                       "version": list(v), "excluded": c, "name": names.get(s)})
            for i, k in enumerate(kex):
                st = FullSettings(mac, ciph, kex[:i] + kex[i + 1:])
                for s in getattr(C, g)(st, v):
                    sem = parse_iana(names.get(s, ""))
                    kn = KEX_NAME.get((sem["kex"], sem["auth"])) if sem else None
                    ctx.case(key=("excl-kex", g, v, k, s), sample=None)
                    if kn == k:
                        ctx.violation("c20:excluded-kex-offered:0x%04x" % s,
                                      "%s returns 0x%04x %s although keyExchangeNames lacks %r" % (g, s, names.get(s), k),
                                      {"stage": "oracle", "parameter": "excluded-kex", "suite": s, "getter": g,
                                       "version": list(v), "excluded": k, "name": names.get(s)})
    return neg, statics


def ske_shape(s, v):
    """(kind, signed): which parameter block ServerKeyExchange(s, v).write() emits and whether a
    signature follows, observed on the bytes"""
    from tlslite.messages import ServerKeyExchange
    ske = ServerKeyExchange(s, v)
    ske.srp_N, ske.srp_g, ske.srp_s, ske.srp_B = 0x1111, 2, bytearray(b"\x55"), 0x2222
    ske.dh_p, ske.dh_g, ske.dh_Ys = 0x3333, 3, 0x4444
    ske.curve_type, ske.named_curve, ske.ecdh_Ys = 3, 23, bytearray(b"\x04\x66\x77")
    ske.signature = bytearray(b"\x99\x98\x97")
    ske.hashAlg, ske.signAlg = 4, 1
    try:
        b = bytes(ske.write())[4:]
    except AssertionError:
        return ("AssertionError", has_sig_flag(s))
    except Exception as e:
        return (exc_name(e), has_sig_flag(s))
    if b.startswith(b"\x00\x02\x11\x11"):
        kind = "srp"
    elif b.startswith(b"\x00\x02\x33\x33"):
        kind = "dh"
    elif b.startswith(b"\x03\x00\x17"):
        kind = "ecdh"
    else:
        kind = "unknown"
    return (kind, b.endswith(b"\x00\x03\x99\x98\x97"))


def has_sig_flag(s):
    """for suites whose ServerKeyExchange cannot be written: the signature flag as parse() would use it
    is not observable; mirror expectation is taken from the same lists the writer consults"""
    from tlslite.constants import CipherSuite as C
    return s in C.certAllSuites or s in C.ecdheEcdsaSuites or s in C.dheDsaSuites


# ----------------------------------------------------------------------------------------------
# live handshakes in memory
# ----------------------------------------------------------------------------------------------

class Pipe(object):
    def __init__(self):
        self.buf = bytearray()
        self.log = bytearray()


class MemSock(object):
    def __init__(self, rd, wr):
        self.rd, self.wr = rd, wr

    def send(self, b):
        self.wr.buf += bytes(b)
        self.wr.log += bytes(b)
        return len(b)

    def sendall(self, b):
        self.send(b)

    def recv(self, n):
        if not self.rd.buf:
            raise socket.error(errno.EWOULDBLOCK, "would block")
        r = bytes(self.rd.buf[:n])
        del self.rd.buf[:n]
        return r

    def close(self):
        pass

    def settimeout(self, t):
        pass


_CREDS = {}


def creds(kind):
    """(chain, key) for 'rsa' | 'ecdsa' | 'dsa' from the repository's test keys; None if unavailable"""
    if kind in _CREDS:
        return _CREDS[kind]
    from tlslite.x509 import X509
    from tlslite.x509certchain import X509CertChain
    from tlslite.utils.keyfactory import parsePEMKey
    files = {"rsa": ("serverX509Cert.pem", "serverX509Key.pem"), "ecdsa": ("serverECCert.pem", "serverECKey.pem"),
             "dsa": ("serverDSACert.pem", "serverDSAKey.pem")}[kind]
    from ..core import REPO
    try:
        d = os.path.join(REPO, "tests")
        with open(os.path.join(d, files[0])) as f:
            x = X509()
            x.parse(f.read())
        with open(os.path.join(d, files[1])) as f:
            k = parsePEMKey(f.read(), private=True, implementations=["python"])
        _CREDS[kind] = (X509CertChain([x]), k)
    except Exception:
        _CREDS[kind] = None
    return _CREDS[kind]


_VDB = []


def verifier_db():
    if not _VDB:
        from tlslite.verifierdb import VerifierDB
        db = VerifierDB()
        db.create()
        db[b"user"] = VerifierDB.makeVerifier("user", "password", 1536)
        _VDB.append(db)
    return _VDB[0]


class Recorder(object):
    """records, per side, the KeyExchange classes instantiated and the cipher / MAC factories called
    with their key / IV lengths, by wrapping the names in the modules that use them"""

    KEX = ["RSAKeyExchange", "DHE_RSAKeyExchange", "ECDHE_RSAKeyExchange", "SRPKeyExchange", "ADHKeyExchange",
           "AECDHKeyExchange"]
    FACT = ["createAESGCM", "createAESCCM", "createAESCCM_8", "createCHACHA20", "createAES", "createRC4", "createTripleDES"]

    def __init__(self):
        self.side = None
        self.events = []
        self.saved = []

    def __enter__(self):
        from tlslite import tlsconnection, recordlayer
        rec = self
        for n in self.KEX:
            orig = getattr(tlsconnection, n)

            def mk(orig, n):
                class Wrapped(orig):
                    def __init__(self, *a, **kw):
                        rec.events.append((rec.side, "kex", n))
                        orig.__init__(self, *a, **kw)
                Wrapped.__name__ = n
                return Wrapped
            self.saved.append((tlsconnection, n, orig))
            setattr(tlsconnection, n, mk(orig, n))
        for n in self.FACT:
            orig = getattr(recordlayer, n)

            def mkf(orig, n):
                def wrapped(key, *a):
                    iv = a[0] if len(a) == 2 else None
                    rec.events.append((rec.side, "cipher", n, len(key), len(iv) if iv is not None else None))
                    return orig(key, *a)
                wrapped.__name__ = n
                return wrapped
            self.saved.append((recordlayer, n, orig))
            setattr(recordlayer, n, mkf(orig, n))
        for n in ("createHMAC", "createMAC_SSL"):
            orig = getattr(recordlayer, n)

            def mkm(orig, n):
                def wrapped(k, digestmod=None):
                    rec.events.append((rec.side, "mac", n, len(k), digestmod().name if digestmod else None))
                    return orig(k, digestmod=digestmod)
                return wrapped
            self.saved.append((recordlayer, n, orig))
            setattr(recordlayer, n, mkm(orig, n))
        return self

    def __exit__(self, *a):
        for mod, n, orig in self.saved:
            setattr(mod, n, orig)
        self.saved = []


def flight_types(log):
    """handshake message types in a plaintext flight (records up to the first non-handshake record)"""
    i, hs = 0, bytearray()
    while i + 5 <= len(log):
        t, ln = log[i], (log[i + 3] << 8) | log[i + 4]
        if t != 22:
            break
        hs += log[i + 5:i + 5 + ln]
        i += 5 + ln
    types, j = [], 0
    while j + 4 <= len(hs):
        types.append(hs[j])
        j += 4 + ((hs[j + 1] << 16) | (hs[j + 2] << 8) | hs[j + 3])
    return types


def flight_messages(log):
    """[(type, body)] of the handshake messages of a plaintext flight"""
    i, hs = 0, bytearray()
    while i + 5 <= len(log):
        t, ln = log[i], (log[i + 3] << 8) | log[i + 4]
        if t != 22:
            break
        hs += log[i + 5:i + 5 + ln]
        i += 5 + ln
    out, j = [], 0
    while j + 4 <= len(hs):
        n = (hs[j + 1] << 16) | (hs[j + 2] << 8) | hs[j + 3]
        out.append((hs[j], bytes(hs[j + 4:j + 4 + n])))
        j += 4 + n
    return out


def ske_signed_on_wire(log, kex):
    """does the ServerKeyExchange of this flight carry anything after its parameter block (= a signature)?
    None when there is no ServerKeyExchange or the block does not parse"""
    for t, body in flight_messages(log):
        if t != 12:
            continue
        try:
            p = 0
            if kex == "srp":
                for w in (2, 2, 1, 2):
                    n = int.from_bytes(body[p:p + w], "big")
                    p += w + n
            elif kex == "ffdhe":
                for w in (2, 2, 2):
                    n = int.from_bytes(body[p:p + w], "big")
                    p += w + n
            elif kex == "ecdhe":
                p = 3
                p += 1 + body[p]
            else:
                return None
            if p > len(body):
                return None
            return p < len(body)
        except Exception:
            return None
    return None


def app_records(log, start):
    """[(type, length)] of records appended to a pipe log after offset start"""
    out, i = [], start
    while i + 5 <= len(log):
        out.append((log[i], (log[i + 3] << 8) | log[i + 4]))
        i += 5 + ((log[i + 3] << 8) | log[i + 4])
    return out


def expected_record_len(sem, v, n, etm):
    """ciphertext length of one record protecting n bytes of application data"""
    if v >= (3, 4):
        return n + 1 + sem["tagLen"]
    if sem["mac"] is None:
        explicit = 0 if sem["cipher"] == "chacha20" else 8
        return explicit + n + sem["tagLen"]
    ml = HASH_LEN[sem["mac"]]
    if sem["mode"] == "stream":
        return n + ml
    bs = 8 if sem["cipher"] == "3des" else 16
    iv = bs if v >= (3, 2) else 0
    if etm:
        body = n + 1
        return iv + (body + bs - 1) // bs * bs + ml
    body = n + ml + 1
    return iv + (body + bs - 1) // bs * bs


def live_one(ctx, s, v, name, sem, etm=False, spare_cert=None):
    """handshake forced to suite s in version v between two in-memory TLSConnections; returns
    (status, observations) — status 'ok' | 'skipped:<why>' | 'failed:<why>'"""
    from tlslite.tlsconnection import TLSConnection
    from tlslite.handshakesettings import HandshakeSettings
    cname = CIPHER_NAME[(sem["cipher"], sem["mode"], sem["keyLen"])]
    macclass = "aead" if sem["mac"] is None else MAC_NAME[sem["mac"]]
    st = HandshakeSettings()
    st.minVersion = st.maxVersion = v
    st.cipherNames = [cname]
    st.macNames = [macclass]
    if sem["tls13"]:
        # (a TLS 1.3 client sends supported_groups only when it also offers some (EC)DHE suite of
        # TLS <= 1.2 with the same cipher/MAC names; enable the key exchanges that provide one)
        st.keyExchangeNames = ["ecdhe_rsa", "ecdhe_ecdsa", "dhe_rsa"]
        kind = "rsa"
    else:
        kn = KEX_NAME.get((sem["kex"], sem["auth"]))
        if kn is None:
            return "skipped:no-kex-name", None
        st.keyExchangeNames = [kn]
        kind = {"rsa": "rsa", "ecdsa": "ecdsa", "dss": "dsa", "anon": None, "srp": None}[sem["auth"]]
    st.dhGroups = ["ffdhe2048"]
    st.eccCurves = ["secp256r1", "x25519"]
    st.keyShares = ["secp256r1"]
    st.useEncryptThenMAC = etm
    st.ticket_count = 0
    if v >= (3, 4):
        st.versions = [(3, 4)]
    cred = creds(kind) if kind else None
    if kind and cred is None:
        return "skipped:no-%s-credentials" % kind, None
    sst = st
    if spare_cert and sem["kex"] == "srp" and kind is None:
        # the server also holds a certificate (and would do SRP with certificate, too); the client offers
        # only the SRP suites without server authentication: the chain must stay unused on the wire
        cred = creds(spare_cert)
        if cred is None:
            return "skipped:no-%s-credentials" % spare_cert, None
        import copy
        sst = copy.copy(st)
        sst.keyExchangeNames = ["srp_sha", "srp_sha_rsa"]
    a, b = Pipe(), Pipe()          # a: client -> server, b: server -> client
    c = TLSConnection(MemSock(b, a))
    srv = TLSConnection(MemSock(a, b))
    with Recorder() as rec:
        try:
            if sem["kex"] == "srp":
                gc = c.handshakeClientSRP("user", "password", settings=st, async_=True)
                gs = srv.handshakeServerAsync(verifierDB=verifier_db(), settings=sst,
                                              **(dict(certChain=cred[0], privateKey=cred[1]) if cred else {}))
            elif sem["auth"] == "anon":
                gc = c.handshakeClientAnonymous(settings=st, async_=True)
                gs = srv.handshakeServerAsync(anon=True, settings=st)
            else:
                gc = c.handshakeClientCert(settings=st, async_=True)
                gs = srv.handshakeServerAsync(certChain=cred[0], privateKey=cred[1], settings=st)
            done = [False, False]
            for _ in range(20000):
                for i, (g, side) in enumerate(((gc, "client"), (gs, "server"))):
                    if not done[i]:
                        rec.side = side
                        try:
                            next(g)
                        except StopIteration:
                            done[i] = True
                if all(done):
                    break
            else:
                return "failed:no-progress", None
            obs = {}
            for side, conn in (("client", c), ("server", srv)):
                rl = conn._recordLayer
                w = rl._writeState
                o = {"suite": conn.session.cipherSuite, "version": tuple(conn.version),
                     "connCipher": conn.getCipherName(), "sessCipher": conn.session.getCipherName(),
                     "sessMac": conn.session.getMacName(),
                     "enc": None if w.encContext is None else
                     (w.encContext.name, bool(w.encContext.isAEAD), getattr(w.encContext, "tagLength", 0) if w.encContext.isAEAD else 0),
                     "mac": None if w.macContext is None else
                     (type(w.macContext).__name__, w.macContext.digest_size),
                     "nonce": len(w.fixedNonce) if w.fixedNonce is not None else None,
                     "serverCert": None if conn.session.serverCertChain is None
                     else conn.session.serverCertChain.x509List[0].certAlg}
                obs[side] = o
            # traffic: record sizes for two payload sizes, both directions
            sizes = {}
            for n in (1, 37):
                for side, conn, peer, pipe in (("client", c, srv, a), ("server", srv, c, b)):
                    start = len(pipe.log)
                    rec.side = side
                    for _ in conn.writeAsync(bytearray(b"x" * n)):
                        pass
                    recs = app_records(pipe.log, start)
                    got = None
                    rec.side = "server" if side == "client" else "client"
                    for r in peer.readAsync(max=100, min=n):
                        if r in (0, 1):
                            continue
                        got = bytes(r)
                        break
                    sizes[(side, n)] = (recs, got)
            obs["records"] = sizes
            if v >= (3, 4):
                obs["keyupdate"] = live_keyupdate(c, srv, a, b, rec)
            obs["etm"] = bool(c._recordLayer._writeState.encryptThenMAC), bool(srv._recordLayer._writeState.encryptThenMAC)
            obs["events"] = list(rec.events)
            obs["server_flight"] = flight_types(b.log)
            obs["ske_signed"] = ske_signed_on_wire(b.log, sem["kex"])
            return "ok", obs
        except Exception as e:
            return "failed:%s:%s" % (exc_name(e), str(e)[:80]), None


def live_keyupdate(c, srv, a, b, rec):
    """one KeyUpdate in each direction (the client asks, the server answers with its own), then data
    both ways; returns the secrets before/after on both ends and the two post-update records"""
    from tlslite.constants import KeyUpdateMessageType
    ku = {"before": {"client": (bytes(c.session.cl_app_secret), bytes(c.session.sr_app_secret)),
                     "server": (bytes(srv.session.cl_app_secret), bytes(srv.session.sr_app_secret))}}
    rec.side = "client"
    for _ in c.send_keyupdate_request(KeyUpdateMessageType.update_requested):
        pass
    start_a = len(a.log)
    for _ in c.writeAsync(bytearray(b"ping")):
        pass
    ku["c2s_record"] = bytes(a.log[start_a:])
    rec.side = "server"
    got = None
    start_b = len(b.log)
    for r in srv.readAsync(max=100, min=4):
        if r in (0, 1):
            if not a.buf:
                break
            continue
        got = bytes(r)
        break
    ku["server_read"] = got
    ku["s2c_keyupdate"] = app_records(b.log, start_b)
    start_b = len(b.log)
    for _ in srv.writeAsync(bytearray(b"pong")):
        pass
    ku["s2c_record"] = bytes(b.log[start_b:])
    rec.side = "client"
    got = None
    for r in c.readAsync(max=100, min=4):
        if r in (0, 1):
            if not b.buf:
                break
            continue
        got = bytes(r)
        break
    ku["client_read"] = got
    ku["after"] = {"client": (bytes(c.session.cl_app_secret), bytes(c.session.sr_app_secret)),
                   "server": (bytes(srv.session.cl_app_secret), bytes(srv.session.sr_app_secret))}
    return ku


def open_tls13_record(sem, secret, hname, record, seq=0):
    """decrypt one TLS 1.3 record with keys derived independently from `secret` (HKDF-Expand-Label with
    the hash the name denotes; RFC 8446 §5.2-5.3, §7.3); the AEAD primitive itself is tlslite's.
    -> plaintext with the content type byte, or None"""
    from tlslite.utils import cipherfactory
    if len(record) < 5 or record[0] != 23:
        return None
    ln = (record[3] << 8) | record[4]
    body = record[5:5 + ln]
    key = hkdf_expand_label(hname, secret, b"key", b"", sem["keyLen"])
    iv = hkdf_expand_label(hname, secret, b"iv", b"", 12)
    nonce = bytes(x ^ y for x, y in zip(iv, bytes(4) + seq.to_bytes(8, "big")))
    fac = {"gcm": "createAESGCM", "ccm": "createAESCCM", "ccm8": "createAESCCM_8", "poly1305": "createCHACHA20"}[sem["mode"]]
    aead = getattr(cipherfactory, fac)(bytearray(key), ["python"])
    pt = aead.open(bytearray(nonce), bytearray(body), bytearray(record[:5]))
    return None if pt is None else bytes(pt)


def check_keyupdate(ctx, s, v, name, sem, ku):
    hname = sem["prf12"]
    hl = HASH_LEN[hname]

    def bad(field, impl, w, role="both"):
        report(ctx, s, v, role, "live-keyupdate-" + field, impl, w, name, {"stage": "live"})
    cl0, sr0 = ku["before"]["client"]
    if ku["before"]["server"] != (cl0, sr0):
        bad("secrets-before", "client and server sessions differ", "equal")
    if (len(cl0), len(sr0)) != (hl, hl):
        bad("traffic-secret-length", [len(cl0), len(sr0)], [hl, hl])
    want = (hkdf_expand_label(hname, cl0, b"traffic upd", b"", hl), hkdf_expand_label(hname, sr0, b"traffic upd", b"", hl))
    for side in ROLES:
        got = ku["after"][side]
        if (len(got[0]), len(got[1])) != (hl, hl):
            bad("next-secret-length", [len(got[0]), len(got[1])], [hl, hl], side)
        elif got != want:
            bad("next-secret", [got[0].hex(), got[1].hex()],
                "HKDF-Expand-Label(secret, 'traffic upd', '', %d) with %s: %s / %s" % (hl, hname, want[0].hex(), want[1].hex()), side)
    if ku["server_read"] != b"ping" or ku["client_read"] != b"pong":
        bad("delivery", [ku["server_read"], ku["client_read"]], ["ping", "pong"])
    # the server answered the request with its own KeyUpdate (one handshake record under the old key)
    if len(ku["s2c_keyupdate"]) != 1:
        bad("reply", ku["s2c_keyupdate"], "one KeyUpdate record")
    # the first record of the next generation, each direction, opens with independently derived keys
    for label, record, secret, data in (("client-to-server", ku["c2s_record"], want[0], b"ping"),
                                        ("server-to-client", ku["s2c_record"], want[1], b"pong")):
        try:
            pt = open_tls13_record(sem, secret, hname, record)
        except Exception as e:
            pt = "exception:" + exc_name(e)
        if not isinstance(pt, bytes) or pt.rstrip(b"\x00") != data + b"\x17":
            bad("post-update-record-" + label, pt if not isinstance(pt, bytes) else pt.hex(),
                "opens to %r with key/iv from the %s next-generation secret" % (data, hname))


def check_live(ctx, s, v, name, sem, obs):
    """compare one live handshake with what the name denotes; violations carry suite + parameter"""
    want = spec_obs(sem, v)

    def bad(field, impl, w, role="both"):
        report(ctx, s, v, role, "live-" + field, impl, w, name, {"stage": "live"})
    for side in ROLES:
        o = obs[side]
        if o["suite"] != s:
            bad("negotiated-suite", o["suite"], s, side)
            return
        if o["version"] != v:
            bad("version", list(o["version"]), list(v), side)
        if o["connCipher"] != want["connCipher"]:
            bad("connCipher", o["connCipher"], want["connCipher"], side)
        if o["sessCipher"] != want["sessCipher"]:
            bad("sessCipher", o["sessCipher"], want["sessCipher"], side)
        if o["sessMac"] != want["sessMac"]:
            report(ctx, s, v, side, "sessMac", o["sessMac"], want["sessMac"], name, {"stage": "live"})
        enc = o["enc"]
        if sem["cipher"] == "null":
            if enc is not None:
                bad("cipher-object", enc, None, side)
        elif enc is None or enc[0] != want["connCipher"] or enc[1] != (sem["mac"] is None) or enc[2] != sem["tagLen"]:
            bad("cipher-object", enc, (want["connCipher"], sem["mac"] is None, sem["tagLen"]), side)
        if sem["mac"] is None:
            if o["mac"] is not None:
                bad("mac-object", o["mac"], None, side)
            if o["nonce"] != want["ivLen"]:
                bad("nonce-length", o["nonce"], want["ivLen"], side)
        else:
            # (class, digest size); the digest itself is checked through the recorded factory call
            if o["mac"] is None or o["mac"][1] != HASH_LEN[sem["mac"]]:
                bad("mac-object", o["mac"], HASH_LEN[sem["mac"]], side)
        wantcert = {"rsa": ("rsa", "rsa-pss"), "ecdsa": ("ecdsa",), "dss": ("dsa",)}.get(sem["auth"])
        if sem["tls13"]:
            wantcert = ("rsa", "rsa-pss")
        # what the client received is what was on the wire (the server's own Session omits its chain for
        # DHE_DSS suites; that is outside this property and reported separately)
        if side == "client" and ((o["serverCert"] is None) != (wantcert is None)
                                 or (wantcert and o["serverCert"] not in wantcert)):
            bad("server-certificate", o["serverCert"], wantcert, side)
    if "keyupdate" in obs:
        check_keyupdate(ctx, s, v, name, sem, obs["keyupdate"])
    ev = obs["events"]
    # key exchange classes per role
    if not sem["tls13"]:
        for side in ROLES:
            ks = [e[2] for e in ev if e[0] == side and e[1] == "kex"]
            fam = {"RSAKeyExchange": "rsa", "DHE_RSAKeyExchange": "ffdhe", "ADHKeyExchange": "ffdhe",
                   "ECDHE_RSAKeyExchange": "ecdhe", "AECDHKeyExchange": "ecdhe", "SRPKeyExchange": "srp"}
            fams = sorted(set(fam.get(k, k) for k in ks))
            if fams != [sem["kex"]]:
                bad("key-exchange-class", ks, sem["kex"], side)
        # server flight: Certificate(11) iff certified, ServerKeyExchange(12) iff kex != rsa
        fl = obs["server_flight"]
        if (11 in fl) != want["certified"]:
            bad("certificate-message", fl, "Certificate %s" % ("expected" if want["certified"] else "not expected"))
        if (12 in fl) != want["ske"]:
            bad("server-key-exchange-message", fl, "ServerKeyExchange %s" % ("expected" if want["ske"] else "not expected"))
        # the parameters are signed exactly when the name denotes an authenticating key
        if want["ske"] and obs.get("ske_signed") != want["certified"]:
            bad("server-key-exchange-signature", obs.get("ske_signed"), want["certified"])
    # keys installed: each side builds client+server pending states; final state = last calls
    for side in ROLES:
        cs = [e for e in ev if e[0] == side and e[1] == "cipher"]
        ms = [e for e in ev if e[0] == side and e[1] == "mac"]
        if sem["cipher"] == "null":
            if cs:
                bad("cipher-factory", cs[-1][2:], None, side)
        else:
            if not cs:
                bad("cipher-factory", None, sem["cipher"], side)
            else:
                for e in cs:
                    if e[3] != sem["keyLen"]:
                        bad("key-length", e[3], sem["keyLen"], side)
                    if sem["mac"] is not None and sem["mode"] == "cbc" and e[4] != want["ivLen"]:
                        bad("iv-length", e[4], want["ivLen"], side)
        if sem["mac"] is None:
            if ms:
                bad("mac-factory", ms[-1][2:], None, side)
        else:
            for e in ms:
                if e[3] != HASH_LEN[sem["mac"]] or e[4] != sem["mac"]:
                    bad("mac-key", e[3:], (HASH_LEN[sem["mac"]], sem["mac"]), side)
                if (e[2] == "createMAC_SSL") != (v == (3, 0)):
                    bad("mac-construction", e[2], "createMAC_SSL" if v == (3, 0) else "createHMAC", side)
            if not ms:
                bad("mac-factory", None, sem["mac"], side)
    # record sizes and delivery
    # encrypt-then-MAC (RFC 7366) applies to CBC suites only, from TLS 1.0
    etm_want = bool(obs.get("etm_requested")) and sem["mode"] == "cbc" and v >= (3, 1)
    if obs["etm"] != (etm_want, etm_want):
        bad("encrypt-then-mac", list(obs["etm"]), etm_want)
    for (side, n), (recs, got) in sorted(obs["records"].items()):
        if got != b"x" * n:
            bad("delivery", got, "x*%d" % n, side)
        lens = [ln for t, ln in recs if t == 23]
        e1 = expected_record_len(sem, v, n, etm_want)
        ok = lens == [e1]
        if not ok and sem["mode"] == "cbc" and v <= (3, 1) and n > 1:
            # 1/n-1 record splitting of CBC in SSLv3 / TLS 1.0
            ok = lens == [expected_record_len(sem, v, 1, etm_want), expected_record_len(sem, v, n - 1, etm_want)]
        if not ok and sem["mode"] == "cbc" and v <= (3, 1) and n == 1:
            ok = lens == [expected_record_len(sem, v, 0, etm_want), e1] or lens == [e1, expected_record_len(sem, v, 0, etm_want)]
        if not ok:
            bad("record-size", lens, [e1], side)


def live_part(ctx, neg, budget_s):
    from tlslite.constants import CipherSuite as C
    names = dict(C.ietfNames)
    t0 = time.time()
    pairs = sorted(set((s, v) for (role, v), ss in neg.items() for s in ss))
    done = skipped = failed = 0
    skip_reasons = {}
    for s, v in pairs:
        if time.time() - t0 > budget_s:
            skip_reasons["out-of-budget"] = skip_reasons.get("out-of-budget", 0) + 1
            skipped += 1
            continue
        name = names.get(s)
        sem = parse_iana(name) if name else None
        if sem is None or spec_obs(sem, v) is None:
            skipped += 1
            skip_reasons["no-spec"] = skip_reasons.get("no-spec", 0) + 1
            continue
        variants = [False, True] if (ctx.thorough() and sem["mac"] is not None) else [False]
        for etm in variants[1:]:
            st2, obs2 = live_one(ctx, s, v, name, sem, etm=True)
            ctx.count("live-etm:" + st2.split(":")[0])
            if st2 == "ok":
                obs2["etm_requested"] = True
                ctx.case(key=("live-etm", s, v), sample=None)
                check_live(ctx, s, v, name, sem, obs2)
            else:
                ctx.disagree("live-handshake", {"suite": s, "name": name, "version": list(v), "etm": True},
                             "handshake completes", st2)
        if sem["kex"] == "srp" and sem["auth"] == "srp":
            for spare in ("rsa", "ecdsa"):
                st3, obs3 = live_one(ctx, s, v, name, sem, spare_cert=spare)
                ctx.count("live-srp-with-unused-%s-cert:%s" % (spare, st3.split(":")[0]))
                if st3 == "ok":
                    ctx.case(key=("live-spare", s, v, spare), sample=None)
                    check_live(ctx, s, v, name, sem, obs3)
                elif not st3.startswith("skipped"):
                    ctx.disagree("live-handshake", {"suite": s, "name": name, "version": list(v), "server_also_holds": spare},
                                 "handshake completes", st3)
        status, obs = live_one(ctx, s, v, name, sem)
        ctx.count("live:" + status.split(":")[0])
        if status == "ok":
            done += 1
            ctx.case(key=("live", s, v), sample={"suite": s, "name": name, "version": list(v),
                                                 "client": obs["client"], "server_flight": obs["server_flight"]}
                     if done % 40 == 1 else None)
            check_live(ctx, s, v, name, sem, obs)
        elif status.startswith("skipped"):
            skipped += 1
            skip_reasons[status] = skip_reasons.get(status, 0) + 1
        else:
            failed += 1
            skip_reasons[status] = skip_reasons.get(status, 0) + 1
            # a negotiable suite that cannot be brought up with settings derived from its own name:
            # model/impl disagreement stream (not a violation by itself)
            ctx.disagree("live-handshake", {"suite": s, "name": name, "version": list(v)}, "handshake completes", status)
    ctx.extra["live_handshakes"] = {"completed": done, "skipped": skipped, "failed": failed, "reasons": skip_reasons,
                                    "wall_s": round(time.time() - t0, 1)}


# ----------------------------------------------------------------------------------------------
# faulty peers: a peer that picks / offers a suite the negotiated version does not define
# ----------------------------------------------------------------------------------------------

def full_settings(minv, maxv):
    from tlslite.handshakesettings import HandshakeSettings
    mac, ciph, kex = vocab()
    st = HandshakeSettings()
    st.minVersion, st.maxVersion = minv, maxv
    st.cipherNames, st.macNames, st.keyExchangeNames = list(ciph), list(mac), list(kex)
    st.dhGroups = ["ffdhe2048"]
    st.eccCurves = ["secp256r1", "x25519"]
    st.keyShares = ["secp256r1"]
    st.ticket_count = 0
    return st


def start_client(kind, st):
    """(connection, generator, pipe client->server, pipe server->client)"""
    from tlslite.tlsconnection import TLSConnection
    a, b = Pipe(), Pipe()
    c = TLSConnection(MemSock(b, a))
    if kind == "srp":
        g = c.handshakeClientSRP("user", "password", settings=st, async_=True)
    elif kind == "anon":
        g = c.handshakeClientAnonymous(settings=st, async_=True)
    else:
        g = c.handshakeClientCert(settings=st, async_=True)
    return c, g, a, b


def start_server(kind, st, a, b, cred_kind="rsa"):
    from tlslite.tlsconnection import TLSConnection
    srv = TLSConnection(MemSock(a, b))
    if kind == "srp":
        cred = creds(cred_kind) if cred_kind else None
        g = srv.handshakeServerAsync(verifierDB=verifier_db(), settings=st,
                                     **(dict(certChain=cred[0], privateKey=cred[1]) if cred else {}))
    elif kind == "anon":
        g = srv.handshakeServerAsync(anon=True, settings=st)
    else:
        cred = creds(cred_kind)
        g = srv.handshakeServerAsync(certChain=cred[0], privateKey=cred[1], settings=st)
    return srv, g


def step_until_blocked(g, pipe_in, limit=2000):
    """advance a handshake generator until it waits for input that is not there.
    -> 'blocked' | 'completed' | ('alert', description) | ('error', exception name)"""
    from tlslite.errors import TLSLocalAlert
    try:
        for _ in range(limit):
            r = next(g)
            if r == 0 and not pipe_in.buf:
                return "blocked"
        return ("error", "no-progress")
    except StopIteration:
        return "completed"
    except TLSLocalAlert as e:
        return ("alert", e.description)
    except Exception as e:
        return ("error", exc_name(e))


def first_handshake_msg(log, want_type):
    """(record_version_bytes, message bytes) of the first handshake message in a plaintext log, if it
    has the wanted type"""
    if len(log) < 9 or log[0] != 22:
        return None
    ln = (log[3] << 8) | log[4]
    body = bytes(log[5:5 + ln])
    if not body or body[0] != want_type:
        return None
    mlen = (body[1] << 16) | (body[2] << 8) | body[3]
    if 4 + mlen > len(body):
        return None
    return bytes(log[1:3]), body[:4 + mlen]


def hello_fields(msg):
    """offsets in a ClientHello / ServerHello message: session id and the suite field"""
    sid_len = msg[38]
    sid = msg[39:39 + sid_len]
    p = 39 + sid_len
    if msg[0] == 1:
        n = (msg[p] << 8) | msg[p + 1]
        suites = [(msg[p + 2 + i] << 8) | msg[p + 3 + i] for i in range(0, n, 2)]
        return {"sid": sid, "suites_at": p, "suites_len": n, "suites": suites}
    return {"sid": sid, "suite_at": p, "suite": (msg[p] << 8) | msg[p + 1]}


def record(ver, msg):
    return bytes([22]) + ver + bytes([len(msg) >> 8, len(msg) & 0xff]) + msg


_SH_TEMPLATES = {}


def sh_template(kind, span, v):
    """a genuine ServerHello of an honest tlslite server that negotiates v with a client of `span`"""
    key = (kind, span, v)
    if key not in _SH_TEMPLATES:
        c, gc, a, b = start_client(kind, full_settings(*span))
        r = step_until_blocked(gc, b)
        srv, gs = start_server(kind, full_settings(v, v), a, b, "rsa" if kind == "cert" else None)
        step_until_blocked(gs, a)
        _SH_TEMPLATES[key] = first_handshake_msg(b.log, 2) if r == "blocked" else None
    return _SH_TEMPLATES[key]


def client_guard_case(kind, span, v, s):
    """a client of `span` receives a ServerHello negotiating v with suite s.
    -> (decision, offered): decision 'accept' | 'reject:<alert>' | 'error:<what>'"""
    tpl = sh_template(kind, span, v)
    if tpl is None:
        return "error:no-template", []
    ver, sh = tpl
    c, gc, a, b = start_client(kind, full_settings(*span))
    r = step_until_blocked(gc, b)
    ch = first_handshake_msg(a.log, 1)
    if r != "blocked" or ch is None:
        return "error:no-client-hello", []
    chf = hello_fields(ch[1])
    shf = hello_fields(sh)
    msg = bytearray(sh)
    if v >= (3, 4) and len(shf["sid"]) == len(chf["sid"]):
        msg[39:39 + len(chf["sid"])] = chf["sid"]       # TLS 1.3: legacy_session_id_echo
    msg[shf["suite_at"]] = s >> 8
    msg[shf["suite_at"] + 1] = s & 0xff
    b.buf += record(ver, bytes(msg))
    r = step_until_blocked(gc, b)
    if r == "blocked":
        return "accept", chf["suites"]
    if r == "completed":
        return "error:completed", chf["suites"]
    if r[0] == "alert":
        return "reject:%d" % r[1], chf["suites"]
    return "error:" + r[1], chf["suites"]


def faulty_server_full(kind, span, v, s, cred_kind="rsa"):
    """a CONSISTENT misbehaving server: while (and only while) the server is stepped, the version
    filter is replaced by one that leaves exactly suite s, so the server negotiates v with s and
    keys its connection accordingly.  -> (client outcome, server outcome, data delivered?)"""
    from tlslite.constants import CipherSuite as C
    from tlslite.errors import TLSLocalAlert, TLSRemoteAlert
    orig = C.__dict__["filterForVersion"]
    c, gc, a, b = start_client(kind, full_settings(*span))
    st = full_settings(v, v)
    srv, gs = start_server(kind, st, a, b, cred_kind)
    out = {"client": None, "server": None}
    gens = {"client": gc, "server": gs}
    try:
        for _ in range(20000):
            for side in ("client", "server"):
                if out[side] is not None:
                    continue
                if side == "server":
                    C.filterForVersion = staticmethod(lambda suites, minVersion, maxVersion: [s])
                try:
                    next(gens[side])
                except StopIteration:
                    out[side] = "completed"
                except TLSLocalAlert as e:
                    out[side] = "alert:%d" % e.description
                except TLSRemoteAlert as e:
                    out[side] = "remote-alert:%d" % e.description
                except Exception as e:
                    out[side] = "error:" + exc_name(e)
                finally:
                    if side == "server":
                        C.filterForVersion = orig
            if all(out.values()):
                break
            if not a.buf and not b.buf and any(out.values()):
                # one side is gone and nothing is in flight: the other can only wait
                for side in out:
                    out[side] = out[side] or "waiting"
                break
    finally:
        C.filterForVersion = orig
    delivered = False
    if out["client"] == "completed" and out["server"] == "completed":
        try:
            for _ in srv.writeAsync(bytearray(b"pong")):
                pass
            for r in c.readAsync(max=10, min=4):
                if r not in (0, 1):
                    delivered = bytes(r) == b"pong"
                    break
        except Exception:
            delivered = False
    return out["client"], out["server"], delivered, (c.session.cipherSuite if out["client"] == "completed" else None,
                                                       tuple(c.version) if out["client"] == "completed" else None)


def server_guard_case(v, s, sem):
    """a server (all-enabling settings, credentials fitting s) receives a ClientHello for version v
    that offers only suite s.  -> 'select:<suite>' | 'alert:<n>' | 'error:<what>'"""
    kind, cred = "cert", "rsa"
    if sem is not None and not sem["tls13"]:
        if sem["kex"] == "srp":
            kind, cred = "srp", ("rsa" if sem["auth"] == "rsa" else None)
        elif sem["auth"] == "anon":
            kind, cred = "anon", None
        else:
            cred = {"rsa": "rsa", "ecdsa": "ecdsa", "dss": "dsa"}.get(sem["auth"], "rsa")
    if cred and creds(cred) is None:
        return "error:no-credentials"
    # (SRP and anonymous clients do not speak TLS 1.3: take a certificate client's hello there, the suite
    # list is replaced anyway)
    c, gc, a, b = start_client(kind if v <= (3, 3) else "cert", full_settings(v, v))
    r = step_until_blocked(gc, b)
    ch = first_handshake_msg(a.log, 1)
    if r != "blocked" or ch is None:
        return "error:no-client-hello"
    ver, msg = ch
    f = hello_fields(msg)
    suites = bytes([s >> 8, s & 0xff, 0x00, 0xff])
    body = msg[4:f["suites_at"]] + bytes([0, len(suites)]) + suites + msg[f["suites_at"] + 2 + f["suites_len"]:]
    new = bytes([1, len(body) >> 16, (len(body) >> 8) & 0xff, len(body) & 0xff]) + body
    a2, b2 = Pipe(), Pipe()
    srv, gs = start_server(kind, full_settings((3, 0), (3, 4)), a2, b2, cred)
    a2.buf += record(ver, new)
    r = step_until_blocked(gs, a2)
    sh = first_handshake_msg(b2.log, 2)
    if sh is not None:
        return "select:%d" % hello_fields(sh[1])["suite"]
    if r == "blocked":
        return "error:blocked-without-hello"
    if r == "completed":
        return "error:completed"
    return "%s:%s" % (r[0], r[1])


def faulty_peer_part(ctx, neg):
    from tlslite.constants import CipherSuite as C
    names = dict(C.ietfNames)
    ids = all_ids()
    unknown = [0x0003, 0x1306, 0xc033]
    lc = ctx.lean()
    t0 = time.time()

    def undefined(s, v):
        sem = parse_iana(names.get(s, ""))
        return sem is None or not defined_in(sem, v)

    # ---- client as victim: ServerHello with a suite of the wrong era
    plans = [("cert", ((3, 0), (3, 4))), ("cert", ((3, 3), (3, 4))), ("cert", ((3, 0), (3, 3))),
             ("anon", ((3, 0), (3, 3))), ("srp", ((3, 1), (3, 3)))]
    if ctx.thorough():
        plans += [("cert", ((3, 2), (3, 4))), ("cert", ((3, 0), (3, 2))), ("cert", ((3, 4), (3, 4))),
                  ("anon", ((3, 2), (3, 3))), ("srp", ((3, 0), (3, 3)))]
    pending = []
    flagged = []
    for kind, span in plans:
        for v in VERSIONS:
            if not (span[0] <= v <= span[1]):
                continue
            if sh_template(kind, span, v) is None:
                # an honest tlslite server does not reach this version with this client (e.g. SSLv3 against a
                # client that also offers TLS 1.3): no genuine ServerHello to start from
                ctx.count("client-guard:no-honest-template")
                continue
            for s in ids + unknown:
                if s > 0xffff:      # SSLv2 cipher kinds do not fit the ServerHello field
                    continue
                dec, offered = client_guard_case(kind, span, v, s)
                case = {"stage": "faulty-server", "client": kind, "span": [list(span[0]), list(span[1])],
                        "version": list(v), "suite": s, "name": names.get(s)}
                ctx.case(key=("cguard", kind, span, v, s), sample=dict(case, decision=dec)
                         if (s in (0xc02f, 0x1301) and v == (3, 4) and kind == "cert") else None)
                ctx.count("client-guard:" + dec.split(":")[0] + (":undefined" if undefined(s, v) else ":defined"))
                if dec == "accept" and undefined(s, v):
                    flagged.append((kind, span, v, s, case))
                pending.append((case, dec, "cguard %d %d %d %s" % (v[0], v[1], s, nl(offered))))
    if lc is not None and pending:
        out = lc.batch([p[2] for p in pending])
        for (case, dec, line), m in zip(pending, out):
            ctx.compared()
            want = {"1": "accept", "0": "reject"}.get(m, m)
            if dec.split(":")[0] != want:
                ctx.disagree("client-serverhello-suite-guard", dict(case, request=line), want, dec)
    for kind, span, v, s, case in flagged:
        full = faulty_server_full(kind, span, v, s)
        ctx.violation("c20:client-accepts-out-of-version-suite",
                      "(%d such suite/version/client cases, first:) %s client offering %d.%d..%d.%d accepts a ServerHello that negotiates %d.%d with 0x%04x %s, which that "
                      "version does not define (consistent misbehaving server: client %s, server %s, data delivered %s)"
                      % (len(flagged), kind, span[0][0], span[0][1], span[1][0], span[1][1], v[0], v[1], s, names.get(s),
                         full[0], full[1], full[2]),
                      dict(case, parameter="client-guard", consistent_faulty_server=list(full[:3]),
                           all_flagged=[[f[0], list(f[2]), f[3]] for f in flagged[:200]]))
        break
    # ---- the same with a consistent misbehaving server, to completion (subset: suites the server can run)
    full_plans = [("cert", ((3, 3), (3, 4)), (3, 4)), ("cert", ((3, 1), (3, 3)), (3, 1)), ("cert", ((3, 0), (3, 4)), (3, 3))]
    for kind, span, v in full_plans:
        c0, g0, a0, b0 = start_client(kind, full_settings(*span))
        step_until_blocked(g0, b0)
        ch = first_handshake_msg(a0.log, 1)
        offered = hello_fields(ch[1])["suites"] if ch else []
        cands = [s for s in offered if s in names and undefined(s, v)]
        if not ctx.thorough():
            ctx.rng.shuffle(cands)
            cands = sorted(cands[:12])
        for s in cands:
            sem = parse_iana(names[s])
            cred = {"rsa": "rsa", "ecdsa": "ecdsa", "dss": "dsa"}.get(sem["auth"], "rsa") if sem else "rsa"
            if creds(cred) is None:
                continue
            cl, sv, delivered, got = faulty_server_full(kind, span, v, s, cred)
            ctx.case(key=("faulty-full", kind, span, v, s), sample=None)
            ctx.count("faulty-server-full:client-" + cl.split(":")[0])
            if cl == "completed":
                ctx.violation("c20:client-accepts-out-of-version-suite",
                              "client offering %d.%d..%d.%d completes a %d.%d handshake with 0x%04x %s chosen by a misbehaving "
                              "server (data delivered: %s); that version does not define the suite"
                              % (span[0][0], span[0][1], span[1][0], span[1][1], v[0], v[1], s, names[s], delivered),
                              {"stage": "faulty-server", "parameter": "client-guard", "client": kind,
                               "span": [list(span[0]), list(span[1])], "version": list(v), "suite": s, "name": names[s],
                               "consistent_faulty_server": [cl, sv, delivered]})
    # ---- server as victim: ClientHello offering only a suite of the wrong era
    pending = []
    for v in VERSIONS:
        negset = set(neg[("server", v)])
        for s in ids:
            name = names.get(s)
            sem = parse_iana(name) if name else None
            if name is None or "SCSV" in name or name.startswith("SSL_CK"):
                continue
            dec = server_guard_case(v, s, sem)
            case = {"stage": "faulty-client", "version": list(v), "suite": s, "name": name}
            ctx.case(key=("sguard", v, s), sample=dict(case, decision=dec) if (s == 0x1301 and v == (3, 3)) else None)
            ctx.count("server-guard:" + dec.split(":")[0] + (":undefined" if undefined(s, v) else ":defined"))
            selected = dec == "select:%d" % s
            if selected and undefined(s, v):
                ctx.violation("c20:server-selects-out-of-version-suite",
                              "server answers a %d.%d ClientHello offering only 0x%04x %s by selecting it; that version does "
                              "not define the suite" % (v[0], v[1], s, name), dict(case, parameter="server-guard"))
            if dec.startswith("select:") and not selected:
                ctx.violation("c20:server-selects-unoffered-suite:0x%04x" % s,
                              "server answers a ClientHello offering only 0x%04x with %s" % (s, dec),
                              dict(case, parameter="server-guard"))
            ctx.compared()
            if selected != (s in negset):
                ctx.disagree("server-suite-selection", case, "select" if s in negset else "refuse", dec)
    ctx.extra["faulty_peer"] = {"wall_s": round(time.time() - t0, 1), "client_guard_flagged": len(flagged)}


# ----------------------------------------------------------------------------------------------
# several server credentials (settings.virtual_hosts): the credential the server answers with must be of
# the type the negotiated suite's name denotes
# ----------------------------------------------------------------------------------------------

CRED_FILES = {"rsa": ("serverX509Cert.pem", "serverX509Key.pem"), "ecdsa": ("serverECCert.pem", "serverECKey.pem"),
              "dsa": ("serverDSACert.pem", "serverDSAKey.pem"), "ed25519": ("serverEd25519Cert.pem", "serverEd25519Key.pem"),
              "rsa-pss": ("serverRSAPSSCert.pem", "serverRSAPSSKey.pem")}
_RAW = {}


def raw_cred(kind):
    """(X509, key) or None"""
    if kind not in _RAW:
        from tlslite.x509 import X509
        from tlslite.utils.keyfactory import parsePEMKey
        from ..core import REPO
        try:
            d = os.path.join(REPO, "tests")
            with open(os.path.join(d, CRED_FILES[kind][0])) as f:
                x = X509()
                x.parse(f.read())
            with open(os.path.join(d, CRED_FILES[kind][1])) as f:
                k = parsePEMKey(f.read(), private=True, implementations=["python"])
            _RAW[kind] = (x, k)
        except Exception:
            _RAW[kind] = None
    return _RAW[kind]


# which signature schemes the client can verify
CLIENT_SIGS = {
    "any": {},
    "ecdsa-only": {"rsaSigHashes": [], "rsaSchemes": [], "dsaSigHashes": [], "more_sig_schemes": []},
    "rsa-only": {"ecdsaSigHashes": [], "dsaSigHashes": [], "more_sig_schemes": []},
    "eddsa-only": {"rsaSigHashes": [], "rsaSchemes": [], "dsaSigHashes": [], "ecdsaSigHashes": [],
                   "more_sig_schemes": ["Ed25519", "Ed448"]},
    "dsa-only": {"rsaSigHashes": [], "rsaSchemes": [], "ecdsaSigHashes": [], "more_sig_schemes": []},
}

# certAlg of the presented certificate / signature algorithm of ServerKeyExchange -> the authentication
# component of a suite name that covers it (EdDSA certificates go with the *_ECDSA_* suites, RFC 8422 §5.1.1... §2)
AUTH_OF_CERTALG = {"rsa": "rsa", "rsa-pss": "rsa", "ecdsa": "ecdsa", "Ed25519": "ecdsa", "Ed448": "ecdsa", "dsa": "dss"}


def auth_of_sigalg(sa):
    if sa is None:
        return None
    h, g = sa
    if h == 8:
        return {4: "rsa", 5: "rsa", 6: "rsa", 9: "rsa", 10: "rsa", 11: "rsa", 7: "ecdsa", 8: "ecdsa"}.get(g, "?%d" % g)
    return {1: "rsa", 2: "dss", 3: "ecdsa"}.get(g, "?%d" % g)


def vhost_case(default, extra, sigs, v):
    """server: default credential + one virtual-host key pair; client restricted to `sigs`.
    -> ('ok', suite, certAlg presented, ServerKeyExchange (hash, sig)) | ('failed', why)"""
    from tlslite.tlsconnection import TLSConnection
    from tlslite.handshakesettings import VirtualHost, Keypair
    from tlslite.x509certchain import X509CertChain
    d, e = raw_cred(default), raw_cred(extra)
    if d is None or e is None:
        return ("skipped", "credentials")
    cst = full_settings(v, v)
    for k, val in CLIENT_SIGS[sigs].items():
        setattr(cst, k, list(val))
    sst = full_settings(v, v)
    vh = VirtualHost()
    vh.keys = [Keypair(e[1], [e[0]])]
    sst.virtual_hosts = [vh]
    a, b = Pipe(), Pipe()
    c = TLSConnection(MemSock(b, a))
    srv = TLSConnection(MemSock(a, b))
    try:
        gc = c.handshakeClientCert(settings=cst, async_=True)
        gs = srv.handshakeServerAsync(certChain=X509CertChain([d[0]]), privateKey=d[1], settings=sst)
        done = [False, False]
        for _ in range(20000):
            for i, g in enumerate((gc, gs)):
                if not done[i]:
                    try:
                        next(g)
                    except StopIteration:
                        done[i] = True
            if all(done):
                break
        else:
            return ("failed", "no-progress")
    except Exception as ex:
        return ("failed", exc_name(ex))
    if c.session.cipherSuite != srv.session.cipherSuite:
        return ("failed", "suites differ")
    chain = c.session.serverCertChain
    return ("ok", c.session.cipherSuite, chain.x509List[0].certAlg if chain else None,
            tuple(c.serverSigAlg) if getattr(c, "serverSigAlg", None) else None)


def vhost_check(ctx, default, extra, sigs, v, res):
    """oracle for one completed scenario; returns True if it violates the property"""
    from tlslite.constants import CipherSuite as C
    if res[0] != "ok":
        return False
    _, s, certalg, sigalg = res
    name = C.ietfNames.get(s)
    sem = parse_iana(name) if name else None
    if sem is None or sem["tls13"] or sem["auth"] not in ("rsa", "ecdsa", "dss"):
        return False
    problems = []
    if AUTH_OF_CERTALG.get(certalg) != sem["auth"]:
        problems.append("certificate presented is %s" % certalg)
    sa = auth_of_sigalg(sigalg)
    if sa is not None and sem["kex"] != "rsa" and sa != sem["auth"]:
        problems.append("ServerKeyExchange signed with %s (%s)" % (sa, list(sigalg)))
    if problems:
        ctx.violation("c20:vhost-auth-type-mismatch",
                      "server with %s default credential and %s virtual-host key pair, client verifying %s signatures, %d.%d: "
                      "negotiated 0x%04x %s (authentication %s) but %s"
                      % (default, extra, sigs, v[0], v[1], s, name, sem["auth"], "; ".join(problems)),
                      {"stage": "vhost", "parameter": "authentication-key-type", "default": default, "extra": extra,
                       "client_sigs": sigs, "version": list(v), "suite": s, "name": name, "certAlg": certalg,
                       "ske_sigalg": list(sigalg) if sigalg else None})
        return True
    return False


def vhost_part(ctx):
    kinds = ["rsa", "ecdsa", "ed25519", "dsa"] + (["rsa-pss"] if ctx.thorough() else [])
    versions = [(3, 3)] + ([(3, 1), (3, 2)] if ctx.thorough() else [(3, 1)])
    stats = {}
    for v in versions:
        for default in kinds:
            for extra in kinds:
                if extra == default:
                    continue
                for sigs in sorted(CLIENT_SIGS):
                    if v < (3, 3) and sigs != "any":
                        continue        # signature_algorithms exists from TLS 1.2 on
                    res = vhost_case(default, extra, sigs, v)
                    ctx.case(key=("vhost", default, extra, sigs, v),
                             sample={"default": default, "extra": extra, "client_sigs": sigs, "version": list(v), "result": list(res)}
                             if (default, extra, sigs) == ("rsa", "ecdsa", "ecdsa-only") else None)
                    stats[res[0]] = stats.get(res[0], 0) + 1
                    ctx.count("vhost:" + res[0])
                    vhost_check(ctx, default, extra, sigs, v, res)
    ctx.extra["vhost_scenarios"] = stats


# ----------------------------------------------------------------------------------------------
# resumption: a cached session / ticket must not carry its suite into a version that does not define it
# ----------------------------------------------------------------------------------------------

def parse_client_hello(msg):
    """genuine ClientHello message -> dict of its parts (extensions as [(type, data)], None when absent)"""
    p = 4
    ver = msg[p:p + 2]; p += 2
    rnd = msg[p:p + 32]; p += 32
    n = msg[p]; sid = msg[p + 1:p + 1 + n]; p += 1 + n
    n = (msg[p] << 8) | msg[p + 1]; suites = msg[p + 2:p + 2 + n]; p += 2 + n
    n = msg[p]; comp = msg[p + 1:p + 1 + n]; p += 1 + n
    exts = None
    if p < len(msg):
        n = (msg[p] << 8) | msg[p + 1]
        q, end = p + 2, p + 2 + n
        exts = []
        while q + 4 <= end:
            t = (msg[q] << 8) | msg[q + 1]
            ln = (msg[q + 2] << 8) | msg[q + 3]
            exts.append((t, msg[q + 4:q + 4 + ln]))
            q += 4 + ln
    return {"ver": ver, "random": rnd, "sid": sid, "suites": suites, "comp": comp, "exts": exts}


def build_client_hello(d):
    body = d["ver"] + d["random"] + bytes([len(d["sid"])]) + d["sid"] + \
        bytes([len(d["suites"]) >> 8, len(d["suites"]) & 0xff]) + d["suites"] + bytes([len(d["comp"])]) + d["comp"]
    if d["exts"] is not None:
        e = b"".join(bytes([t >> 8, t & 0xff, len(x) >> 8, len(x) & 0xff]) + x for t, x in d["exts"])
        body += bytes([len(e) >> 8, len(e) & 0xff]) + e
    return bytes([1, len(body) >> 16, (len(body) >> 8) & 0xff, len(body) & 0xff]) + body


def parse_server_hello(msg):
    """-> (negotiated version, suite, session id)"""
    ver = (msg[4], msg[5])
    n = msg[38]
    sid = bytes(msg[39:39 + n])
    p = 39 + n
    suite = (msg[p] << 8) | msg[p + 1]
    p += 3
    if p + 2 <= len(msg):
        end = p + 2 + ((msg[p] << 8) | msg[p + 1])
        q = p + 2
        while q + 4 <= end:
            t = (msg[q] << 8) | msg[q + 1]
            ln = (msg[q + 2] << 8) | msg[q + 3]
            if t == 43 and ln == 2:
                ver = (msg[q + 4], msg[q + 5])
            q += 4 + ln
    return ver, suite, sid


def suite_lab_settings(sem, v):
    """(client kind, credential kind, settings restricted to the suite's own names) as in live_one"""
    st = full_settings(v, v)
    st.cipherNames = [CIPHER_NAME[(sem["cipher"], sem["mode"], sem["keyLen"])]]
    st.macNames = ["aead" if sem["mac"] is None else MAC_NAME[sem["mac"]]]
    st.keyExchangeNames = [KEX_NAME[(sem["kex"], sem["auth"])]]
    kind = "srp" if sem["kex"] == "srp" else ("anon" if sem["auth"] == "anon" else "cert")
    cred = {"rsa": "rsa", "ecdsa": "ecdsa", "dss": "dsa"}.get(sem["auth"])
    return kind, cred, st


def drive_pair(gc, gs, limit=20000):
    done = [False, False]
    for _ in range(limit):
        for i, g in enumerate((gc, gs)):
            if not done[i]:
                try:
                    next(g)
                except StopIteration:
                    done[i] = True
        if all(done):
            return True
    return False


def server_gen(srv, kind, cred, st, cache):
    kw = {"settings": st}
    if cache is not None:
        kw["sessionCache"] = cache
    c = creds(cred) if cred else None
    if c:
        kw.update(certChain=c[0], privateKey=c[1])
    if kind == "srp":
        kw["verifierDB"] = verifier_db()
    elif kind == "anon":
        kw["anon"] = True
    return srv.handshakeServerAsync(**kw)


def resumption_case(s, sem, v0, v, mode, ticket_key):
    """session for suite s made at version v0 (server with SessionCache / ticket keys); then a ClientHello
    of version v carrying that session id / ticket and offering s (+ the client's own suites for v).
    -> dict(status, version, suite, resumed) ; status 'hello' | 'alert:<n>' | 'error:<what>' | 'skipped:<why>'"""
    from tlslite.tlsconnection import TLSConnection
    from tlslite.sessioncache import SessionCache
    kind, cred, st0 = suite_lab_settings(sem, v0)
    if cred and creds(cred) is None:
        return {"status": "skipped:no-credentials"}
    cache = SessionCache() if mode == "cache" else None
    sst = full_settings((3, 0), (3, 4))
    if mode == "ticket":
        sst.ticketKeys = [bytearray(ticket_key)]
        sst.ticket_count = 1
    # --- the original connection
    c0, g0, a0, b0 = start_client(kind, st0)
    srv0 = TLSConnection(MemSock(a0, b0))
    try:
        if not drive_pair(g0, server_gen(srv0, kind, cred, sst, cache)):
            return {"status": "skipped:first-handshake-stalled"}
    except Exception as e:
        return {"status": "skipped:first-handshake-" + exc_name(e)}
    if c0.session.cipherSuite != s or tuple(c0.version) != v0:
        return {"status": "skipped:first-handshake-other-suite"}
    if mode == "cache":
        token = bytes(c0.session.sessionID)
        if not token:
            return {"status": "skipped:no-session-id"}
    else:
        # the NewSessionTicket arrives with the server's Finished flight; make sure it was read
        tk = list(c0.session.tls_1_0_tickets or []) or list(getattr(c0, "tls_1_0_tickets", []) or [])
        if not tk:
            return {"status": "skipped:no-ticket"}
        token = bytes(tk[0].ticket)
    # --- a genuine ClientHello for version v, edited to carry the session
    kind_v = kind if v <= (3, 3) else "cert"
    c1, g1, a1, b1 = start_client(kind_v, full_settings(v, v))
    if step_until_blocked(g1, b1) != "blocked":
        return {"status": "error:no-client-hello"}
    ch = first_handshake_msg(a1.log, 1)
    if ch is None:
        return {"status": "error:no-client-hello"}
    d = parse_client_hello(ch[1])
    own = d["suites"]
    d["suites"] = bytes([s >> 8, s & 0xff]) + own
    if mode == "cache":
        d["sid"] = token
    else:
        if d["exts"] is None:
            return {"status": "skipped:no-extensions-in-this-version"}
        d["sid"] = bytes(range(32))
        d["exts"] = [(t, x) for t, x in d["exts"] if t != 35] + [(35, token)]
        # pre_shared_key, if any, has to stay last
        d["exts"].sort(key=lambda e: e[0] == 41)
    a2, b2 = Pipe(), Pipe()
    srv1 = TLSConnection(MemSock(a2, b2))
    a2.buf += record(ch[0], build_client_hello(d))
    r = step_until_blocked(server_gen(srv1, kind_v, cred or ("rsa" if kind_v == "cert" else None), sst, cache), a2)
    sh = first_handshake_msg(b2.log, 2)
    if sh is None:
        if isinstance(r, tuple):
            return {"status": "%s:%s" % r}
        return {"status": "error:%s-without-hello" % r}
    ver, suite, sid = parse_server_hello(sh[1])
    # abbreviated handshake: the server's next record after the hello flight is ChangeCipherSpec
    recs = app_records(b2.log, 0)
    resumed = sid == d["sid"] and len(recs) >= 2 and recs[1][0] == 20 and ver <= (3, 3)
    return {"status": "hello", "version": ver, "suite": suite, "resumed": resumed}


def resumption_honest(s, sem, v0, span, mode, ticket_key):
    """the same, with an ordinary tlslite client that is handed the old session and a different version
    range.  -> dict(status, version, suite, completed) taken from the ServerHello on the wire"""
    from tlslite.tlsconnection import TLSConnection
    from tlslite.sessioncache import SessionCache
    kind, cred, st0 = suite_lab_settings(sem, v0)
    if cred and creds(cred) is None:
        return {"status": "skipped:no-credentials"}
    cache = SessionCache() if mode == "cache" else None
    sst = full_settings((3, 0), (3, 4))
    if mode == "ticket":
        sst.ticketKeys = [bytearray(ticket_key)]
        sst.ticket_count = 1
    c0, g0, a0, b0 = start_client(kind, st0)
    srv0 = TLSConnection(MemSock(a0, b0))
    try:
        if not drive_pair(g0, server_gen(srv0, kind, cred, sst, cache)):
            return {"status": "skipped:first-handshake-stalled"}
    except Exception as e:
        return {"status": "skipped:first-handshake-" + exc_name(e)}
    if c0.session.cipherSuite != s:
        return {"status": "skipped:first-handshake-other-suite"}
    a, b = Pipe(), Pipe()
    c1 = TLSConnection(MemSock(b, a))
    srv1 = TLSConnection(MemSock(a, b))
    st1 = full_settings(*span)
    try:
        if kind == "srp":
            g1 = c1.handshakeClientSRP("user", "password", session=c0.session, settings=st1, async_=True)
        elif kind == "anon":
            g1 = c1.handshakeClientAnonymous(session=c0.session, settings=st1, async_=True)
        else:
            g1 = c1.handshakeClientCert(session=c0.session, settings=st1, async_=True)
        gs = server_gen(srv1, kind, cred, sst, cache)
        done = {"client": None, "server": None}
        gens = {"client": g1, "server": gs}
        for _ in range(20000):
            for side in ("client", "server"):
                if done[side] is None:
                    try:
                        next(gens[side])
                    except StopIteration:
                        done[side] = "completed"
                    except Exception as e:
                        done[side] = exc_name(e)
            if all(done.values()) or (any(done.values()) and not a.buf and not b.buf):
                break
    except ValueError as e:
        return {"status": "skipped:client-refuses-session"}
    sh = first_handshake_msg(b.log, 2)
    if sh is None:
        return {"status": "no-hello", "client": done["client"], "server": done["server"]}
    ver, suite, sid = parse_server_hello(sh[1])
    return {"status": "hello", "version": ver, "suite": suite, "client": done["client"], "server": done["server"],
            "resumed": bool(getattr(c1, "resumed", False)) if done["client"] == "completed" else False}


def resumption_part(ctx, neg):
    from tlslite.constants import CipherSuite as C
    names = dict(C.ietfNames)
    lc = ctx.lean()
    mac, ciph, kex = vocab()
    t0 = time.time()
    ticket_key = bytes(ctx.rng.getrandbits(8) for _ in range(32))
    suites = sorted(set(x for (role, v), ss in neg.items() if v <= (3, 3) for x in ss))
    if not ctx.thorough():
        # quick: every suite that is defined from TLS 1.2 on, and a third of the older ones
        old = [x for x in suites if parse_iana(names[x]) and parse_iana(names[x])["minMinor"] < 3]
        ctx.rng.shuffle(old)
        suites = sorted(set(suites) - set(old[len(old) // 3:]))
    stats = {}
    pending = []
    for s in suites:
        sem = parse_iana(names.get(s, ""))
        if sem is None or spec_obs(sem, (3, 3)) is None:
            continue
        v0 = (3, 3)
        for mode in ("cache", "ticket"):
            for v in VERSIONS:
                if v == v0:
                    if mode == "ticket" and s % 4:      # the control (same version) for a quarter of them
                        continue
                res = resumption_case(s, sem, v0, v, mode, ticket_key)
                case = {"stage": "resumption", "suite": s, "name": names[s], "made_in": list(v0), "offered_in": list(v),
                        "mode": mode, "ticket_key": ticket_key.hex()}
                key = res["status"].split(":")[0]
                if res["status"] == "hello":
                    key = "resumed" if res["resumed"] else "full-handshake"
                stats[key] = stats.get(key, 0) + 1
                ctx.count("resumption:%s:%s" % (mode, key))
                ctx.case(key=("resume", s, v, mode), sample=dict(case, result={k: (list(x) if isinstance(x, tuple) else x)
                                                                             for k, x in res.items()})
                         if (s == 0x003c and v in ((3, 2), (3, 3))) else None)
                if res["status"] != "hello":
                    continue
                ver, got = tuple(res["version"]), res["suite"]
                gsem = parse_iana(names.get(got, ""))
                if gsem is None or not defined_in(gsem, ver):
                    ctx.violation("c20:resumption-suite-in-undefined-version",
                                  "session with 0x%04x %s made in %d.%d (%s), offered again in a %d.%d ClientHello: the server "
                                  "answers with version %d.%d and suite 0x%04x %s%s, which that version does not define"
                                  % (s, names[s], v0[0], v0[1], mode, v[0], v[1], ver[0], ver[1], got, names.get(got),
                                     " (abbreviated handshake)" if res["resumed"] else ""),
                                  dict(case, parameter="resumption", answered_version=list(ver), answered_suite=got))
                pending.append((case, res, "resok %d %d %d %s %s %s" % (ver[0], ver[1], s, names_arg(mac), names_arg(ciph),
                                                                        names_arg(kex))))
    # ordinary client re-using the session with a raised / lowered version range
    for s in suites:
        sem = parse_iana(names.get(s, ""))
        if sem is None or spec_obs(sem, (3, 3)) is None:
            continue
        if not ctx.thorough() and sem["minMinor"] < 3 and s % 2:
            continue
        for mode in ("cache", "ticket"):
            for span in (((3, 3), (3, 4)), ((3, 1), (3, 2)), ((3, 0), (3, 3))):
                if mode == "ticket" and span != ((3, 3), (3, 4)) and s % 3:
                    continue
                res = resumption_honest(s, sem, (3, 3), span, mode, ticket_key)
                case = {"stage": "resumption-honest", "suite": s, "name": names[s], "made_in": [3, 3], "mode": mode,
                        "span": [list(span[0]), list(span[1])], "ticket_key": ticket_key.hex()}
                key = res["status"].split(":")[0]
                if res["status"] == "hello":
                    key = "resumed" if res["resumed"] else ("completed" if res["client"] == "completed" else "hello-then-abort")
                ctx.count("resumption-honest:%s:%s" % (mode, key))
                stats["honest-" + key] = stats.get("honest-" + key, 0) + 1
                ctx.case(key=("resume-honest", s, span, mode), sample=None)
                if res["status"] != "hello":
                    continue
                ver, got = tuple(res["version"]), res["suite"]
                gsem = parse_iana(names.get(got, ""))
                if gsem is None or not defined_in(gsem, ver):
                    ctx.violation("c20:resumption-suite-in-undefined-version",
                                  "client re-using its %d.%d session with 0x%04x %s (%s) while allowing %d.%d..%d.%d: the server's "
                                  "ServerHello says version %d.%d with suite 0x%04x %s, which that version does not define "
                                  "(client: %s, server: %s)"
                                  % (3, 3, s, names[s], mode, span[0][0], span[0][1], span[1][0], span[1][1], ver[0], ver[1], got,
                                     names.get(got), res["client"], res["server"]),
                                  dict(case, parameter="resumption", answered_version=list(ver), answered_suite=got))
    if lc is not None and pending:
        out = lc.batch([p[2] for p in pending])
        for (case, res, line), m in zip(pending, out):
            ctx.compared()
            # the model's check is necessary for resumption (other conditions may still prevent it)
            if res["resumed"] and res["suite"] == case["suite"] and m != "1":
                ctx.disagree("server-resumption-suite-check", dict(case, request=line), "not resumable (%s)" % m, "resumed")
    ctx.extra["resumption"] = dict(stats, wall_s=round(time.time() - t0, 1))


def run(ctx):
    ctx.rule = ("exhaustive: every identifier in ietfNames or any classification list (+8 unknown ids) x every mirrored function; "
                "filterForVersion over all (min,max) pairs; filter_for_certificate over all certificate algorithms; every "
                "get*Suites and _filterSuites over all-enabled / one-name-removed / one-name-only / default / seeded random "
                "settings x 5 versions; every negotiable suite x version x role: implementation parameters vs Lean model vs "
                "Lean spec vs Python spec; live loopback handshake for every negotiable suite x version; faulty peers: every known suite id "
                "put into a genuine ServerHello for every version x client kind/version span (client must reject what the version "
                "does not define), a consistent misbehaving server run to completion, and every suite offered alone in a genuine "
                "ClientHello of every version (server must not select what the version does not define); TLS 1.3: one KeyUpdate each way "
                "with independently derived next-generation secrets/keys; servers with a default + a virtual-host credential "
                "(RSA/ECDSA/Ed25519/DSA pairs) x client signature-algorithm restrictions; resumption: sessions (SessionCache and "
                "RFC 5077 tickets) made in TLS 1.2 and offered again in every version by an edited ClientHello and by an ordinary "
                "client with a raised / lowered version range; distinct = distinct (stream, suite, version, role, settings)")
    ctx.assumptions = ["the independent Python reading parse_iana/spec_obs in harness/props/c20.py states what a registered name denotes",
                       "pure-python cipher implementations (no m2crypto/pycrypto in this environment)",
                       "test credentials of /repo/tests (RSA, ECDSA P-256, DSA); SRP verifier generated on the fly"]
    neg, statics = static_part(ctx)
    live_part(ctx, neg, ctx.pick(45, 600))
    faulty_peer_part(ctx, neg)
    vhost_part(ctx)
    resumption_part(ctx, neg)


def replay(ctx, rep):
    from tlslite.constants import CipherSuite as C
    inp = rep["input"]
    s = inp.get("suite")
    first = inp.get("first") or {}
    if inp.get("stage") == "correspondence" and first.get("stream") == "live-handshake":
        # a negotiable suite whose handshake (settings derived from its own name) did not complete
        cs = first["case"]
        s, v, name = cs["suite"], tuple(cs["version"]), cs["name"]
        status, obs = live_one(ctx, s, v, name, parse_iana(name))
        print("live handshake 0x%04x %s in %d.%d: %s" % (s, name, v[0], v[1], status))
        return status != "ok"
    if inp.get("stage") == "resumption":
        name = C.ietfNames.get(s)
        sem = parse_iana(name)
        res = resumption_case(s, sem, tuple(inp["made_in"]), tuple(inp["offered_in"]), inp["mode"],
                              bytes.fromhex(inp["ticket_key"]))
        print("session 0x%04x %s made in %s (%s), offered in %s: %s" % (s, name, inp["made_in"], inp["mode"], inp["offered_in"], res))
        if res["status"] != "hello":
            return False
        gsem = parse_iana(C.ietfNames.get(res["suite"], ""))
        return gsem is None or not defined_in(gsem, tuple(res["version"]))
    if inp.get("stage") == "resumption-honest":
        name = C.ietfNames.get(s)
        sem = parse_iana(name)
        span = (tuple(inp["span"][0]), tuple(inp["span"][1]))
        res = resumption_honest(s, sem, tuple(inp["made_in"]), span, inp["mode"], bytes.fromhex(inp["ticket_key"]))
        print("session 0x%04x %s made in %s (%s), client now allows %s..%s: %s" % (s, name, inp["made_in"], inp["mode"], span[0], span[1], res))
        if res["status"] != "hello":
            return False
        gsem = parse_iana(C.ietfNames.get(res["suite"], ""))
        return gsem is None or not defined_in(gsem, tuple(res["version"]))
    if inp.get("stage") == "vhost":
        v = tuple(inp["version"])
        res = vhost_case(inp["default"], inp["extra"], inp["client_sigs"], v)
        print("server default=%s vhost=%s, client sigs=%s, %s: %s" % (inp["default"], inp["extra"], inp["client_sigs"], v, res))
        if res[0] == "ok":
            print("  suite 0x%04x %s; certificate presented: %s; ServerKeyExchange signature: %s"
                  % (res[1], C.ietfNames.get(res[1]), res[2], res[3]))
        return vhost_check(ctx, inp["default"], inp["extra"], inp["client_sigs"], v, res)
    if inp.get("stage") == "kex-chain":
        role = inp["role"]
        name = C.ietfNames.get(s)
        sem = parse_iana(name) if name else None
        want = spec_obs(sem, (3, 3)) if sem else None
        got = chain_kexinfo(role, s, (3, 3))
        exp = {k: want[k] for k in ("kex", "certified", "ske")} if want else None
        print("%s chain for 0x%04x %s: %s; name denotes %s" % (role, s, name, got, exp))
        vs = [v for v in VERSIONS[:4] if sem and defined_in(sem, v)]
        if vs and want:
            status, obs = live_one(ctx, s, vs[-1], name, sem)
            print("live handshake in %d.%d: %s" % (vs[-1][0], vs[-1][1], status))
        return got != exp
    if inp.get("stage") == "faulty-server":
        span = (tuple(inp["span"][0]), tuple(inp["span"][1]))
        v = tuple(inp["version"])
        dec, offered = client_guard_case(inp["client"], span, v, s)
        name = C.ietfNames.get(s)
        sem = parse_iana(name) if name else None
        undef = sem is None or not defined_in(sem, v)
        print("client %s offering %s..%s, ServerHello negotiating %s with 0x%04x %s: %s (suite defined for that version: %s)"
              % (inp["client"], span[0], span[1], v, s, name, dec, not undef))
        cred = {"rsa": "rsa", "ecdsa": "ecdsa", "dss": "dsa"}.get(sem["auth"], "rsa") if sem else "rsa"
        full = faulty_server_full(inp["client"], span, v, s, cred)
        print("consistent misbehaving server: client %s, server %s, application data delivered: %s" % full[:3])
        return undef and (dec == "accept" or full[0] == "completed")
    if inp.get("stage") == "faulty-client":
        v = tuple(inp["version"])
        name = C.ietfNames.get(s)
        sem = parse_iana(name) if name else None
        dec = server_guard_case(v, s, sem)
        print("server, ClientHello for %s offering only 0x%04x %s: %s" % (v, s, name, dec))
        return dec.startswith("select:") and (dec != "select:%d" % s or sem is None or not defined_in(sem, v))
    if s is None or inp.get("stage") not in ("oracle", "live"):
        print("replay of stage %r: re-running the whole check" % inp.get("stage"))
        run(ctx)
        return bool(ctx.violations or ctx.disagreements)
    name = C.ietfNames.get(s)
    par = inp.get("parameter")
    print("suite 0x%04x %s, parameter %s" % (s, name, par))
    if par in ("excluded-mac", "excluded-cipher", "excluded-kex"):
        mac, ciph, kex = vocab()
        ex = inp["excluded"]
        st = FullSettings([m for m in mac if m != ex or par != "excluded-mac"],
                          [c for c in ciph if c != ex or par != "excluded-cipher"],
                          [k for k in kex if k != ex or par != "excluded-kex"])
        out = getattr(C, inp["getter"])(st, tuple(inp["version"]))
        print("%s without %r -> contains suite: %s" % (inp["getter"], ex, s in out))
        return s in out
    v = tuple(inp["version"])
    sem = parse_iana(name) if name else None
    if inp.get("stage") == "live" and sem is not None and spec_obs(sem, v) is not None:
        status, obs = live_one(ctx, s, v, name, sem)
        print("live handshake:", status)
        if status == "ok":
            check_live(ctx, s, v, name, sem, obs)
        for vv in ctx.violations:
            print("  " + vv["what"])
        return bool(ctx.violations) or status.startswith("failed")
    want = spec_obs(sem, v)
    got = impl_obs(s, v)
    print("implementation:", obs_render(got))
    print("name denotes:  ", obs_render(want))
    if par == "refused-in-defining-version":
        adm = s in C.filterForVersion([s], v, v)
        print("filterForVersion admits it to %d.%d: %s; defined there: %s" % (v[0], v[1], adm, bool(sem and defined_in(sem, v))))
        return (not adm) and bool(sem and defined_in(sem, v))
    if par == "version" or par == "version-filter":
        adm = s in C.filterForVersion([s], v, v)
        print("filterForVersion admits it to %d.%d: %s; defined there: %s" % (v[0], v[1], adm, bool(sem and defined_in(sem, v))))
        return adm and not (sem and defined_in(sem, v))
    if par == "min-version":
        vs = [x for x in VERSIONS if s in impl_negotiable(inp["role"], x)]
        wantv = [x for x in VERSIONS if sem and defined_in(sem, x)]
        print("negotiable in", vs, "defined in", wantv)
        return bool(vs) and (not wantv or min(vs) != min(wantv))
    if got is None or want is None:
        return True
    return any(got[f] != "?" and got[f] != want[f] for f in OBS_FIELDS)
