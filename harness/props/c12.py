"""C12 — the CBC MAC-and-padding check accepts exactly the well-formed records.

Theorems: lean/Props/C12.lean (cbcCheck = wellFormed for every input; sender's bodies are
well formed; stripping returns the fragment; decomposition of accepted bodies; gen_*: the
functions regenerated from constanttime.py by translate/gen_ct.py compute the hand model).
Tie: (1) regeneration - TlsModel/Gen/CT.lean is re-translated from the tree under check on every
run and Gen.f = model is proved for all inputs; (2) correspondence of Tls.CT.cbcCheck with
ct_check_cbc_mac_and_pad on real hmac / MAC_SSL objects (the tags enter the model as a table
computed here with the real object), of addPadding / strip with RecordLayer, of the helper
models with the helpers, and of the Python-int model Tls.Py with the interpreter.
Oracle: an independent plain specification in Python (whole check and each ct_* helper).
"""
import hashlib
import hmac as pyhmac

from ..leanclient import hx

TRANSLATORS = ["ct"]

MANIFEST = {
    "text": "Proof: Tls.CT.cbcCheck (statement-by-statement Lean model of ct_check_cbc_mac_and_pad, abstract incremental MAC) is "
            "proved equal to the plain specification wellFormed for every body, MAC, sequence number, type, version and block size "
            "(cbcCheck_eq_wellFormed); every body the sender builds is well formed and stripped back to the fragment "
            "(wellFormed_macThenPad, cbcCheck_macThenPad, stripPadMac_macThenPad); accepted bodies decompose into fragment++MAC++pad "
            "(cbcCheck_accept_decomp). Tie: (1) translate/gen_ct.py re-translates ct_lt/gt/le/eq/neq/isnonzero_u32, ct_lsb_prop_u8/u16 and "
            "ct_check_cbc_mac_and_pad statement by statement from the Python AST of the tree under check into Lean (Tls.CT.Gen over the "
            "Python-int model Tls.Py; anything not understood is poison) and Gen.f = hand model is proved for all inputs (gen_*_eq, "
            "gen_ct_check_cbc_mac_and_pad_eq, gen_cbcCheck_eq_wellFormed), so the theorems hold of the source text as it is now; "
            "(2) the hand-written model is also checked by correspondence against the real function with real "
            "HMAC/MAC_SSL objects over boundary lengths, all 256 pad bytes, single-byte corruptions, the no-fit region and window edges, "
            "plus an independent Python specification as direct oracle (whole check and every ct_* helper against its docstring) "
            "and RecordLayer._decryptThenMAC/addPadding runs.",
    "note": "Trusted: Lean kernel (axioms propext, Classical.choice, Quot.sound), the translator translate/gen_ct.py and the "
            "Python-runtime model TlsModel/PyInt.lean (its int operations are compared with the interpreter on every run), "
            "the correspondence harness, hashlib; the MAC is an "
            "arbitrary function of the accumulated bytes with fixed output length. SSLv3 'at most one block' is read as pad byte <= block size. "
            "Record bodies of 2^16 bytes and more (where the source raises ValueError) are outside gen_*; "
            "timing behaviour is not modelled.",
    "technique": "Lean 4 proof of model = specification for all inputs; model regenerated from the source AST and proved equal to the "
                 "hand model; differential correspondence model vs implementation; spec oracle",
}

VERSIONS = [(3, 0), (3, 1), (3, 2), (3, 3)]
HASHES = ["md5", "sha1", "sha256", "sha384"]


def make_mac(key, hname, ver):
    from tlslite.mathtls import createMAC_SSL, createHMAC
    from tlslite.utils import tlshashlib   # the digestmod objects the record layer itself passes
    if ver == (3, 0):
        if hname not in ("md5", "sha1"):
            hname = "sha1"
        return createMAC_SSL(key, digestmod=getattr(tlshashlib, hname)), hname
    return createHMAC(key, digestmod=getattr(tlshashlib, hname)), hname


def ref_tag(key, hname, ver, msg):
    """independent MAC reference straight from RFC 2104 / the SSLv3 spec"""
    h = getattr(hashlib, hname)
    if ver == (3, 0):
        n = 48 if hname == "md5" else 40
        inner = h(key + b"\x36" * n + msg).digest()
        return h(key + b"\x5c" * n + inner).digest()
    return pyhmac.new(key, msg, h).digest()


def header(seq, ct, ver, n):
    v = b"" if ver == (3, 0) else bytes(ver)
    return bytes(seq) + bytes([ct]) + v + bytes([(n >> 8) & 0xff, n & 0xff])


def spec_well_formed(data, key, hname, seq, ct, ver, bs):
    """the plain specification of C12 (not constant time, not the code's structure)"""
    L = len(data)
    dl = getattr(hashlib, hname)().digest_size
    if L == 0:
        return False
    p = data[-1]
    if p + 1 + dl > L:
        return False
    if ver == (3, 0):
        if p > bs:
            return False
    else:
        if any(b != p for b in data[L - p - 1:]):
            return False
    n = L - p - 1 - dl
    return bytes(data[n:n + dl]) == ref_tag(key, hname, ver, header(seq, ct, ver, n) + bytes(data[:n]))


def build_body(frag, key, hname, seq, ct, ver, bs, padlen=None):
    """independent sender: fragment ++ MAC ++ padding"""
    tag = ref_tag(key, hname, ver, header(seq, ct, ver, len(frag)) + bytes(frag))
    body = bytes(frag) + tag
    if padlen is None:
        padlen = bs - 1 - (len(body) % bs)
    return body + bytes([padlen]) * (padlen + 1)


def lean_line(op, data, key, hname, seq, ct, ver, bs):
    mac, hname = make_mac(key, hname, ver)
    dl = mac.digest_size
    L = len(data)
    p = data[-1] if L else 0
    n = max(0, max(0, L - p - 1) - dl)
    hdr = header(seq, ct, ver, n)
    table = []
    base = mac.copy()
    base.update(hdr)
    for i in range(0, max(0, L - dl) + 1):
        c = base.copy()
        c.update(bytes(data[:i]))
        table.append(bytes(c.digest()).hex())
    return "%s %d %d %d %d %d %s %d %s %s" % (op, ver[0], ver[1], bs, dl, mac.block_size, hx(seq), ct,
                                              hx(data), ",".join(table) if table else "-")


def lean_lines(ops, *a):
    """the same request under several ops (the MAC table is computed once)"""
    first = lean_line(ops[0], *a)
    rest = first[len(ops[0]):]
    return [first] + [o + rest for o in ops[1:]]


def impl_check(data, key, hname, seq, ct, ver, bs):
    from tlslite.utils.constanttime import ct_check_cbc_mac_and_pad
    mac, hname = make_mac(key, hname, ver)
    return bool(ct_check_cbc_mac_and_pad(bytearray(data), mac, bytearray(seq), ct, ver, bs))


def one_case(ctx, pending, kind, data, key, hname, seq, ct, ver, bs):
    if ver == (3, 0) and hname not in ("md5", "sha1"):
        hname = "sha1"
    data = bytes(data)
    case = {"kind": kind, "data": data.hex(), "key": key.hex(), "hash": hname, "seq": bytes(seq).hex(),
            "ct": ct, "ver": list(ver), "bs": bs}
    try:
        impl = impl_check(data, key, hname, seq, ct, ver, bs)
    except Exception as e:  # the check must be total on byte strings
        impl = "exception:" + type(e).__name__
    spec = spec_well_formed(data, key, hname, seq, ct, ver, bs)
    ctx.count("kind:" + kind)
    ctx.count("ver:%d.%d" % ver)
    ctx.count("hash:" + hname)
    ctx.count("result:" + str(spec))
    ctx.case(key=("c", data, key, hname, bytes(seq), ct, ver, bs), nontrivial=len(data) > 0,
             sample=dict(case, impl=impl, spec=spec) if ctx.evaluations % 997 == 0 else None)
    if impl != spec:
        cls = "accept-outside-spec" if impl is True else ("reject-wellformed" if impl is False else "exception")
        if impl is True:
            L = len(data)
            dl = getattr(hashlib, hname)().digest_size
            if data[-1] + 1 + dl > L:
                cls = "accept-mac-overlapping-padding"
        ctx.violation("c12:" + cls, "ct_check_cbc_mac_and_pad returned %s, specification says %s (%s, len %d, %s, version %s)"
                      % (impl, spec, kind, len(data), hname, ver), dict(case, impl=impl, spec=spec, stage="oracle"))
    l1, l2 = lean_lines(["cbc", "wf"], data, key, hname, seq, ct, ver, bs)
    pending.append((case, impl, l1, l2, spec))


def flush(ctx, pending):
    lc = ctx.lean()
    if lc is None or not pending:
        del pending[:]
        return
    lines = []
    for case, impl, l1, l2, spec in pending:
        lines.append(l1)
        lines.append(l2)
    out = lc.batch(lines)
    for k, (case, impl, l1, l2, spec) in enumerate(pending):
        m = out[2 * k]
        w = out[2 * k + 1]
        ctx.compared()
        if m != str(impl).lower():
            ctx.disagree("cbcCheck", case, m, impl)
        if w != str(spec).lower():
            ctx.disagree("wellFormed-vs-python-spec", case, w, spec)
    del pending[:]


def gen_cases(ctx):
    """yield (kind, data, key, hname, seq, ct, ver, bs)"""
    rng = ctx.rng
    thorough = ctx.thorough()

    def rb(n):
        return bytes(rng.getrandbits(8) for _ in range(n))

    if thorough:
        frag_lens = list(range(0, 80)) + list(range(200, 330)) + [400, 511, 512, 513, 600, 1000, 16384]
    else:
        frag_lens = [0, 1, 2, 7, 15, 16, 17, 31, 32, 33, 47, 48, 63, 64, 65, 100, 200, 215, 216, 217, 231, 232,
                     233, 255, 256, 257, 271, 272, 287, 288, 289, 300, 320, 512]
    for ver in VERSIONS:
        for hname in (["md5", "sha1"] if ver == (3, 0) else HASHES):
            dl = getattr(hashlib, hname)().digest_size
            for bs in (8, 16):
                key = rb(dl)
                seq = rb(8)
                ct = rng.choice([20, 21, 22, 23, 24])
                # honest bodies of every listed length, sender's own padding
                for fl in frag_lens:
                    frag = rb(fl)
                    body = build_body(frag, key, hname, seq, ct, ver, bs)
                    yield ("honest", body, key, hname, seq, ct, ver, bs)
                # every padding-length byte on a few fragments
                pads = range(256) if (thorough or (ver == (3, 3) and hname == "sha1" and bs == 16)) else \
                    [0, 1, 7, 8, 9, 15, 16, 17, 31, 127, 128, 200, 239, 240, 254, 255]
                for p in pads:
                    for fl in ([0, 1, 13, 300] if thorough else [0, 5]):
                        frag = rb(fl)
                        body = build_body(frag, key, hname, seq, ct, ver, bs, padlen=p)
                        yield ("anypad", body, key, hname, seq, ct, ver, bs)
                # single byte corruptions of MAC, padding, data (each position on short bodies)
                for fl, p in ([(0, 0), (3, 5), (20, 15), (40, 255)] if thorough else [(3, 5), (10, 255)]):
                    frag = rb(fl)
                    body = bytearray(build_body(frag, key, hname, seq, ct, ver, bs, padlen=p))
                    positions = range(len(body)) if (thorough or len(body) < 60) else \
                        sorted(set(list(range(0, fl + dl + 2)) + list(range(len(body) - 3, len(body))) +
                                   [rng.randrange(len(body)) for _ in range(10)]))
                    for pos in positions:
                        b2 = bytearray(body)
                        b2[pos] ^= rng.choice([1, 0x80, 0xff, rng.randrange(1, 256)])
                        yield ("corrupt1", bytes(b2), key, hname, seq, ct, ver, bs)
                # wrong header fields
                frag = rb(9)
                body = build_body(frag, key, hname, seq, ct, ver, bs)
                yield ("wrongseq", body, key, hname, bytes([seq[0] ^ 1]) + seq[1:], ct, ver, bs)
                yield ("wrongtype", body, key, hname, seq, ct ^ 1, ver, bs)
                yield ("wrongkey", body, bytes([key[0] ^ 1]) + key[1:], hname, seq, ct, ver, bs)
                # the region where padding + MAC do not fit: MAC of the empty fragment followed by
                # padding that overlaps it, and all-equal short bodies
                tag0 = ref_tag(key, hname, ver, header(seq, ct, ver, 0))
                p = tag0[-1]
                yield ("overlap", tag0 + bytes([p]) * p if p else tag0 + b"\x00", key, hname, seq, ct, ver, bs)
                for cut in (1, 2, dl - 1):
                    pp = tag0[dl - cut - 1] if dl - cut - 1 >= 0 else 0
                    yield ("overlap", tag0[:dl - cut] + bytes([pp]) * (cut + 1), key, hname, seq, ct, ver, bs)
                for L in (dl - 1, dl, dl + 1, dl + 2, 2 * dl):
                    for v in (0, 1, L - 1 if L > 0 else 0, 255):
                        yield ("short-const", bytes([v & 0xff]) * max(L, 0), key, hname, seq, ct, ver, bs)
                # padding length byte pointing at or before the start of the body (pad_start would be
                # negative without the clamp): MAC of the empty fragment, arbitrary junk, length byte
                for junk_len in (0, 1, 2, 7, 20, 60):
                    total = dl + junk_len + 1
                    if total > 255:
                        continue
                    for lb in sorted(set([total - 2, total - 1, total, total + 1, 200, 254, 255])):
                        if 0 <= lb <= 255:
                            yield ("beyond-start", tag0 + rb(junk_len) + bytes([lb]), key, hname, seq, ct, ver, bs)
                            yield ("beyond-start", tag0 + bytes([lb]) * junk_len + bytes([lb]), key, hname, seq, ct, ver, bs)
                # window edges: bodies around 256 / 256+dlen with maximal padding
                for L in (255, 256, 257, 256 + dl - 1, 256 + dl, 256 + dl + 1, 256 + dl + 64):
                    for p in (254, 255):
                        fl = L - dl - p - 1
                        if fl < 0:
                            continue
                        frag = rb(fl)
                        body = bytearray(build_body(frag, key, hname, seq, ct, ver, bs, padlen=p))
                        yield ("edge", bytes(body), key, hname, seq, ct, ver, bs)
                        b2 = bytearray(body)
                        b2[L - p - 1] ^= 0x10          # first padding byte
                        yield ("edge-corrupt", bytes(b2), key, hname, seq, ct, ver, bs)
                        if fl + dl > 0:
                            b3 = bytearray(body)
                            b3[fl] ^= 0x10             # first MAC byte
                            yield ("edge-corrupt", bytes(b3), key, hname, seq, ct, ver, bs)
                # scan-window alignment: long padding with the MAC position at, just below and just above
                # a multiple of the hash block size (the position from which candidate MACs are computed
                # is rounded down to it): honest, first MAC byte corrupted, last data byte corrupted
                hb = 128 if hname == "sha384" else 64
                for p in ((255, 254, 253, 250, 240) if thorough else (255, 254)):
                    for k in ((1, 2, 3) if thorough else (1,)):
                        for delta in (range(-3, 4) if thorough else (-2, -1, 0, 1)):
                            fl = hb * k + delta
                            frag = rb(fl)
                            body = bytearray(build_body(frag, key, hname, seq, ct, ver, bs, padlen=p))
                            yield ("window-align", bytes(body), key, hname, seq, ct, ver, bs)
                            b2 = bytearray(body)
                            b2[fl] ^= 0x01
                            yield ("window-align-corrupt", bytes(b2), key, hname, seq, ct, ver, bs)
                            b3 = bytearray(body)
                            b3[fl - 1] ^= 0x80
                            yield ("window-align-corrupt", bytes(b3), key, hname, seq, ct, ver, bs)
                # random bodies
                for _ in range(30 if thorough else 6):
                    yield ("random", rb(rng.randrange(0, 400)), key, hname, seq, ct, ver, bs)


def recordlayer_cases(ctx):
    """RecordLayer-level: records built by the independent sender are accepted and stripped to the
    fragment; sender side addPadding matches the model; corrupted ones raise TLSBadRecordMAC."""
    from tlslite.recordlayer import RecordLayer
    from tlslite.utils import cipherfactory
    from tlslite.errors import TLSBadRecordMAC
    from tlslite.mathtls import createMAC_SSL, createHMAC
    rng = ctx.rng
    lc = ctx.lean()

    def rb(n):
        return bytes(rng.getrandbits(8) for _ in range(n))

    for ver in VERSIONS:
        for hname in (["md5", "sha1"] if ver == (3, 0) else ["sha1", "sha256", "sha384"]):
            for cname, klen, bs in (("aes128", 16, 16), ("3des", 24, 8)):
                for fl in ([0, 1, 15, 16, 17, 100, 255, 256, 1000] if not ctx.thorough() else range(0, 300, 7)):
                    key, iv, mkey, seq = rb(klen), rb(bs), rb(20), rb(8)
                    frag = rb(fl)
                    body = build_body(frag, mkey, hname, seq, 23, ver, bs,
                                      padlen=rng.choice([None, None, bs - 1 - ((fl + getattr(hashlib, hname)().digest_size) % bs) + bs * rng.randrange(0, 256 // bs)]) if ver != (3, 0) else None)
                    if body[-1] > 255:
                        continue
                    for corrupt in (None, "mac", "pad"):
                        b = bytearray(body)
                        dl = getattr(hashlib, hname)().digest_size
                        if corrupt == "mac":
                            b[fl + rng.randrange(dl)] ^= 1 << rng.randrange(8)
                        elif corrupt == "pad":
                            if ver == (3, 0) or b[-1] == 0:
                                continue
                            b[len(b) - 2 - rng.randrange(b[-1])] ^= 1 << rng.randrange(8)
                        rl = RecordLayer(None)
                        rl.version = ver
                        st = rl._readState
                        if cname == "aes128":
                            st.encContext = cipherfactory.createAES(key, iv, ["python"])
                            enc = cipherfactory.createAES(key, iv, ["python"])
                        else:
                            st.encContext = cipherfactory.createTripleDES(key, iv, ["python"])
                            enc = cipherfactory.createTripleDES(key, iv, ["python"])
                        st.macContext = make_mac(mkey, hname, ver)[0]
                        st.seqnum = int.from_bytes(seq, "big")
                        pt = (rb(bs) if ver >= (3, 2) else b"") + bytes(b)
                        wire = enc.encrypt(bytearray(pt))
                        try:
                            got = bytes(rl._decryptThenMAC(23, bytearray(wire)))
                            res = ("ok", got)
                        except TLSBadRecordMAC:
                            res = ("bad_record_mac", None)
                        except Exception as e:
                            res = ("exception:" + type(e).__name__, None)
                        want = ("ok", frag) if corrupt is None else ("bad_record_mac", None)
                        case = {"stage": "recordlayer", "ver": list(ver), "hash": hname, "cipher": cname,
                                "frag": frag.hex(), "body": bytes(b).hex(), "corrupt": corrupt, "mkey": mkey.hex(),
                                "seq": seq.hex(), "key": key.hex(), "iv": iv.hex()}
                        ctx.case(key=("rl", ver, hname, cname, fl, corrupt, bytes(b)), sample=None)
                        ctx.count("recordlayer:" + str(corrupt))
                        if res != want:
                            ctx.violation("c12:recordlayer-" + res[0], "_decryptThenMAC gave %s, expected %s" % (res[0], want[0]),
                                          dict(case, got=res, want=want))
                        if lc is not None and corrupt is None:
                            m = lc.ask("strip %d %s" % (dl, hx(bytes(b))))
                            ctx.compared()
                            if m != hx(frag):
                                ctx.disagree("stripPadMac", case, m, frag.hex())
                # any padding length the alignment allows (incl. more than one block, which SSLv3
                # must refuse): the record layer must agree with the plain specification
                dl = getattr(hashlib, hname)().digest_size
                pad_choices = sorted(set([0, 1, bs - 1, bs, bs + 1, bs + 2, 2 * bs - 1, 2 * bs, 2 * bs + 1, 3 * bs,
                                          15, 16, 17, 31, 32, 100, 254, 255] + [rng.randrange(256) for _ in range(4)]))
                for p in pad_choices:
                    fl = (-(dl + p + 1)) % bs + bs * rng.randrange(0, 3)
                    key, iv, mkey, seq = rb(klen), rb(bs), rb(20), rb(8)
                    frag = rb(fl)
                    body = build_body(frag, mkey, hname, seq, 23, ver, bs, padlen=p)
                    assert len(body) % bs == 0
                    rl = RecordLayer(None)
                    rl.version = ver
                    st = rl._readState
                    mkc = cipherfactory.createAES if cname == "aes128" else cipherfactory.createTripleDES
                    st.encContext = mkc(key, iv, ["python"])
                    enc = mkc(key, iv, ["python"])
                    st.macContext = make_mac(mkey, hname, ver)[0]
                    st.seqnum = int.from_bytes(seq, "big")
                    wire = enc.encrypt(bytearray((rb(bs) if ver >= (3, 2) else b"") + body))
                    try:
                        res = ("ok", bytes(rl._decryptThenMAC(23, bytearray(wire))))
                    except TLSBadRecordMAC:
                        res = ("bad_record_mac", None)
                    except Exception as e:
                        res = ("exception:" + type(e).__name__, None)
                    want = ("ok", frag) if spec_well_formed(body, mkey, hname, seq, 23, ver, bs) else ("bad_record_mac", None)
                    ctx.case(key=("rl-anypad", ver, hname, cname, p, fl), sample=None)
                    ctx.count("recordlayer-anypad:" + want[0])
                    if res != want:
                        ctx.violation("c12:recordlayer-anypad-" + res[0],
                                      "_decryptThenMAC gave %s for padding length %d (block size %d, version %s), specification says %s"
                                      % (res[0], p, bs, ver, want[0]),
                                      {"stage": "recordlayer-anypad", "ver": list(ver), "hash": hname, "cipher": cname,
                                       "frag": frag.hex(), "body": body.hex(), "mkey": mkey.hex(), "seq": seq.hex(),
                                       "key": key.hex(), "iv": iv.hex(), "got": res, "want": want})
                # sender side addPadding
                for n in ([0, 1, 7, 8, 15, 16, 17, 255, 256] if not ctx.thorough() else range(0, 520)):
                    rl = RecordLayer(None)
                    rl.version = ver
                    rl._writeState.encContext = (cipherfactory.createAES(rb(16), rb(16), ["python"]) if bs == 16
                                                 else cipherfactory.createTripleDES(rb(24), rb(8), ["python"]))
                    d = rb(n)
                    got = bytes(rl.addPadding(bytearray(d)))
                    ctx.case(key=("pad", bs, n), sample=None)
                    if len(got) % bs != 0 or got[:n] != d or any(x != got[-1] for x in got[n:]) or len(got) - n != got[-1] + 1:
                        ctx.violation("c12:addPadding", "addPadding output malformed", {"stage": "addPadding", "bs": bs, "data": d.hex(), "got": got.hex()})
                    if lc is not None:
                        m = lc.ask("pad %d %s" % (bs, hx(d)))
                        ctx.compared()
                        if m != hx(got):
                            ctx.disagree("addPadding", {"bs": bs, "data": d.hex()}, m, got.hex())


def ct_prims(ctx):
    """the constant-time helpers vs the model on boundary and random 32-bit (and wider) values"""
    from tlslite.utils import constanttime as c
    lc = ctx.lean()
    if lc is None:
        return
    rng = ctx.rng
    vals = [0, 1, 2, 0x7fffffff, 0x80000000, 0x80000001, 0xfffffffe, 0xffffffff, 0x100000000, 0x100000001]
    vals += [rng.getrandbits(32) for _ in range(20)]
    lines, exp = [], []
    for a in vals:
        for b in vals:
            for op, f in (("lt", c.ct_lt_u32), ("le", c.ct_le_u32), ("eq", c.ct_eq_u32), ("neq", c.ct_neq_u32)):
                lines.append("%s %d %d" % (op, a, b))
                exp.append(str(f(a, b)))
        for op, f in (("nz", c.ct_isnonzero_u32), ("lsb8", c.ct_lsb_prop_u8), ("lsb16", c.ct_lsb_prop_u16)):
            lines.append("%s %d" % (op, a))
            exp.append(str(f(a)))
    out = lc.batch(lines)
    for l, o, e in zip(lines, out, exp):
        ctx.compared()
        ctx.case(key=("ct", l), sample=None)
        if o != e:
            ctx.disagree("ct-helpers", l, o, e)
    ctx.count("ct-helper-cases", len(lines))


M32 = 0xffffffff

# the ct_* helpers: name -> (arity, plain specification taken from the docstring; arguments are
# "unsigned integers representable as 32 bit values", the functions mask them themselves)
HELPER_SPECS = {
    "ct_lt_u32": (2, lambda a, b: int((a & M32) < (b & M32))),
    "ct_gt_u32": (2, lambda a, b: int((a & M32) > (b & M32))),
    "ct_le_u32": (2, lambda a, b: int((a & M32) <= (b & M32))),
    "ct_eq_u32": (2, lambda a, b: int((a & M32) == (b & M32))),
    "ct_neq_u32": (2, lambda a, b: int((a & M32) != (b & M32))),
    "ct_isnonzero_u32": (1, lambda v: int((v & M32) != 0)),
    "ct_lsb_prop_u8": (1, lambda v: 0xff if v & 1 else 0),
    "ct_lsb_prop_u16": (1, lambda v: 0xffff if v & 1 else 0),
}
BOUNDARY = [0, 1, 2, 3, 0x7f, 0x80, 0xff, 0x100, 0xffff, 0x10000, 0x7ffffffe, 0x7fffffff, 0x80000000, 0x80000001,
            0xfffffffe, 0xffffffff, 0x100000000, 0x100000001, 0x17fffffff, 0x180000000, 0x1ffffffff]


def helper_values(ctx, deep):
    rng = ctx.rng
    vals = list(BOUNDARY)
    vals += [rng.getrandbits(32) for _ in range(40 if deep else 12)]
    vals += [rng.getrandbits(33) for _ in range(20 if deep else 6)]
    vals += [rng.getrandbits(16) for _ in range(10 if deep else 4)]
    # neighbours: pairs that differ in one bit or by one are where a comparison trick breaks
    base = [rng.getrandbits(32) for _ in range(10 if deep else 3)]
    for v in base:
        vals += [(v + 1) & 0x1ffffffff, v ^ (1 << rng.randrange(32)), v ^ 0x80000000]
    small = list(range(0, 300 if deep else 34))
    return vals, small


def helper_oracle(ctx, deep=False, prefix="c12"):
    """direct oracle: every ct_* helper of the tree under check against its plain specification on
    exhaustive small values, the 32-bit boundaries and random 32/33-bit values.  `deep` (used when a
    gen_* obligation no longer checks) widens every family."""
    from tlslite.utils import constanttime as c
    vals, small = helper_values(ctx, deep)
    n = 0
    for name in sorted(HELPER_SPECS):
        arity, spec = HELPER_SPECS[name]
        f = getattr(c, name, None)
        if f is None:
            ctx.violation(prefix + ":ct-helper-missing", "tlslite.utils.constanttime.%s does not exist" % name,
                          {"stage": "helper", "fn": name, "args": []})
            continue
        if arity == 1:
            argsets = [(v,) for v in small + vals]
        else:
            argsets = [(a, b) for a in small for b in small] + [(a, b) for a in vals for b in vals] + \
                      [(a, b) for a in small[:8] for b in vals] + [(a, b) for a in vals for b in small[:8]]
        for args in argsets:
            try:
                got = f(*args)
            except Exception as e:
                got = "exception:" + type(e).__name__
            want = spec(*args)
            n += 1
            if got != want:
                ctx.violation(prefix + ":ct-helper-" + name,
                              "%s(%s) returned %r, its specification (docstring) says %r"
                              % (name, ", ".join("0x%x" % a for a in args), got, want),
                              {"stage": "helper", "fn": name, "args": list(args), "got": got, "want": want})
                break
        ctx.case(key=("helper", name, deep), sample={"helper": name, "cases": len(argsets)} if name == "ct_lt_u32" else None)
    ctx.count("helper-oracle-cases" + ("-deep" if deep else ""), n)


def pyint_stream(ctx):
    """the Python-int model Tls.Py (target language of translate/gen_ct.py) against the interpreter:
    & | ^ ~ << >> // max min on operands of both signs"""
    lc = ctx.lean()
    if lc is None:
        return
    rng = ctx.rng
    vals = [0, 1, -1, 2, -2, 5, -5, 0xff, -0xff, 0x100, -0x100, 0x7fffffff, -0x7fffffff, 0x80000000, -0x80000000,
            0xffffffff, -0xffffffff, 0x100000000, -0x100000000, -0x100000001, 1 << 64, -(1 << 64)]
    for _ in range(ctx.pick(16, 80)):
        bits = rng.choice([3, 8, 31, 32, 33, 64, 70])
        v = rng.getrandbits(bits)
        vals.append(v if rng.random() < 0.5 else -v)
    ops = {"and": lambda a, b: a & b, "or": lambda a, b: a | b, "xor": lambda a, b: a ^ b,
           "max": lambda a, b: max(a, b), "min": lambda a, b: min(a, b), "fdiv": lambda a, b: a // b}
    lines, exp = [], []
    for a in vals:
        for b in vals:
            for op in sorted(ops):
                try:
                    e = str(ops[op](a, b))
                except ZeroDivisionError:
                    e = "exc"
                lines.append("py %s %d %d" % (op, a, b))
                exp.append(e)
        for k in (-1, 0, 1, 2, 4, 8, 31, 32, 33, 70):
            for op, f in (("shl", lambda x, n: x << n), ("shr", lambda x, n: x >> n)):
                try:
                    e = str(f(a, k))
                except ValueError:
                    e = "exc"
                lines.append("py %s %d %d" % (op, a, k))
                exp.append(e)
        lines.append("py not %d" % a)
        exp.append(str(~a))
    out = lc.batch(lines)
    for l, o, e in zip(lines, out, exp):
        ctx.compared()
        if o != e:
            ctx.disagree("pyint", l, o, e)
    ctx.case(key=("pyint", len(lines)), sample=None)
    ctx.count("pyint-cases", len(lines))


def gen_obligations_broken(ctx):
    b = ctx.build or {}
    return [t for t in b.get("failed", []) if ".gen_" in t or t.startswith("gen_") or t.startswith("Props.")]


def run(ctx):
    ctx.rule = ("ct_* helpers on exhaustive small values, 32-bit boundaries and random 32/33-bit values against their docstring specification; "
                "bodies built by an independent sender (every listed fragment length x version x MAC x block size, "
                "every padding byte), single-byte corruptions, wrong seq/type/key, bodies where padding+MAC do not fit, "
                "256-byte window edges, scan-window alignment (MAC position around multiples of the hash block with 250..255 padding bytes), random bodies; distinct = distinct (body,key,hash,seq,type,version,bs); "
                "non-trivial = non-empty body")
    ctx.assumptions = ["HMAC / MAC_SSL objects are functions of their accumulated input (hashlib)",
                       "Python spec oracle harness/props/c12.py:spec_well_formed is the property's plain reading",
                       "SSLv3: 'at most one block' read as padding-length byte <= block size (what the code and the model use)",
                       "translate/gen_ct.py renders the Python AST faithfully into Tls.Py (TlsModel/PyInt.lean); Tls.Py's int operations "
                       "are Python's (compared with the interpreter, stream pyint)"]
    pending = []
    for c in gen_cases(ctx):
        one_case(ctx, pending, *c)
        if len(pending) >= 400:
            flush(ctx, pending)
    flush(ctx, pending)
    recordlayer_cases(ctx)
    ct_prims(ctx)
    pyint_stream(ctx)
    helper_oracle(ctx)
    broken = gen_obligations_broken(ctx)
    if broken:
        # the regenerated source no longer computes the hand model: look for a concrete input on which
        # the real functions leave their specification (the streams above already ran on the whole
        # check; this adds the widened search around the helpers)
        ctx.extra["gen_obligations_broken"] = broken
        if not any(v["found"] for v in ctx.violations):
            helper_oracle(ctx, deep=True)


def replay(ctx, rep):
    inp = rep["input"]
    if inp.get("stage") == "helper":
        from tlslite.utils import constanttime as c
        arity, spec = HELPER_SPECS[inp["fn"]]
        try:
            got = getattr(c, inp["fn"])(*inp["args"])
        except Exception as e:
            got = "exception:" + type(e).__name__
        want = spec(*inp["args"])
        print("%s(%s) = %r, specification: %r" % (inp["fn"], ", ".join(map(str, inp["args"])), got, want))
        return got != want
    if inp.get("stage") in (None, "oracle") and "data" in inp:
        data = bytes.fromhex(inp["data"])
        key = bytes.fromhex(inp["key"])
        seq = bytes.fromhex(inp["seq"])
        ver = tuple(inp["ver"])
        impl = impl_check(data, key, inp["hash"], seq, inp["ct"], ver, inp["bs"])
        spec = spec_well_formed(data, key, inp["hash"], seq, inp["ct"], ver, inp["bs"])
        print("implementation:", impl, " specification:", spec)
        return impl != spec
    print("replay of stage %r: re-running the whole check" % inp.get("stage"))
    run(ctx)
    return bool(ctx.violations or ctx.disagreements)
