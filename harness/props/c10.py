"""C10 — signatures and key agreement are sound, strict and never emitted when faulty.

Theorems: lean/Props/C10.lean.  This module ties the Lean models (TlsModel/Rsa.lean, Dh.lean,
X25519.lean, SignGuard.lean) to the real classes by correspondence and states the property
directly on the implementation with independent oracles:

  * an RFC 8017 verifier written here (pow + re-encode / EMSA-PSS-VERIFY), the `openssl` command
    line tool (pkeyutl / dgst) as second implementation for RSA, ECDSA, EdDSA and DSA;
  * RFC 7748 / RFC 7919 / SEC1 facts for the key-agreement share classes;
  * a fault injected into every private-key operation (key level and, in two live in-memory
    TLSConnection endpoints, at every handshake signing site): no signature bytes may reach the wire.
"""
import hashlib
import os
import shutil
import subprocess
import tempfile

from ..leanclient import hx

TRANSLATORS = ["pkcs1", "signsites", "cryptomath", "rsapad"]

MANIFEST = {
    "text": "Proof (Lean 4, Mathlib ZMod/Fermat): the blinded CRT private operation of Python_RSAKey returns m^d mod n for "
            "every well-formed key, every history of operations and every invertible unblinder, public∘private = id on [0,n) and the "
            "blinding invariant blinder·unblinder^e ≡ 1 is preserved by the squaring update; PKCS#1 v1.5 verify accepts exactly the "
            "signatures whose e-th power is THE canonical encoding (RFC 8017 DigestInfo table re-generated from the source and proved "
            "equal to the RFC's, plus the documented SHA-1 pair) and at most one signature string per message; EMSA-PSS verify "
            "accepts iff all structural checks pass, and sign-then-verify holds for every modulus length; FFDH agreement and "
            "rejection of 0, 1, p-1, >= p shares and degenerate results; every guarded send path emits a signature only if it "
            "verifies under the signer's own key. Tie: correspondence of every model function with RSAKey/Python_RSAKey, "
            "FFDHKeyExchange, ECDHKeyExchange glue and x25519/x448 on real keys, mutation and crafted-padding search with an "
            "independent RFC verifier and the openssl CLI as oracle, peer-share classes through calc_shared_key, fault injection at "
            "key level and in live in-memory handshakes."
            " Regeneration: "
            "translate/gen_rsapad.py re-translates 16 functions of tlslite/utils/rsakey.py (raw public/private operation on "
                    "bytes, _addPKCS1Padding, DigestInfo prefixes, _raw_pkcs1_verify/sign, MGF1, EMSA_PSS_encode/verify, RSASSA_PSS_sign/"
                    "verify, sign, verify, hashAndSign/Verify) and translate/gen_cryptomath.py the number<->bytes helpers of cryptomath.py/"
                    "compat.py statement by statement into Lean (Tls.RsaPad.Gen, Tls.Cryptomath.Gen over the Python-runtime model); proved "
                    "equal to the hand model for all inputs (gen_*_eq): cryptomath helpers, raw public/private operation on bytes, block type 1 "
            "padding, prefix table and prefix functions, _raw_pkcs1_verify/sign, MGF1, EMSA_PSS_encode/verify, RSASSA_PSS_sign/verify, "
            "sign, verify, hashAndSign/Verify (corollaries gen_pkcs1_verify_iff_canonical, gen_pss_verify_accept_iff, "
            "gen_pss_sign_then_verify); block type 2 padding: shape for every outcome and the exact condition for returning",
    "note": "Trusted: Lean kernel (propext, Classical.choice, Quot.sound), hashlib, python-ecdsa (ECDSA/EdDSA/NIST+brainpool ECDH "
            "are external: only round trips, openssl cross-checks and mutation search, no proof), the openssl CLI as oracle. "
            "The X25519/X448 ladder model is an executable transliteration validated by correspondence and RFC 7748 vectors; "
            "that it computes curve scalar multiplication (hence agreement) is NOT proved. Unforgeability is not claimed: "
            "'verifies under nothing else' is proved as uniqueness of the accepted string under a well-formed key and searched "
            "by mutation otherwise. Timing is not modelled.",
    "technique": "Lean 4 proofs over executable models; differential correspondence model vs implementation; independent-verifier "
                 "and fault-injection oracles on the real code",
}

PY_HASHES = ["md5", "sha1", "sha224", "sha256", "sha384", "sha512"]

# RFC 8017 section 9.2 note 1 (typed from the RFC, independent of tlslite's table)
RFC_DIGESTINFO = {
    "md5": bytes.fromhex("3020300c06082a864886f70d020505000410"),
    "sha1": bytes.fromhex("3021300906052b0e03021a05000414"),
    "sha224": bytes.fromhex("302d300d06096086480165030402040500041c"),
    "sha256": bytes.fromhex("3031300d060960864801650304020105000420"),
    "sha384": bytes.fromhex("3041300d060960864801650304020205000430"),
    "sha512": bytes.fromhex("3051300d060960864801650304020305000440"),
}
SHA1_NO_NULL = bytes.fromhex("301f300706052b0e03021a0414")


def nh(x):
    """big-endian hex of a non-negative int for the driver ('-' = 0)"""
    x = int(x)
    if x == 0:
        return "-"
    s = "%x" % x
    return s if len(s) % 2 == 0 else "0" + s


def hlen(alg):
    return hashlib.new(alg).digest_size


def H(alg, data):
    return hashlib.new(alg, bytes(data)).digest()


# ---------------------------------------------------------------------------------------------
# independent reference verifiers (RFC 8017), nothing from tlslite
# ---------------------------------------------------------------------------------------------

def ref_pkcs1_verify(n, e, sig, digest, alg):
    """RSASSA-PKCS1-v1_5-VERIFY (8.2.2) with EMSA-PKCS1-v1_5 (9.2); alg None = raw T"""
    k = (n.bit_length() + 7) // 8
    sig = bytes(sig)
    if len(sig) != k:
        return False
    s = int.from_bytes(sig, "big")
    if s >= n:
        return False
    em = pow(s, e, n).to_bytes(k, "big")
    t = (RFC_DIGESTINFO[alg] if alg is not None else b"") + bytes(digest)
    if k < len(t) + 11:
        return False
    return em == b"\x00\x01" + b"\xff" * (k - len(t) - 3) + b"\x00" + t


def ref_mgf1(seed, n, alg):
    out = b""
    c = 0
    while len(out) < n:
        out += H(alg, seed + c.to_bytes(4, "big"))
        c += 1
    return out[:n]


def ref_pss_verify(n, e, sig, mhash, alg, slen):
    """RSASSA-PSS-VERIFY (8.1.2) with EMSA-PSS-VERIFY (9.1.2)"""
    k = (n.bit_length() + 7) // 8
    sig = bytes(sig)
    if len(sig) != k:
        return False
    s = int.from_bytes(sig, "big")
    if s >= n:
        return False
    m = pow(s, e, n)
    embits = n.bit_length() - 1
    emlen = (embits + 7) // 8
    if m >= 1 << (8 * emlen):
        return False
    em = m.to_bytes(emlen, "big")
    hl = hlen(alg)
    if emlen < hl + slen + 2:
        return False
    if em[-1] != 0xbc:
        return False
    masked, h = em[:emlen - hl - 1], em[emlen - hl - 1:-1]
    zbits = 8 * emlen - embits
    if masked[0] >> (8 - zbits) != 0:
        return False
    mask = ref_mgf1(h, emlen - hl - 1, alg)
    db = bytearray(a ^ b for a, b in zip(masked, mask))
    db[0] &= 0xff >> zbits
    ps = emlen - hl - slen - 2
    if any(db[:ps]) or db[ps] != 1:
        return False
    salt = bytes(db[len(db) - slen:]) if slen else b""
    return H(alg, b"\x00" * 8 + bytes(mhash) + salt) == h


def pss_em(n, mhash, alg, salt, tweak=None):
    """independent EMSA-PSS-ENCODE for the modulus n; `tweak(parts)` may deform DB/H/trailer"""
    embits = n.bit_length() - 1
    emlen = (embits + 7) // 8
    hl = hlen(alg)
    h = H(alg, b"\x00" * 8 + bytes(mhash) + salt)
    db = bytearray(b"\x00" * (emlen - len(salt) - hl - 2) + b"\x01" + salt)
    parts = {"db": db, "h": bytearray(h), "trailer": 0xbc, "topbits": 0}
    if tweak:
        tweak(parts)
    mask = ref_mgf1(bytes(parts["h"]), emlen - hl - 1, alg)
    masked = bytearray(a ^ b for a, b in zip(parts["db"], mask))
    zbits = 8 * emlen - embits
    masked[0] &= 0xff >> zbits
    masked[0] |= parts["topbits"]
    return bytes(masked) + bytes(parts["h"]) + bytes([parts["trailer"]])


def hash_table(pairs):
    if not pairs:
        return "-"
    seen = {}
    for a, b in pairs:
        seen[bytes(a)] = bytes(b)
    return ",".join("%s:%s" % (hx(a), hx(b)) for a, b in seen.items())


def pss_tables_verify(n, e, sig, mhash, alg, slen):
    """every hash value EMSA_PSS_verify can ask for on this input (no checks applied)"""
    k = (n.bit_length() + 7) // 8
    sig = bytes(sig)
    if len(sig) != k or int.from_bytes(sig, "big") >= n or n == 0:
        return []
    em = pow(int.from_bytes(sig, "big"), e, n).to_bytes(k, "big")
    embits = n.bit_length() - 1
    emlen = (embits + 7) // 8
    if len(em) > emlen:
        em = em[len(em) - emlen:]
    return pss_tables_em(em, embits, mhash, alg, slen)


def pss_tables_em(em, embits, mhash, alg, slen):
    emlen = (embits + 7) // 8
    hl = hlen(alg)
    if emlen < hl + 2:
        return []
    masked, h = em[:emlen - hl - 1], em[emlen - hl - 1:emlen - 1]
    pairs = []
    mask = b""
    c = 0
    while len(mask) < emlen - hl - 1:
        inp = h + c.to_bytes(4, "big")
        out = H(alg, inp)
        pairs.append((inp, out))
        mask += out
        c += 1
    db = bytearray(a ^ b for a, b in zip(masked, mask))
    if db:
        db[0] &= (1 << (8 - (8 * emlen - embits))) - 1
    salt = bytes(db[len(db) - slen:]) if slen else b""
    if slen > len(db):
        salt = bytes(db)
    inp = b"\x00" * 8 + bytes(mhash) + salt
    pairs.append((inp, H(alg, inp)))
    return pairs


def pss_tables_sign(n, mhash, alg, salt):
    embits = n.bit_length() - 1
    emlen = (embits + 7) // 8
    hl = hlen(alg)
    inp = b"\x00" * 8 + bytes(mhash) + bytes(salt)
    h = H(alg, inp)
    pairs = [(inp, h)]
    c = 0
    got = 0
    while got < max(0, emlen - hl - 1):
        i2 = h + c.to_bytes(4, "big")
        pairs.append((i2, H(alg, i2)))
        got += hl
        c += 1
    return pairs


# ---------------------------------------------------------------------------------------------
# openssl command line as an independent implementation
# ---------------------------------------------------------------------------------------------

class OpenSSL(object):
    def __init__(self):
        self.exe = shutil.which("openssl")
        self.dir = None
        self.calls = 0
        self.version = None
        if self.exe:
            self.dir = tempfile.mkdtemp(prefix="c10_")
            try:
                self.version = subprocess.run([self.exe, "version"], stdout=subprocess.PIPE,
                                              universal_newlines=True, timeout=20).stdout.strip()
            except Exception:
                self.exe = None

    def close(self):
        if self.dir and os.path.isdir(self.dir):
            shutil.rmtree(self.dir, ignore_errors=True)

    def path(self, name):
        return os.path.join(self.dir, name)

    def write(self, name, data):
        p = self.path(name)
        with open(p, "wb") as f:
            f.write(data if isinstance(data, bytes) else data.encode())
        return p

    def run(self, args, inp=None):
        self.calls += 1
        p = subprocess.run([self.exe] + args, input=inp, stdout=subprocess.PIPE, stderr=subprocess.PIPE, timeout=60)
        return p.returncode, p.stdout, p.stderr

    def verify_digest(self, keyfile, digest, sig, alg, opts=(), pubin=False):
        """pkeyutl -verify on a pre-computed digest -> True / False / None (tool problem)"""
        d = self.write("digest.bin", bytes(digest))
        s = self.write("sig.bin", bytes(sig))
        args = ["pkeyutl", "-verify", "-inkey", keyfile, "-in", d, "-sigfile", s]
        if pubin:
            args.insert(2, "-pubin")
        if alg:
            args += ["-pkeyopt", "digest:" + alg]
        for o in opts:
            args += ["-pkeyopt", o]
        rc, out, err = self.run(args)
        txt = (out + err).decode("latin-1")
        if "Signature Verified Successfully" in txt:
            return True
        if "Signature Verification Failure" in txt:
            return False
        return None

    def sign_digest(self, keyfile, digest, alg, opts=()):
        d = self.write("digest.bin", bytes(digest))
        o = self.path("osig.bin")
        args = ["pkeyutl", "-sign", "-inkey", keyfile, "-in", d, "-out", o]
        if alg:
            args += ["-pkeyopt", "digest:" + alg]
        for x in opts:
            args += ["-pkeyopt", x]
        rc, out, err = self.run(args)
        if rc != 0:
            return None
        with open(o, "rb") as f:
            return f.read()

    def verify_raw(self, keyfile, msg, sig):
        """EdDSA: pkeyutl -verify -rawin (the tool cannot read an empty message file)"""
        if not bytes(msg):
            return None
        m = self.write("msg.bin", bytes(msg))
        s = self.write("sig.bin", bytes(sig))
        rc, out, err = self.run(["pkeyutl", "-verify", "-rawin", "-inkey", keyfile, "-in", m, "-sigfile", s])
        txt = (out + err).decode("latin-1")
        if "Signature Verified Successfully" in txt:
            return True
        if "Signature Verification Failure" in txt:
            return False
        return None

    def sign_raw(self, keyfile, msg):
        if not bytes(msg):
            return None
        m = self.write("msg.bin", bytes(msg))
        o = self.path("osig.bin")
        rc, out, err = self.run(["pkeyutl", "-sign", "-rawin", "-inkey", keyfile, "-in", m, "-out", o])
        if rc != 0:
            return None
        with open(o, "rb") as f:
            return f.read()


def der_len(n):
    if n < 128:
        return bytes([n])
    b = n.to_bytes((n.bit_length() + 7) // 8, "big")
    return bytes([0x80 | len(b)]) + b


def der_int(x):
    x = int(x)
    b = x.to_bytes(max(1, (x.bit_length() + 8) // 8), "big")
    return b"\x02" + der_len(len(b)) + b


def der_seq(*items):
    body = b"".join(items)
    return b"\x30" + der_len(len(body)) + body


def pem(label, der):
    import base64
    return "-----BEGIN %s-----\n%s-----END %s-----\n" % (label, base64.encodebytes(der).decode(), label)


def rsa_priv_pem(k):
    return pem("RSA PRIVATE KEY", der_seq(der_int(0), der_int(k.n), der_int(k.e), der_int(k.d), der_int(k.p),
                                          der_int(k.q), der_int(k.dP), der_int(k.dQ), der_int(k.qInv)))


def dsa_priv_pem(k):
    return pem("DSA PRIVATE KEY", der_seq(der_int(0), der_int(k.p), der_int(k.q), der_int(k.g),
                                          der_int(k.public_key), der_int(k.private_key)))


# ---------------------------------------------------------------------------------------------
# keys
# ---------------------------------------------------------------------------------------------

class DetRandom(object):
    """make tlslite's key generation deterministic in ctx.rng for the duration of a with-block"""

    def __init__(self, rng):
        self.rng = rng

    def __enter__(self):
        from tlslite.utils import cryptomath
        self.mod = cryptomath
        self.old = cryptomath.getRandomBytes
        rng = self.rng
        cryptomath.getRandomBytes = lambda n: bytearray(rng.getrandbits(8) for _ in range(n))
        return self

    def __exit__(self, *a):
        self.mod.getRandomBytes = self.old


def load_pem_keys(ctx):
    """every private key of tests/*.pem that parsePEMKey understands, by type"""
    from tlslite.utils.keyfactory import parsePEMKey
    out = []
    tdir = os.path.join(ctx.repo, "tests")
    for f in sorted(os.listdir(tdir)):
        if not f.endswith(".pem") or "Key" not in f or "TACK" in f or "ldsa" in f:
            continue
        try:
            with open(os.path.join(tdir, f)) as fh:
                k = parsePEMKey(fh.read(), private=True, implementations=["python"])
        except Exception:
            continue
        out.append((f[:-4], os.path.join(tdir, f), k))
    return out


def make_rsa_key(ctx, pbits, qbits, want_bits, key_type="rsa"):
    from tlslite.utils.python_rsakey import Python_RSAKey
    from tlslite.utils.cryptomath import getRandomPrime
    from math import gcd
    with DetRandom(ctx.rng):
        while True:
            p = int(getRandomPrime(pbits))
            q = int(getRandomPrime(qbits))
            if p == q or (p * q).bit_length() != want_bits:
                continue
            if gcd((p - 1) * (q - 1), 65537) != 1:
                continue
            return Python_RSAKey(n=p * q, e=65537, p=p, q=q, key_type=key_type)


def rsa_keys(ctx, ossl):
    """[(name, key, openssl key file or None)] — PEM keys of the test-suite plus generated ones
    (512-bit for exhaustive bit flips, a 1025-bit modulus: bit length 1 mod 8, 1031: 7 mod 8)"""
    res = []
    for name, path, k in load_pem_keys(ctx):
        if type(k).__name__ == "Python_RSAKey":
            res.append((name, k, path))
    gen = [("gen512", 256, 256, 512), ("gen1025", 513, 512, 1025), ("gen1031", 516, 515, 1031),
           ("gen768", 384, 384, 768)]
    for name, pb, qb, wb in gen:
        k = make_rsa_key(ctx, pb, qb, wb)
        path = None
        if ossl.exe:
            path = ossl.write(name + ".pem", rsa_priv_pem(k))
        res.append((name, k, path))
    return res


def key_line(k):
    return " ".join(nh(x) for x in (k.n, k.e, k.d, k.p, k.q, k.dP, k.dQ, k.qInv))


# ---------------------------------------------------------------------------------------------
# RSA: helpers, padding tables, raw operations
# ---------------------------------------------------------------------------------------------

def exc_name(e):
    n = type(e).__name__
    return {"ZeroDivisionError": "ArithmeticError"}.get(n, n)


def call(f, *a, **kw):
    """canonical outcome of an implementation call"""
    try:
        return ("ok", f(*a, **kw))
    except Exception as e:  # noqa
        return ("err", exc_name(e))


def rsa_basics(ctx):
    """cryptomath helpers, prefix tables and padding vs the model"""
    from tlslite.utils import cryptomath as cm
    from tlslite.utils.rsakey import RSAKey
    from tlslite.utils.python_rsakey import Python_RSAKey
    lc = ctx.lean()
    rng = ctx.rng
    lines, exp = [], []
    nums = [0, 1, 2, 3, 255, 256, 257, 65535, 65536, 65537, (1 << 64) - 1, 1 << 64, (1 << 1024) - 1, 1 << 1024,
            (1 << 2047), (1 << 2048) - 1]
    nums += [rng.getrandbits(rng.choice([7, 8, 9, 63, 64, 65, 511, 512, 513, 1023, 1024, 1025, 2048])) for _ in range(40)]
    for x in nums:
        lines.append("numbits " + nh(x)); exp.append(str(cm.numBits(x)))
        lines.append("numbytes " + nh(x)); exp.append(str(cm.numBytes(x)))
    for _ in range(ctx.pick(60, 400)):
        bits = rng.choice([8, 16, 64, 256, 512, 1024])
        b, e, m = rng.getrandbits(bits), rng.getrandbits(rng.choice([1, 2, 17, bits])), rng.getrandbits(bits) | 1
        if rng.random() < 0.2:
            e = rng.choice([0, 1, 2, 3, 65537])
        lines.append("powmod %s %s %s" % (nh(b), nh(e), nh(m))); exp.append(nh(cm.powMod(b, e, m)))
        a, bb = rng.getrandbits(bits), rng.getrandbits(bits) + 2
        if rng.random() < 0.3:
            a = a * rng.choice([2, 3, 5, 7]) % (bb or 1)
            if rng.random() < 0.5:
                bb = bb * 2
        lines.append("invmod %s %s" % (nh(a), nh(bb))); exp.append(nh(cm.invMod(a, bb)))
    for a, bb in [(0, 5), (1, 2), (1, 1), (5, 5), (4, 6), (3, 7), (7, 3), (10, 3)]:
        lines.append("invmod %s %s" % (nh(a), nh(bb))); exp.append(nh(cm.invMod(a, bb)))
    # DigestInfo prefixes
    for alg in PY_HASHES + ["sha3_256", "", "SHA1x"]:
        for n in (0, 1, hlen(alg) if alg in PY_HASHES else 5):
            d = bytes(rng.getrandbits(8) for _ in range(n))
            r = call(RSAKey.addPKCS1Prefix, bytearray(d), alg)
            lines.append("prefix %s %s" % (alg if alg else "''", hx(d)))
            exp.append(hx(r[1]) if r[0] == "ok" else "err:" + r[1])
            # independent oracle: the RFC's DigestInfo
            if alg in RFC_DIGESTINFO:
                want = RFC_DIGESTINFO[alg] + d
                ctx.case(key=("prefix", alg, d), sample=None)
                if r[0] != "ok" or bytes(r[1]) != want:
                    ctx.violation("c10:pkcs1-digestinfo-" + alg, "addPKCS1Prefix(%s) is not the RFC 8017 DigestInfo" % alg,
                                  {"stage": "prefix", "alg": alg, "data": d.hex(), "got": r[1] if r[0] == "err" else bytes(r[1]).hex()})
    for w in (0, 1):
        d = bytes(rng.getrandbits(8) for _ in range(20))
        got = bytes(RSAKey.addPKCS1SHA1Prefix(bytearray(d), bool(w)))
        lines.append("sha1prefix %d %s" % (w, hx(d))); exp.append(hx(got))
        want = (RFC_DIGESTINFO["sha1"] if w else SHA1_NO_NULL) + d
        ctx.case(key=("sha1prefix", w), sample=None)
        if got != want:
            ctx.violation("c10:pkcs1-digestinfo-sha1", "addPKCS1SHA1Prefix(withNULL=%s) is not the documented form" % bool(w),
                          {"stage": "prefix", "alg": "sha1", "withNULL": w, "got": got.hex()})
    # block type 1 padding for moduli of several byte lengths, data from empty to longer than the modulus
    for nbits in (33, 64, 128, 512, 1024, 1025, 2048):
        n = rng.getrandbits(nbits) | (1 << (nbits - 1)) | 1
        k = Python_RSAKey(n=n, e=3)
        K = (nbits + 7) // 8
        for dl in sorted(set([0, 1, K - 12, K - 11, K - 4, K - 3, K - 2, K, K + 5, 20, 35, 51])):
            if dl < 0:
                continue
            d = bytes(rng.getrandbits(8) for _ in range(dl))
            got = bytes(k._addPKCS1Padding(bytearray(d), 1))
            lines.append("pad1 %s %s" % (nh(n), hx(d))); exp.append(hx(got))
    if lc is not None:
        out = lc.batch(lines)
        for l, o, e in zip(lines, out, exp):
            ctx.compared()
            ctx.case(key=("basic", l), sample=None)
            if o != e:
                ctx.disagree("rsa-basics", l[:300], o[:300], e[:300])
    ctx.count("rsa:basics", len(lines))


def set_blinding(k, b, u):
    k.blinder, k.unblinder = b, u


class Patched(object):
    """temporarily replace attributes of modules/objects"""

    def __init__(self, *triples):
        self.triples = triples
        self.saved = []

    def __enter__(self):
        for obj, name, val in self.triples:
            had = name in getattr(obj, "__dict__", {})
            self.saved.append((obj, name, had, getattr(obj, name, None)))
            setattr(obj, name, val)
        return self

    def __exit__(self, *a):
        for obj, name, had, old in reversed(self.saved):
            if had or not hasattr(obj, "__dict__") or isinstance(obj, type(os)):
                setattr(obj, name, old)
            else:
                try:
                    delattr(obj, name)
                except AttributeError:
                    setattr(obj, name, old)


def rsa_private_ops(ctx, keys):
    """_raw_private_key_op_bytes / _raw_public_key_op_bytes vs the model, with the blinding state
    followed over a history of operations; oracle: result^e = m and result = m^d mod n"""
    import tlslite.utils.python_rsakey as prk
    lc = ctx.lean()
    rng = ctx.rng
    for name, k, _ in keys:
        K = (int(k.n).bit_length() + 7) // 8
        set_blinding(k, 0, 0)
        hist = ctx.pick(3, 8) if K > 100 else ctx.pick(6, 20)
        for step in range(hist):
            kind = rng.choice(["rand", "rand", "small", "edge"])
            if kind == "rand":
                m = rng.randrange(0, int(k.n))
            elif kind == "small":
                m = rng.choice([0, 1, 2, 3, 255])
            else:
                m = int(k.n) - rng.choice([1, 2, 3])
            rnd = rng.randrange(2, int(k.n))
            msg = m.to_bytes(K, "big")
            b0, u0 = int(k.blinder), int(k.unblinder)
            with Patched((prk, "getRandomNumber", lambda lo, hi, r=rnd: r)):
                r = call(k._raw_private_key_op_bytes, bytearray(msg))
            ctx.case(key=("privop", name, m, rnd, b0), sample={"stage": "privop", "key": name, "m": nh(m)} if step == 0 else None)
            ctx.count("rsa:privop")
            if r[0] == "ok":
                out = int.from_bytes(bytes(r[1]), "big")
                # oracle (independent arithmetic): it is the d-th power, and the e-th power gives m back
                if out != pow(m, int(k.d), int(k.n)) or pow(out, int(k.e), int(k.n)) != m or len(r[1]) != K:
                    ctx.violation("c10:rsa-private-op-wrong", "_raw_private_key_op_bytes did not return m^d mod n (key %s)" % name,
                                  {"stage": "privop", "key": key_line(k), "m": nh(m), "rnd": nh(rnd), "blinder": nh(b0),
                                   "unblinder": nh(u0), "got": bytes(r[1]).hex()})
                b1, u1 = int(k.blinder), int(k.unblinder)
                if (b1 * pow(u1, int(k.e), int(k.n))) % int(k.n) != 1:
                    ctx.violation("c10:rsa-blinding-invariant", "blinder*unblinder^e != 1 mod n after an operation (key %s)" % name,
                                  {"stage": "privop", "key": key_line(k), "m": nh(m), "rnd": nh(rnd), "blinder": nh(b0),
                                   "unblinder": nh(u0), "blinder_after": nh(b1), "unblinder_after": nh(u1)})
                implout = "%s %s %s" % (hx(r[1]), nh(b1), nh(u1))
            else:
                implout = "err:" + r[1]
            if lc is not None:
                mo = lc.ask("privop %s %s %s %s %s" % (key_line(k), nh(b0), nh(u0), nh(rnd), hx(msg)))
                ctx.compared()
                if mo != implout:
                    ctx.disagree("rsa-privop", {"key": name, "m": nh(m), "rnd": nh(rnd), "blinder": nh(b0)}, mo[:200], implout[:200])
        # range / length checks of both raw operations
        cases = [b"", b"\x00" * (K - 1), b"\x00" * (K + 1), int(k.n).to_bytes(K, "big"),
                 (int(k.n) + 1).to_bytes(K, "big") if (int(k.n) + 1).bit_length() <= 8 * K else b"\xff" * K,
                 b"\xff" * K, (int(k.n) - 1).to_bytes(K, "big"), b"\x00" * K, b"\x00" + (int(k.n) - 1).to_bytes(K, "big")]
        for c in cases:
            rp = call(k._raw_public_key_op_bytes, bytearray(c))
            inrange = len(c) == K and int.from_bytes(c, "big") < int(k.n)
            ctx.case(key=("pubop-range", name, c), sample=None)
            ctx.count("rsa:range-check")
            if (rp[0] == "ok") != inrange or (rp[0] == "ok" and
                                               int.from_bytes(bytes(rp[1]), "big") != pow(int.from_bytes(c, "big"), int(k.e), int(k.n))):
                ctx.violation("c10:rsa-public-op-range", "_raw_public_key_op_bytes range/length check wrong (key %s)" % name,
                              {"stage": "pubop", "n": nh(k.n), "e": nh(k.e), "c": c.hex(), "got": str(rp)})
            rq = call(k._raw_private_key_op_bytes, bytearray(c))
            if (rq[0] == "ok") != inrange:
                ctx.violation("c10:rsa-private-op-range", "_raw_private_key_op_bytes range/length check wrong (key %s)" % name,
                              {"stage": "privop-range", "key": key_line(k), "c": c.hex(), "got": str(rq[0])})
            if lc is not None:
                mo = lc.ask("pubop %s %s %s" % (nh(k.n), nh(k.e), hx(c)))
                ctx.compared()
                io = hx(rp[1]) if rp[0] == "ok" else "err:" + rp[1]
                if mo != io:
                    ctx.disagree("rsa-pubop", {"key": name, "c": c.hex()}, mo[:200], io[:200])


# ---------------------------------------------------------------------------------------------
# RSA: verify cases (one evaluation = implementation + reference + model)
# ---------------------------------------------------------------------------------------------

class RsaVerifyBatch(object):
    """collects verify() cases; flush() asks the model for all of them at once"""

    def __init__(self, ctx):
        self.ctx = ctx
        self.pending = []

    def add(self, kind, name, k, sig, digest, pad, alg, slen, expect_valid=None):
        """evaluate implementation and reference on one case; queue the model line.
        pad: 'pkcs1' | 'pss'; alg: hash name or None (raw pkcs1).
        expect_valid: True when the case is an honest signature (must be accepted)."""
        ctx = self.ctx
        sig = bytes(sig)
        digest = bytes(digest)
        n, e = int(k.n), int(k.e)
        r = call(k.verify, bytearray(sig), bytearray(digest), pad, alg, slen)
        impl = r[1] if r[0] == "ok" else "err:" + r[1]
        if impl is not True and impl is not False and r[0] == "ok":
            impl = bool(impl)
        if pad == "pkcs1":
            ref = ref_pkcs1_verify(n, e, sig, digest, alg) and k.key_type != "rsa-pss"
            # the documented SHA-1 exception: DigestInfo without the NULL parameter
            if not ref and alg == "sha1" and k.key_type != "rsa-pss":
                K = (n.bit_length() + 7) // 8
                if len(sig) == K and int.from_bytes(sig, "big") < n:
                    t = SHA1_NO_NULL + digest
                    if K >= len(t) + 11 and pow(int.from_bytes(sig, "big"), e, n).to_bytes(K, "big") == \
                            b"\x00\x01" + b"\xff" * (K - len(t) - 3) + b"\x00" + t:
                        ref = True
        else:
            ref = ref_pss_verify(n, e, sig, digest, alg, slen)
        case = {"stage": "rsa-verify", "kind": kind, "key": name, "n": nh(n), "e": nh(e), "key_type": k.key_type,
                "sig": sig.hex(), "digest": digest.hex(), "pad": pad, "alg": alg, "slen": slen}
        ctx.case(key=("rsav", name, sig, digest, pad, alg, slen),
                 sample=dict(case, impl=impl, ref=ref) if ctx.evaluations % 1499 == 0 else None)
        ctx.count("rsa:" + kind)
        ctx.count("rsa-result:" + str(ref))
        if impl is True and not ref:
            ctx.violation("c10:rsa-accepts-invalid-" + kind,
                          "RSAKey.verify accepted a %s signature the RFC 8017 verifier rejects (%s, key %s, %s/%s)"
                          % (pad, kind, name, alg, slen), dict(case, impl=impl, ref=ref))
        elif impl is not True and ref:
            ctx.violation("c10:rsa-rejects-valid-" + kind,
                          "RSAKey.verify returned %s on a %s signature that is valid per RFC 8017 (%s, key %s, %s/%s)"
                          % (impl, pad, kind, name, alg, slen), dict(case, impl=impl, ref=ref))
        if expect_valid is True and not ref:
            ctx.violation("c10:rsa-own-signature-invalid-" + kind,
                          "a signature produced by RSAKey.sign is not valid per RFC 8017 (%s, key %s, %s/%s)" % (pad, name, alg, slen),
                          dict(case, impl=impl, ref=ref))
        if pad == "pss":
            table = hash_table(pss_tables_verify(n, e, sig, digest, alg, slen))
        else:
            table = "-"
        line = "verify %d %s %s %s %s %s %s %d %d %s" % (1 if k.key_type == "rsa-pss" else 0, nh(n), nh(e), hx(sig), hx(digest),
                                                         pad, alg if alg else "none", hlen(alg) if alg else 0, slen or 0, table)
        self.pending.append((case, impl, line))
        if len(self.pending) >= 300:
            self.flush()
        return impl, ref

    def flush(self):
        ctx = self.ctx
        lc = ctx.lean()
        if lc is not None and self.pending:
            out = lc.batch([p[2] for p in self.pending])
            for (case, impl, _), m in zip(self.pending, out):
                ctx.compared()
                io = impl if isinstance(impl, str) else str(bool(impl)).lower()
                if m != io:
                    ctx.disagree("rsa-verify", case, m, io)
        self.pending = []


def rsa_sign(ctx, k, name, digest, pad, alg, salt, rnd):
    """k.sign with the salt and the first unblinder fixed; also asks the model to sign"""
    import tlslite.utils.python_rsakey as prk
    import tlslite.utils.rsakey as rk
    b0, u0 = int(k.blinder), int(k.unblinder)
    with Patched((prk, "getRandomNumber", lambda lo, hi: rnd), (rk, "getRandomBytes", lambda n: bytearray(salt[:n]))):
        r = call(k.sign, bytearray(digest), pad, alg, len(salt))
    lc = ctx.lean()
    if lc is not None:
        table = hash_table(pss_tables_sign(int(k.n), digest, alg, salt)) if pad == "pss" else "-"
        mo = lc.ask("sign %s %s %s %s %s %s %s %d %s %s" % (key_line(k), nh(b0), nh(u0), nh(rnd), hx(digest), pad,
                                                            alg if alg else "none", hlen(alg) if alg else 0, hx(salt), table))
        io = ("%s %s %s" % (hx(r[1]), nh(k.blinder), nh(k.unblinder))) if r[0] == "ok" else "err:" + r[1]
        ctx.compared()
        if mo != io:
            ctx.disagree("rsa-sign", {"key": name, "digest": bytes(digest).hex(), "pad": pad, "alg": alg, "salt": bytes(salt).hex()},
                         mo[:200], io[:200])
    return r


def rsa_roundtrips(ctx, keys, ossl, vb):
    """sign -> verify for every key x scheme x hash (x salt length 0, hLen, max), each signature
    also checked by the RFC verifier (inside vb.add) and by openssl; openssl-made signatures must
    verify under tlslite"""
    rng = ctx.rng
    for name, k, kfile in keys:
        n = int(k.n)
        K = (n.bit_length() + 7) // 8
        emlen = (n.bit_length() - 1 + 7) // 8
        big = K > 200
        for alg in PY_HASHES:
            msg = bytes(rng.getrandbits(8) for _ in range(rng.choice([0, 1, 32, 100])))
            digest = H(alg, msg)
            hl = hlen(alg)
            schemes = []
            if k.key_type != "rsa-pss" and K >= len(RFC_DIGESTINFO[alg]) + hl + 11:
                schemes.append(("pkcs1", alg, b""))
            for sl in sorted(set([0, hl, emlen - hl - 2])):
                if sl >= 0 and emlen >= hl + sl + 2:
                    if big and not ctx.thorough() and sl not in (hl,) and alg not in ("sha256",):
                        continue
                    schemes.append(("pss", alg, bytes(rng.getrandbits(8) for _ in range(sl))))
            for pad, a, salt in schemes:
                rnd = rng.randrange(2, n)
                r = rsa_sign(ctx, k, name, digest, pad, a, salt, rnd)
                ctx.count("rsa:sign-%s" % pad)
                if r[0] != "ok":
                    ctx.case(key=("rsasign", name, pad, a, len(salt)), sample=None)
                    cls = "rsa-pss-modbits-1-mod-8" if (pad == "pss" and n.bit_length() % 8 == 1) else "rsa-sign-fails-" + pad
                    ctx.violation("c10:" + cls, "RSAKey.sign raised %s for %s/%s salt %d with a %d-bit key (%s)"
                                  % (r[1], pad, a, len(salt), n.bit_length(), name),
                                  {"stage": "rsa-sign", "key": key_line(k), "key_type": k.key_type, "digest": digest.hex(), "pad": pad,
                                   "alg": a, "salt": salt.hex(), "rnd": nh(rnd), "got": r[1]})
                    continue
                sig = bytes(r[1])
                impl, ref = vb.add("honest", name, k, sig, digest, pad, a, len(salt), expect_valid=True)
                if n.bit_length() % 8 == 1 and pad == "pss" and (impl is not True or not ref):
                    ctx.violation("c10:rsa-pss-modbits-1-mod-8", "RSA-PSS round trip fails for a modulus of %d bits" % n.bit_length(),
                                  {"stage": "rsa-sign", "key": key_line(k), "key_type": k.key_type, "digest": digest.hex(), "pad": pad,
                                   "alg": a, "salt": salt.hex(), "rnd": nh(rnd), "sig": sig.hex()})
                # hashAndSign / hashAndVerify wrappers agree with sign / verify on the digest
                hv = call(k.hashAndVerify, bytearray(sig), bytearray(msg), pad.upper() if rng.random() < 0.5 else pad, a, len(salt))
                ctx.case(key=("hashAndVerify", name, sig), sample=None)
                if hv != ("ok", True):
                    ctx.violation("c10:rsa-hashAndVerify-" + pad, "hashAndVerify rejects what verify accepts (key %s %s/%s)" % (name, pad, a),
                                  {"stage": "rsa-hashandverify", "key": key_line(k), "key_type": k.key_type, "msg": msg.hex(),
                                   "sig": sig.hex(), "pad": pad, "alg": a, "slen": len(salt), "got": str(hv)})
                # second implementation
                if ossl.exe and kfile and (ctx.thorough() or not big or a == "sha256"):
                    opts = ["rsa_padding_mode:pss", "rsa_pss_saltlen:%d" % len(salt), "rsa_mgf1_md:" + a] if pad == "pss" else \
                        ["rsa_padding_mode:pkcs1"]
                    ov = ossl.verify_digest(kfile, digest, sig, a, opts)
                    ctx.case(key=("openssl-verify", name, sig), sample=None)
                    ctx.count("openssl:rsa-verify")
                    if ov is False:
                        if n.bit_length() % 8 == 1 and pad == "pss":
                            cls = "rsa-pss-modbits-1-mod-8"
                        else:
                            cls = "rsa-sig-rejected-by-openssl-" + pad
                        ctx.violation("c10:" + cls, "openssl rejects a %s/%s signature made by RSAKey.sign (key %s)" % (pad, a, name),
                                      {"stage": "rsa-openssl", "key": key_line(k), "key_type": k.key_type, "digest": digest.hex(),
                                       "sig": sig.hex(), "pad": pad, "alg": a, "slen": len(salt)})
                    osig = ossl.sign_digest(kfile, digest, a, opts)
                    if osig is not None:
                        ctx.count("openssl:rsa-sign")
                        impl2, ref2 = vb.add("foreign", name, k, osig, digest, pad, a, len(salt))
                        if impl2 is not True and n.bit_length() % 8 == 1 and pad == "pss":
                            ctx.violation("c10:rsa-pss-modbits-1-mod-8",
                                          "RSAKey.verify rejects an openssl-made RSA-PSS signature for a modulus of %d bits" % n.bit_length(),
                                          {"stage": "rsa-verify", "key": name, "n": nh(n), "e": nh(k.e), "key_type": k.key_type,
                                           "sig": osig.hex(), "digest": digest.hex(), "pad": pad, "alg": a, "slen": len(salt)})
        # TLS <= 1.1 style: raw 36-byte MD5||SHA1 value, no DigestInfo
        if k.key_type != "rsa-pss":
            d36 = bytes(rng.getrandbits(8) for _ in range(36))
            r = rsa_sign(ctx, k, name, d36, "pkcs1", None, b"", rng.randrange(2, n))
            if r[0] == "ok":
                vb.add("honest-raw", name, k, bytes(r[1]), d36, "pkcs1", None, 0, expect_valid=True)


def raw_sign(k, em):
    """private operation on a crafted encoded message (integer arithmetic only)"""
    K = (int(k.n).bit_length() + 7) // 8
    m = int.from_bytes(em, "big")
    if len(em) != K or m >= int(k.n):
        return None
    return pow(m, int(k.d), int(k.n)).to_bytes(K, "big")


def rsa_mutations(ctx, keys, vb):
    """structural and bit-level mutations of valid signatures; every one must be rejected
    (judged by the RFC verifier inside vb.add)"""
    rng = ctx.rng
    for name, k, kfile in keys:
        n = int(k.n)
        K = (n.bit_length() + 7) // 8
        emlen = (n.bit_length() - 1 + 7) // 8
        small = K <= 70
        algs = PY_HASHES if (ctx.thorough() or small) else ["sha1", "sha256"]
        for alg in algs:
            hl = hlen(alg)
            digest = H(alg, b"message " + name.encode())
            pads = []
            if k.key_type != "rsa-pss" and K >= len(RFC_DIGESTINFO[alg]) + hl + 11:
                pads.append(("pkcs1", 0))
            if emlen >= 2 * hl + 2:
                pads.append(("pss", hl))
            elif emlen >= hl + 2:
                pads.append(("pss", 0))
            for pad, sl in pads:
                salt = bytes(rng.getrandbits(8) for _ in range(sl))
                if pad == "pkcs1":
                    t = RFC_DIGESTINFO[alg] + digest
                    em = b"\x00\x01" + b"\xff" * (K - len(t) - 3) + b"\x00" + t
                else:
                    em = pss_em(n, digest, alg, salt)
                    em = b"\x00" * (K - len(em)) + em
                sig = raw_sign(k, em)
                vb.add("base", name, k, sig, digest, pad, alg, sl, expect_valid=True)
                # --- single-bit flips: all bits for short keys (one hash), sampled otherwise
                if small and alg == "sha256" or (small and ctx.thorough()):
                    bits = range(8 * K)
                else:
                    bits = sorted(set([0, 1, 7, 8, 8 * K - 1, 8 * K - 2, 8 * K - 8] +
                                      [rng.randrange(8 * K) for _ in range(ctx.pick(6, 40))]))
                for b in bits:
                    s2 = bytearray(sig)
                    s2[b // 8] ^= 0x80 >> (b % 8)
                    vb.add("bitflip", name, k, s2, digest, pad, alg, sl)
                # --- length changes, leading zero stripped / added, trailing bytes, empty
                variants = [sig[:-1], sig[1:], sig + b"\x00", b"\x00" + sig, sig + sig, b"", sig[:K // 2],
                            sig.lstrip(b"\x00"), b"\x00" + sig[:-1]]
                sval = int.from_bytes(sig, "big")
                for v in (sval + n, n - sval, (n - sval) % n, 0, 1, n - 1, n, n + 1):
                    if 0 <= v < 1 << (8 * K):
                        variants.append(v.to_bytes(K, "big"))
                    if 0 <= v < 1 << (8 * (K + 1)):
                        variants.append(v.to_bytes(K + 1, "big"))
                for v in variants:
                    if bytes(v) != sig:
                        vb.add("length-range", name, k, v, digest, pad, alg, sl)
                # --- wrong message / hash / scheme / salt length / key type
                d2 = bytearray(digest)
                d2[rng.randrange(len(d2))] ^= 1 << rng.randrange(8)
                vb.add("wrong-digest", name, k, sig, d2, pad, alg, sl)
                vb.add("wrong-digest", name, k, sig, digest[:-1], pad, alg, sl)
                vb.add("wrong-digest", name, k, sig, digest + b"\x00", pad, alg, sl)
                for a2 in PY_HASHES:
                    if a2 != alg:
                        vb.add("wrong-hash", name, k, sig, digest, pad, a2, sl if pad == "pkcs1" else min(sl, max(0, emlen - hlen(a2) - 2)))
                        if hlen(a2) == hl or ctx.thorough():
                            vb.add("wrong-hash", name, k, sig, H(a2, b"message " + name.encode()), pad, a2,
                                   sl if pad == "pkcs1" else min(sl, max(0, emlen - hlen(a2) - 2)))
                other = "pss" if pad == "pkcs1" else "pkcs1"
                vb.add("wrong-scheme", name, k, sig, digest, other, alg, hl if other == "pss" and emlen >= 2 * hl + 2 else 0)
                if pad == "pkcs1":
                    vb.add("wrong-scheme", name, k, sig, digest, "pkcs1", None, 0)
                    vb.add("wrong-scheme", name, k, sig, RFC_DIGESTINFO[alg] + digest, "pkcs1", None, 0, expect_valid=True)
                if pad == "pss":
                    for s2 in sorted(set([0, 1, sl - 1, sl + 1, hl, emlen - hl - 2, emlen - hl - 1, emlen])):
                        if s2 >= 0 and s2 != sl:
                            vb.add("wrong-saltlen", name, k, sig, digest, "pss", alg, s2)
                # --- crafted encoded messages signed with the raw private operation
                crafted = []
                if pad == "pkcs1":
                    t = RFC_DIGESTINFO[alg] + digest
                    di = RFC_DIGESTINFO[alg]
                    room = K - len(t) - 3

                    def emv(block=1, ff=None, sep=0, tt=t, first=0):
                        ffn = K - len(tt) - 3 if ff is None else ff
                        return bytes([first, block]) + b"\xff" * ffn + bytes([sep]) + tt
                    for g in (1, 2, 8, room - 8):
                        if 0 < g <= room - 8:
                            crafted.append(("short-pad-trailing-garbage", emv(ff=room - g) + bytes(rng.getrandbits(8) for _ in range(g))))
                    if room >= 9:
                        crafted.append(("short-pad-trailing-garbage", emv(ff=8) + bytes(rng.getrandbits(8) for _ in range(room - 8))))
                        crafted.append(("pad-8-leading-garbage", b"\x00\x01" + b"\xff" * 8 + b"\x00" +
                                        bytes(rng.getrandbits(8) | 1 for _ in range(room - 9)) + b"\x00" + t))
                        crafted.append(("extra-zero-in-padding", b"\x00\x01" + b"\xff" * 8 + b"\x00" + b"\xff" * (room - 9) + b"\x00" + t))
                    # DigestInfo without NULL (non SHA-1: must be rejected; SHA-1: documented exception)
                    if alg != "sha1":
                        body = di[4:4 + 2 + di[5]]          # OID TLV
                        algid = b"\x30" + bytes([len(body)]) + body
                        t2 = b"\x30" + bytes([len(algid) + 2 + hl]) + algid + b"\x04" + bytes([hl]) + digest
                        crafted.append(("digestinfo-missing-null", emv(tt=t2)))
                    else:
                        crafted.append(("sha1-no-null-documented", emv(tt=SHA1_NO_NULL + digest)))
                    # wrong hash OID with the right lengths
                    for a2 in PY_HASHES:
                        if a2 != alg and len(RFC_DIGESTINFO[a2]) == len(di):
                            t3 = bytearray(RFC_DIGESTINFO[a2])
                            t3[1] = di[1]
                            t3[-1] = di[-1]
                            crafted.append(("wrong-oid", emv(tt=bytes(t3) + digest)))
                            break
                    # extra bytes after the digest (inside and outside the OCTET STRING)
                    if room >= 12:
                        crafted.append(("extra-after-digest", emv(tt=t + b"\x00\x00\x00\x00")))
                        t4 = bytearray(di)
                        t4[1] += 4
                        t4[-1] += 4
                        crafted.append(("extra-after-digest", emv(tt=bytes(t4) + digest + b"\x00\x00\x00\x00")))
                        crafted.append(("digest-truncated", emv(tt=t[:-1])))
                    crafted.append(("block-type-2", emv(block=2)))
                    crafted.append(("block-type-0", bytes([0, 0]) + b"\x00" * room + b"\x00" + t))
                    crafted.append(("nonff-padding", emv()[:5] + b"\xfe" + emv()[6:]))
                    crafted.append(("separator-not-zero", emv(sep=1)))
                    crafted.append(("raw-digestinfo-no-padding", b"\x00" * (K - len(t)) + t))
                    crafted.append(("wrong-first-byte", b"\x01\x01" + emv()[2:]))
                else:
                    zbits = 8 * emlen - (n.bit_length() - 1)

                    def tw(f):
                        e2 = pss_em(n, digest, alg, salt, f)
                        return b"\x00" * (K - len(e2)) + e2
                    crafted.append(("pss-bad-trailer", tw(lambda p: p.update(trailer=0xbd))))
                    crafted.append(("pss-bad-trailer", tw(lambda p: p.update(trailer=0xcc))))
                    if zbits:
                        crafted.append(("pss-leftmost-bit-set", tw(lambda p: p.update(topbits=0x80))))
                        crafted.append(("pss-leftmost-bit-set", tw(lambda p: p.update(topbits=0x100 >> zbits))))
                    if emlen < K:
                        e2 = pss_em(n, digest, alg, salt)
                        crafted.append(("pss-surplus-byte-nonzero", b"\x01" + e2))
                    pslen = emlen - sl - hl - 2

                    def flip_ps(p, i):
                        p["db"][i] ^= 0x01
                    if pslen > 0:
                        for i in sorted(set([0, pslen - 1, rng.randrange(pslen)])):
                            crafted.append(("pss-ps-nonzero", tw(lambda p, i=i: flip_ps(p, i))))

                    def sep(p, v):
                        p["db"][pslen] = v
                    crafted.append(("pss-bad-separator", tw(lambda p: sep(p, 0x02))))
                    crafted.append(("pss-bad-separator", tw(lambda p: sep(p, 0x00))))
                    crafted.append(("pss-bad-separator", tw(lambda p: sep(p, 0x81))))

                    def fliph(p):
                        p["h"][rng.randrange(hl)] ^= 0x10
                    crafted.append(("pss-h-mismatch", tw(fliph)))
                    if sl:
                        def flipsalt(p):
                            p["db"][-1] ^= 0x01
                        crafted.append(("pss-salt-modified", tw(flipsalt)))
                    # salt of another length (valid encoding for that other length only)
                    for s2 in sorted(set([0, sl + 1, max(0, sl - 1)])):
                        if s2 != sl and emlen >= hl + s2 + 2:
                            e2 = pss_em(n, digest, alg, bytes(rng.getrandbits(8) for _ in range(s2)))
                            crafted.append(("pss-other-saltlen", b"\x00" * (K - len(e2)) + e2))
                for kind, e2 in crafted:
                    s2 = raw_sign(k, e2)
                    if s2 is None:
                        ctx.count("rsa:crafted-not-below-modulus")
                        continue
                    vb.add("crafted:" + kind, name, k, s2, digest, pad, alg, sl,
                           expect_valid=True if kind == "sha1-no-null-documented" else None)
    vb.flush()


def rsa_wrong_key(ctx, keys, vb):
    rng = ctx.rng
    usable = [x for x in keys if x[1].key_type == "rsa"]
    for i, (name, k, _) in enumerate(usable):
        other = usable[(i + 1) % len(usable)]
        if other[0] == name:
            continue
        digest = H("sha256", b"wrong key")
        t = RFC_DIGESTINFO["sha256"] + digest
        K = (int(k.n).bit_length() + 7) // 8
        if K < len(t) + 11:
            continue
        sig = raw_sign(k, b"\x00\x01" + b"\xff" * (K - len(t) - 3) + b"\x00" + t)
        vb.add("wrong-key", other[0], other[1], sig, digest, "pkcs1", "sha256", 0)
        ko = other[1]
        Ko = (int(ko.n).bit_length() + 7) // 8
        if Ko != K:
            adj = sig[-Ko:] if Ko < K else b"\x00" * (Ko - K) + sig
            vb.add("wrong-key", other[0], ko, adj, digest, "pkcs1", "sha256", 0)
    # rsa-pss keys refuse PKCS#1 v1.5 altogether
    for name, k, _ in keys:
        if k.key_type == "rsa-pss":
            digest = H("sha256", b"pss only")
            t = RFC_DIGESTINFO["sha256"] + digest
            K = (int(k.n).bit_length() + 7) // 8
            sig = raw_sign(k, b"\x00\x01" + b"\xff" * (K - len(t) - 3) + b"\x00" + t)
            vb.add("pkcs1-with-pss-key", name, k, sig, digest, "pkcs1", "sha256", 0)
    vb.flush()


def rsa_pss_encoding(ctx):
    """MGF1 / EMSA_PSS_encode / EMSA_PSS_verify vs the model for many (emBits, hash, salt length),
    including every emBits mod 8; oracle: the independent encoder / verifier"""
    import tlslite.utils.rsakey as rk
    from tlslite.utils.python_rsakey import Python_RSAKey
    lc = ctx.lean()
    rng = ctx.rng
    k = Python_RSAKey(n=3 * 5, e=3)
    lines, exp = [], []
    for alg in PY_HASHES:
        hl = hlen(alg)
        for ml in sorted(set([0, 1, hl - 1, hl, hl + 1, 2 * hl, 3 * hl + 7, 255])):
            seed = bytes(rng.getrandbits(8) for _ in range(rng.choice([0, 1, hl])))
            got = bytes(k.MGF1(bytearray(seed), ml, alg))
            want = ref_mgf1(seed, ml, alg)
            ctx.case(key=("mgf1", alg, ml, seed), sample=None)
            ctx.count("rsa:mgf1")
            if got != want:
                ctx.violation("c10:mgf1", "MGF1(%s, %d) differs from RFC 8017 B.2.1" % (alg, ml),
                              {"stage": "mgf1", "alg": alg, "seed": seed.hex(), "len": ml, "got": got.hex()})
            pairs = [(seed + c.to_bytes(4, "big"), H(alg, seed + c.to_bytes(4, "big"))) for c in range((ml + hl - 1) // hl)]
            lines.append("mgf1 %d %d %s %s" % (hl, ml, hx(seed), hash_table(pairs))); exp.append(hx(got))
        embits_list = [8 * (2 * hl + 2) + d for d in range(-9, 9)] + [8 * (hl + 2) + d for d in (-8, -7, -1, 0, 1)] + [1023, 1024, 2047]
        for embits in embits_list:
            if embits <= 0:
                continue
            emlen = (embits + 7) // 8
            for sl in sorted(set([0, 1, hl, emlen - hl - 2, emlen - hl - 1])):
                if sl < 0 or sl > 600:
                    continue
                salt = bytes(rng.getrandbits(8) for _ in range(sl))
                mh = H(alg, b"m" + bytes([sl & 0xff]))
                with Patched((rk, "getRandomBytes", lambda n, s=salt: bytearray(s[:n]))):
                    r = call(k.EMSA_PSS_encode, bytearray(mh), embits, alg, sl)
                inp = b"\x00" * 8 + mh + salt
                hh = H(alg, inp)
                pairs = [(inp, hh)] + [(hh + c.to_bytes(4, "big"), H(alg, hh + c.to_bytes(4, "big")))
                                       for c in range((max(0, emlen - hl - 1) + hl - 1) // hl)]
                lines.append("pssenc %d %d %s %s %s" % (hl, embits, hx(mh), hx(salt), hash_table(pairs)))
                exp.append(hx(r[1]) if r[0] == "ok" else "err:" + r[1])
                ctx.case(key=("pssenc", alg, embits, sl), sample=None)
                ctx.count("rsa:pss-encode")
                if r[0] == "ok":
                    em = bytes(r[1])
                    # oracle: a number below 2^emBits of emLen bytes that the verifier accepts
                    if len(em) != emlen or int.from_bytes(em, "big") >> embits:
                        ctx.violation("c10:pss-encode-shape", "EMSA_PSS_encode output has wrong length / leftmost bits",
                                      {"stage": "pssenc", "alg": alg, "embits": embits, "salt": salt.hex(), "mhash": mh.hex(), "em": em.hex()})
                    rv = call(k.EMSA_PSS_verify, bytearray(mh), bytearray(em), embits, alg, sl)
                    if rv != ("ok", True):
                        ctx.violation("c10:pss-encode-verify", "EMSA_PSS_verify rejects EMSA_PSS_encode output",
                                      {"stage": "pssenc", "alg": alg, "embits": embits, "salt": salt.hex(), "mhash": mh.hex(), "em": em.hex()})
                    lines.append("pssver %d %d %d %s %s %s" % (hl, embits, sl, hx(mh), hx(em), hash_table(pss_tables_em(em, embits, mh, alg, sl))))
                    exp.append("ok")
                    # every single-byte deformation of a short EM goes through verify as well
                    if emlen <= 2 * hl + 4 and alg in ("sha1", "sha256"):
                        for pos in range(len(em)):
                            e2 = bytearray(em)
                            e2[pos] ^= rng.choice([1, 0x80, 0xff])
                            rv = call(k.EMSA_PSS_verify, bytearray(mh), bytearray(e2), embits, alg, sl)
                            ctx.case(key=("pssver-mut", alg, embits, sl, pos), sample=None)
                            ctx.count("rsa:pss-verify-mutated-em")
                            if rv == ("ok", True):
                                ctx.violation("c10:pss-accepts-deformed-em", "EMSA_PSS_verify accepts a deformed encoded message",
                                              {"stage": "pssver", "alg": alg, "embits": embits, "slen": sl, "mhash": mh.hex(), "em": bytes(e2).hex()})
                            lines.append("pssver %d %d %d %s %s %s" % (hl, embits, sl, hx(mh), hx(e2),
                                                                     hash_table(pss_tables_em(bytes(e2), embits, mh, alg, sl))))
                            exp.append("ok" if rv == ("ok", True) else "err:" + (rv[1] if rv[0] == "err" else "returned-" + str(rv[1])))
                else:
                    if emlen >= hl + sl + 2:
                        ctx.violation("c10:pss-encode-fails", "EMSA_PSS_encode raised %s although emLen >= hLen+sLen+2" % r[1],
                                      {"stage": "pssenc", "alg": alg, "embits": embits, "salt": salt.hex(), "mhash": mh.hex()})
    if lc is not None:
        out = lc.batch(lines)
        for l, o, e in zip(lines, out, exp):
            ctx.compared()
            if o != e:
                ctx.disagree("rsa-pss-encoding", l[:200], o[:200], e[:200])


def rsa_key_faults(ctx, keys, vb):
    """a computation fault in the private operation (wrong CRT half, flipped bit, off by one):
    sign() returns the faulty value (documented: RSAKey.sign does not check), verify() under the
    signer's own public key must reject it — this is what the send-path guards rely on"""
    rng = ctx.rng
    for name, k, _ in keys:
        n = int(k.n)
        K = (n.bit_length() + 7) // 8
        if K < 62:
            continue
        orig = k._rawPrivateKeyOpHelper

        def f_plus1(m):
            return orig(m) + 1

        def f_bit(m):
            return orig(m) ^ (1 << rng.randrange(n.bit_length() - 2))

        def f_crt(m):
            # fault in the mod-p half only (the classic Bellcore fault)
            s1 = (pow(m, int(k.dP), int(k.p)) + 1) % int(k.p)
            s2 = pow(m, int(k.dQ), int(k.q))
            h = ((s1 - s2) * int(k.qInv)) % int(k.p)
            return s2 + int(k.q) * h

        def f_zero(m):
            return 0
        for fname, f in (("plus1", f_plus1), ("bitflip", f_bit), ("crt-half", f_crt), ("zero", f_zero)):
            for pad, alg, sl in (("pkcs1", "sha256", 0), ("pss", "sha256", 32)):
                if pad == "pkcs1" and k.key_type == "rsa-pss":
                    continue
                if pad == "pss" and (n.bit_length() - 1 + 7) // 8 < 66:
                    sl = 0
                digest = H(alg, b"fault " + fname.encode())
                with Patched((k, "_rawPrivateKeyOpHelper", f)):
                    r = call(k.sign, bytearray(digest), pad, alg, sl)
                ctx.count("rsa:key-fault")
                if r[0] != "ok":
                    ctx.case(key=("fault", name, fname, pad), sample=None)
                    continue
                impl, ref = vb.add("faulty-signature", name, k, bytes(r[1]), digest, pad, alg, sl)
    vb.flush()


def run_rsa(ctx, ossl):
    keys = rsa_keys(ctx, ossl)
    ctx.extra["rsa_keys"] = ["%s:%d%s" % (n, int(k.n).bit_length(), "/pss" if k.key_type == "rsa-pss" else "") for n, k, _ in keys]
    if not ctx.thorough():
        # quick: both 1024-bit-class keys, two 2048-bit ones incl. the rsa-pss one, all generated ones
        keep = []
        seen2048 = 0
        for x in keys:
            bits = int(x[1].n).bit_length()
            if bits > 2048:
                continue
            if bits == 2048:
                if x[1].key_type == "rsa-pss" or seen2048 == 0:
                    keep.append(x)
                    seen2048 += 0 if x[1].key_type == "rsa-pss" else 1
                continue
            keep.append(x)
        keys = keep
    vb = RsaVerifyBatch(ctx)
    rsa_basics(ctx)
    rsa_pss_encoding(ctx)
    rsa_private_ops(ctx, keys)
    rsa_roundtrips(ctx, keys, ossl, vb)
    vb.flush()
    rsa_mutations(ctx, keys, vb)
    rsa_wrong_key(ctx, keys, vb)
    rsa_key_faults(ctx, keys, vb)
    return keys


# ---------------------------------------------------------------------------------------------
# key agreement: FFDH, ECDH (NIST / brainpool), X25519 / X448
# ---------------------------------------------------------------------------------------------

RFC7919_X = {2048: 560316, 3072: 2625351, 4096: 5736041, 6144: 15705020, 8192: 10965728}


def rfc7919_prime(bits):
    """p = 2^b - 2^(b-64) + ([2^(b-130) e] + X) * 2^64 - 1   (RFC 7919 appendix A), e by its series"""
    guard = 128
    scale = 1 << (bits - 130 + guard)
    total, term, k = 0, scale, 0
    while term:
        total += term
        k += 1
        term //= k
    fl = total >> guard
    return (1 << bits) - (1 << (bits - 64)) + (fl + RFC7919_X[bits]) * (1 << 64) - 1


def min_bytes(x):
    return x.to_bytes(max(1, (x.bit_length() + 7) // 8), "big")


def ffdh_groups(ctx):
    """[(label, group id or 0, g, p)]"""
    from tlslite.constants import GroupName
    from tlslite.keyexchange import FFDHKeyExchange
    from tlslite import mathtls
    res = []
    for gid in GroupName.allFF:
        kex = FFDHKeyExchange(gid, (3, 3))
        res.append((GroupName.toStr(gid), gid, int(kex.generator), int(kex.prime)))
    res.append(("toy23", 0, 5, 23))
    res.append(("toy2039", 0, 7, 2039))          # safe prime 2*1019+1
    res.append(("nonsafe607", 0, 3, 607))        # 606 = 2*3*101: has elements of order 3
    for i, (g, p) in enumerate(getattr(mathtls, "goodGroupParameters", [])[:ctx.pick(2, 7)]):
        res.append(("srp%d" % i, 0, int(g), int(p)))
    return res


def run_ffdh(ctx):
    from tlslite.keyexchange import FFDHKeyExchange
    from tlslite.errors import TLSIllegalParameterException
    from tlslite.constants import GroupName
    lc = ctx.lean()
    rng = ctx.rng
    lines, exp = [], []
    groups = ffdh_groups(ctx)
    # the named groups are the RFC 7919 ones (independent formula)
    for label, gid, g, p in groups:
        if gid:
            bits = p.bit_length()
            ctx.case(key=("ffdhe-const", gid), sample=None)
            want = rfc7919_prime(bits) if bits in RFC7919_X else None
            if g != 2 or want != p or gid != {2048: 256, 3072: 257, 4096: 258, 6144: 259, 8192: 260}.get(bits):
                ctx.violation("c10:ffdhe-group-constant", "group %s is not the RFC 7919 group (g=%d, %d bits)" % (label, g, bits),
                              {"stage": "ffdhe-const", "group": gid, "g": g, "p": nh(p)})
    # constructor checks
    for label, gid, g, p in groups:
        for (ggid, gg, pp) in [(gid, 0 if gid else g, 0 if gid else p), (0, 0, p), (0, 1, p), (0, 2, p), (0, p - 1, p), (0, p, p),
                               (0, p + 1, p), (gid, g, p) if gid else (256, g, p)]:
            for ver in ((3, 3), (3, 4)):
                r = call(lambda: FFDHKeyExchange(ggid, ver, gg if (gg or not ggid) else None, pp if (pp or not ggid) else None))
                want_ok = (ggid != 0 and pp == 0) or (ggid == 0 and 1 < gg < pp)
                ctx.case(key=("ffnew", label, ggid, gg, pp, ver), sample=None)
                ctx.count("ffdh:constructor")
                if (r[0] == "ok") != want_ok or (r[0] == "err" and r[1] not in ("TLSIllegalParameterException", "ValueError")):
                    ctx.violation("c10:ffdh-constructor", "FFDHKeyExchange(%s, g=%s) -> %s, expected %s" %
                                  (ggid, nh(gg)[:16], r[0] + ":" + str(r[1])[:40], "ok" if want_ok else "refusal"),
                                  {"stage": "ffnew", "group": ggid, "g": nh(gg), "p": nh(pp), "ver": list(ver)})
                io = ("ok %s %s" % (nh(r[1].generator), nh(r[1].prime))) if r[0] == "ok" else "err:" + r[1]
                lines.append("ffnew %d %d %s %s" % (ggid, 1 if ver >= (3, 4) else 0, nh(gg), nh(pp))); exp.append(io)
    # honest exchanges and share classes
    for label, gid, g, p in groups:
        K = (p.bit_length() + 7) // 8
        for ver in ((3, 3), (3, 4)):
            t13 = ver >= (3, 4)
            kex = FFDHKeyExchange(gid, ver) if gid else FFDHKeyExchange(0, ver, g, p)
            for rep in range(ctx.pick(2, 6) if p.bit_length() <= 4096 else ctx.pick(1, 3)):
                a = int(kex.get_random_private_key()) if p > 5000 else rng.randrange(2, p - 2)
                b = int(kex.get_random_private_key()) if p > 5000 else rng.randrange(2, p - 2)
                ya, yb = call(kex.calc_public_value, a), call(kex.calc_public_value, b)
                for priv, r in ((a, ya), (b, yb)):
                    if r[0] == "ok":
                        io = ("bytes " + hx(r[1])) if t13 else ("int " + nh(r[1]))
                        yv = pow(g, priv, p)
                        good = (bytes(r[1]) == yv.to_bytes(K, "big")) if t13 else (int(r[1]) == yv)
                        if not good or yv in (1, p - 1):
                            ctx.violation("c10:ffdh-public-value", "calc_public_value wrong or degenerate (%s)" % label,
                                          {"stage": "ffpub", "g": nh(g), "p": nh(p), "ver": list(ver), "priv": nh(priv)})
                    else:
                        io = "err:" + r[1]
                    lines.append("ffpub %s %s %d %s" % (nh(g), nh(p), 1 if t13 else 0, nh(priv))); exp.append(io)
                ctx.case(key=("ffdh-honest", label, ver, a, b), sample={"stage": "ffdh-honest", "group": label, "ver": list(ver)} if rep == 0 and t13 else None)
                ctx.count("ffdh:honest")
                if ya[0] != "ok" or yb[0] != "ok":
                    continue
                sa, sb = call(kex.calc_shared_key, a, yb[1]), call(kex.calc_shared_key, b, ya[1])
                s = pow(g, a * b, p)
                want = s.to_bytes(K, "big") if t13 else min_bytes(s)
                if s in (0, 1, p - 1):
                    ok = sa[0] == "err" and sb[0] == "err"
                else:
                    ok = sa[0] == "ok" and sb[0] == "ok" and bytes(sa[1]) == bytes(sb[1]) == want
                if not ok:
                    ctx.violation("c10:ffdh-agreement", "both sides of an FFDH exchange do not derive g^(ab) mod p (%s, %s)" % (label, ver),
                                  {"stage": "ffdh-honest", "g": nh(g), "p": nh(p), "ver": list(ver), "a": nh(a), "b": nh(b),
                                   "sa": str(sa)[:80], "sb": str(sb)[:80]})
                for priv, peer, r in ((a, yb[1], sa), (b, ya[1], sb)):
                    lines.append("ffshared %s %s %d %s %s %s" % (nh(g), nh(p), 1 if t13 else 0, nh(priv), "bytes" if t13 else "int",
                                                               hx(peer) if t13 else nh(peer)))
                    exp.append(hx(r[1]) if r[0] == "ok" else "err:" + r[1])
            # peer share classes
            priv = int(kex.get_random_private_key()) | 1 if p > 5000 else 7
            shares = [("zero", 0), ("one", 1), ("two", 2), ("three", 3), ("p-2", p - 2), ("p-1", p - 1), ("p", p), ("p+1", p + 1),
                      ("2p", 2 * p), ("2^k<p", 1 << (p.bit_length() - 2)), ("2^k>p", 1 << p.bit_length()),
                      ("2^(8K)-1", (1 << (8 * K)) - 1), ("random", rng.randrange(2, p - 1)), ("random", rng.randrange(2, p - 1))]
            if p > 5000:
                shares.append(("order-2-subgroup-with-even-priv", p - 1))
            # degenerate results from in-range shares: the private value is a multiple of the share's order
            override = {}
            if p % 4 == 3 and p.bit_length() <= ctx.pick(4096, 8192):
                half = (p - 1) // 2          # safe prime p = 2q+1: 4 has order q, so 4^q = 1
                shares.append(("result-1-priv-multiple-of-order", 4))
                override["result-1-priv-multiple-of-order"] = half
                if pow(g, half, p) == p - 1:
                    shares.append(("result-p-1-priv-half-order", g))
                    override["result-p-1-priv-half-order"] = half
            if p == 607:
                y3 = next(pow(h, 202, 607) for h in range(2, 50) if pow(h, 202, 607) != 1)   # order 3
                shares.append(("result-1-order-3-share", y3))
                override["result-1-order-3-share"] = 3 * rng.randrange(1, 100)
                shares.append(("order-3-share-other-priv", y3))
                override["order-3-share-other-priv"] = 3 * rng.randrange(1, 100) + 1
            for cls, y in shares:
                forms = [("int", y)]
                if t13:
                    forms = []
                    if y < 1 << (8 * K):
                        forms.append(("bytes", y.to_bytes(K, "big")))
                    forms.append(("bytes-long", y.to_bytes(K + 1, "big") if y < 1 << (8 * (K + 1)) else y.to_bytes(K + 2, "big")))
                    if y < 1 << (8 * (K - 1)) and K > 1:
                        forms.append(("bytes-short", y.to_bytes(K - 1, "big")))
                    forms.append(("bytes-minimal", min_bytes(y)))
                    forms.append(("int", y))
                for form, val in forms:
                    pv = priv if cls != "order-2-subgroup-with-even-priv" else priv + 1
                    pv = override.get(cls, pv)
                    arg = bytearray(val) if form.startswith("bytes") else val
                    r = call(kex.calc_shared_key, pv, arg)
                    # property: out-of-range shares refused; wrong length refused (1.3); degenerate result refused
                    length_ok = (not form.startswith("bytes")) or len(val) == K
                    inrange = 2 <= y <= p - 2
                    sv = pow(y, pv, p) if inrange else None
                    must_refuse = (not length_ok) or (not inrange) or sv in (0, 1, p - 1)
                    ctx.case(key=("ffdh-share", label, ver, cls, form), sample={"stage": "ffdh-share", "group": label, "class": cls,
                                                                               "form": form} if cls == "p-1" and form == "bytes" else None)
                    ctx.count("ffdh-share:" + cls)
                    rep_d = {"stage": "ffshared", "g": nh(g), "p": nh(p), "group": gid, "ver": list(ver), "priv": nh(pv), "form": form,
                             "share": hx(val) if form.startswith("bytes") else nh(val), "class": cls}
                    if must_refuse:
                        if r[0] == "ok":
                            ctx.violation("c10:ffdh-accepts-bad-share-" + cls, "FFDH calc_shared_key accepted peer share %s (%s, %s, %s)"
                                          % (cls, form, label, ver), rep_d)
                        elif r[1] != "TLSIllegalParameterException":
                            ctx.violation("c10:ffdh-bad-share-wrong-exception", "FFDH calc_shared_key raised %s instead of "
                                          "TLSIllegalParameterException for share %s (%s)" % (r[1], cls, form), rep_d)
                    else:
                        want = sv.to_bytes(K, "big") if t13 else min_bytes(sv)
                        if r[0] != "ok" or bytes(r[1]) != want:
                            ctx.violation("c10:ffdh-rejects-good-share", "FFDH calc_shared_key failed on in-range share %s (%s): %s"
                                          % (cls, form, str(r)[:60]), rep_d)
                    lines.append("ffshared %s %s %d %s %s %s" % (nh(g), nh(p), 1 if t13 else 0, nh(pv),
                                                               "bytes" if form.startswith("bytes") else "int",
                                                               hx(val) if form.startswith("bytes") else nh(val)))
                    exp.append(hx(r[1]) if r[0] == "ok" else "err:" + r[1])
    if lc is not None:
        out = lc.batch(lines)
        for l, o, e in zip(lines, out, exp):
            ctx.compared()
            if o != e:
                ctx.disagree("ffdh", l[:160], o[:120], e[:120])


# RFC 7748 section 5.2 / 6.1 / 6.2 test vectors
X25519_VEC = [("a546e36bf0527c9d3b16154b82465edd62144c0ac1fc5a18506a2244ba449ac4",
               "e6db6867583030db3594c1a424b15f7c726624ec26b3353b10a903a6d0ab1c4c",
               "c3da55379de9c6908e94ea4df28d084f32eccf03491c71f754b4075577a28552"),
              ("4b66e9d4d1b4673c5ad22691957d6af5c11b6421e0ea01d42ca4169e7918ba0d",
               "e5210f12786811d3f4b7959d0538ae2c31dbe7106fc03c3efc4cd549c715a493",
               "95cbde9476e8907d7aade45cb4b873f88b595a68799fa152e6f8f7647aac7957"),
              # 6.1: Alice's private with the base point, Bob's private with Alice's public
              ("77076d0a7318a57d3c16c17251b26645df4c2f87ebc0992ab177fba51db92c2a",
               "0900000000000000000000000000000000000000000000000000000000000000",
               "8520f0098930a754748b7ddcb43ef75a0dbf3a0d26381af4eba4a98eaa9b4e6a"),
              ("5dab087e624a8a4b79e17f8b83800ee66f3bb1292618b6fd1c2f8b27ff88e0eb",
               "8520f0098930a754748b7ddcb43ef75a0dbf3a0d26381af4eba4a98eaa9b4e6a",
               "4a5d9d5ba4ce2de1728e3bf480350f25e07e21c947d19e3376f09b3c1e161742")]
X25519_ITER = {1: "422c8e7a6227d7bca1350b3e2bb7279f7897b87bb6854b783c60e80311ae3079",
               1000: "684cf59ba83309552800ef566f2f4d3c1c3887c49360e3875f2eb94d99532c51"}
X448_VEC = [("3d262fddf9ec8e88495266fea19a34d28882acef045104d0d1aae121700a779c984c24f8cdd78fbff44943eba368f54b29259a4f1c600ad3",
             "06fce640fa3487bfda5f6cf2d5263f8aad88334cbd07437f020f08f9814dc031ddbdc38c19c6da2583fa5429db94ada18aa7a7fb4ef8a086",
             "ce3e4ff95a60dc6697da1db1d85e6afbdf79b50a2412d7546d5f239fe14fbaadeb445fc66a01b0779d98223961111e21766282f73dd96b6f"),
            ("203d494428b8399352665ddca42f9de8fef600908e0d461cb021f8c538345dd77c3e4806e25f46d3315c44e0a5b4371282dd2c8d5be3095f",
             "0fbcc2f993cd56d3305b0b7d9e55d4c1a8fb5dbb52f8e9a1e9b6201b165d015894e56c4d3570bee52fe205e28a78b91cdfbde71ce8d157db",
             "884a02576239ff7a2f2f63b2db6a9ff37047ac13568e1e30fe63c4a7ad1b3ee3a5700df34321d62077e63633c575c1c954514e99da7c179d")]
X448_ITER = {1: "3f482c8a9f19b01e6c46ee9711d9dc14fd4bf67af30765c2ae2b846a4d23a8cd0db897086239492caf350b51f833868b9bc2b3bca9cf4113",
             1000: "aa3b4749d55b9daf1e5b00288826c467274ce3ebbdd5c17b975e09d4af6c67cf10d087202db88286e2b79fceea3ec353ef54faa26e219f38"}

P25519 = 2 ** 255 - 19
P448 = 2 ** 448 - 2 ** 224 - 1
# u-coordinates of the points of small order on Curve25519 (https://cr.yp.to/ecdh.html) and Curve448
LOW_ORDER_25519 = [0, 1, 325606250916557431795983626356110631294008115727848805560023387167927233504,
                   39382357235489614581723060781553021112529911719440698176882885853963445705823,
                   P25519 - 1, P25519, P25519 + 1]
LOW_ORDER_448 = [0, 1, P448 - 1, P448, P448 + 1]


def ref_x(k, u, bits):
    """RFC 7748 section 5 written from the RFC's pseudo-code (independent of tlslite/utils/x25519.py)"""
    n = (bits + 7) // 8
    kk = bytearray(k)
    if bits == 255:
        kk[0] &= 248; kk[31] &= 127; kk[31] |= 64
        p, a24 = P25519, 121665
    else:
        kk[0] &= 252; kk[55] |= 128
        p, a24 = P448, 39081
    kn = int.from_bytes(kk, "little")
    uu = bytearray(u)
    if bits % 8:
        uu[-1] &= (1 << (bits % 8)) - 1
    x1 = int.from_bytes(uu, "little") % p
    x2, z2, x3, z3, swap = 1, 0, x1, 1, 0
    for t in reversed(range(bits)):
        kt = (kn >> t) & 1
        swap ^= kt
        if swap:
            x2, x3, z2, z3 = x3, x2, z3, z2
        swap = kt
        A = (x2 + z2) % p; AA = A * A % p; B = (x2 - z2) % p; BB = B * B % p; E = (AA - BB) % p
        C = (x3 + z3) % p; D = (x3 - z3) % p; DA = D * A % p; CB = C * B % p
        x3 = (DA + CB) ** 2 % p; z3 = x1 * (DA - CB) ** 2 % p; x2 = AA * BB % p; z2 = E * (AA + a24 * E) % p
    if swap:
        x2, x3, z2, z3 = x3, x2, z3, z2
    return (x2 * pow(z2, p - 2, p) % p).to_bytes(n, "little")


def run_xcurves(ctx, ossl):
    from tlslite.utils import x25519 as xm
    from tlslite.keyexchange import ECDHKeyExchange
    from tlslite.constants import GroupName
    lc = ctx.lean()
    rng = ctx.rng
    lines, exp = [], []

    def rb(n):
        return bytes(rng.getrandbits(8) for _ in range(n))
    for nm, fn, size, vecs, iters, bits, P, low, gid in (
            ("x25519", xm.x25519, 32, X25519_VEC, X25519_ITER, 255, P25519, LOW_ORDER_25519, GroupName.x25519),
            ("x448", xm.x448, 56, X448_VEC, X448_ITER, 448, P448, LOW_ORDER_448, GroupName.x448)):
        def impl(k, u):
            return call(lambda: bytes(fn(bytearray(k), bytearray(u))))

        def one(kind, k, u, want=None):
            r = impl(k, u)
            ctx.case(key=(nm, kind, bytes(k), bytes(u)), sample={"stage": nm, "kind": kind, "k": bytes(k).hex(), "u": bytes(u).hex()}
                     if kind == "rfc-vector" and len(ctx.samples) < 5 else None)
            ctx.count(nm + ":" + kind)
            if want is None and len(k) == size and len(u) == size:
                want = ref_x(k, u, bits)
            if want is not None and (r[0] != "ok" or r[1] != want):
                ctx.violation("c10:%s-function-%s" % (nm, kind), "%s(k, u) differs from RFC 7748 (%s)" % (nm, kind),
                              {"stage": nm, "k": bytes(k).hex(), "u": bytes(u).hex(), "got": str(r)[:150], "want": want.hex()})
            lines.append("%s %s %s" % (nm, hx(k), hx(u))); exp.append(hx(r[1]) if r[0] == "ok" else "err:" + r[1])
            return r
        for k, u, out in vecs:
            one("rfc-vector", bytes.fromhex(k), bytes.fromhex(u), bytes.fromhex(out))
        # iterated vector
        k = u = (9 if bits == 255 else 5).to_bytes(size, "little")
        n_it = 1000 if (bits == 255 or ctx.thorough()) else 1
        for i in range(1, n_it + 1):
            r = impl(k, u)
            k, u = (r[1] if r[0] == "ok" else b""), k
            if i in iters and i <= n_it:
                ctx.case(key=(nm, "iter", i), sample=None)
                ctx.count(nm + ":rfc-iterated-%d" % i)
                if k.hex() != iters[i]:
                    ctx.violation("c10:%s-function-iterated" % nm, "%s iterated %d times differs from RFC 7748 section 5.2" % (nm, i),
                                  {"stage": nm + "-iter", "iterations": i, "got": k.hex()})
            if i % 97 == 0 or i < 4:
                lines.append("%s %s %s" % (nm, hx(u), hx(u)))
                exp.append(hx(bytes(fn(bytearray(u), bytearray(u)))))
        # random, clamping and masking behaviour, special u
        for _ in range(ctx.pick(25, 200)):
            one("random", rb(size), rb(size))
        kk = rb(size)
        base = rb(size)
        for u in ([x.to_bytes(size, "little") for x in low if x < 1 << (8 * size)] +
                  [(2 ** (8 * size) - 1).to_bytes(size, "little"), (P - 2).to_bytes(size, "little"), (2).to_bytes(size, "little")]):
            one("special-u", kk, u)
        if bits == 255:
            # the top bit of u is ignored; non-canonical u >= p is reduced
            u2 = bytearray(base); u2[31] |= 0x80
            u3 = bytearray(base); u3[31] &= 0x7f
            a, b = one("u-top-bit", kk, u2), one("u-top-bit", kk, u3)
            if a != b:
                ctx.violation("c10:x25519-top-bit", "x25519 does not mask the top bit of u", {"stage": nm, "k": kk.hex(), "u": bytes(u2).hex()})
        for flip in ((0, 0x07), (size - 1, 0x80), (size - 1, 0x40)) if bits == 255 else ((0, 0x03), (size - 1, 0x80)):
            k2 = bytearray(kk); k2[flip[0]] ^= flip[1]
            a, b = one("clamp", kk, base), one("clamp", k2, base)
            if a != b:
                ctx.violation("c10:%s-clamping" % nm, "%s scalar clamping wrong" % nm, {"stage": nm, "k": kk.hex(), "k2": bytes(k2).hex(), "u": base.hex()})
        for lk, lu in ((size - 1, size), (size, 0), (0, size), (size + 1, size), (size, size + 1), (size, size - 1)):
            one("odd-length", rb(lk), rb(lu))
        # ---- ECDHKeyExchange glue
        for ver in ((3, 3), (3, 4)):
            kex = ECDHKeyExchange(gid, ver)
            for rep in range(ctx.pick(3, 12)):
                a, b = kex.get_random_private_key(), kex.get_random_private_key()
                ya, yb = bytes(kex.calc_public_value(bytearray(a))), bytes(kex.calc_public_value(bytearray(b)))
                sa, sb = call(kex.calc_shared_key, bytearray(a), bytearray(yb)), call(kex.calc_shared_key, bytearray(b), bytearray(ya))
                ctx.case(key=(nm, "honest", bytes(a), bytes(b)), sample=None)
                ctx.count(nm + ":honest-exchange")
                g = (9 if bits == 255 else 5).to_bytes(size, "little")
                want = ref_x(a, ref_x(b, g, bits), bits)
                if not (sa[0] == "ok" and sb[0] == "ok" and bytes(sa[1]) == bytes(sb[1]) == want and len(ya) == size):
                    ctx.violation("c10:%s-agreement" % nm, "both sides of an %s exchange do not derive the same secret" % nm,
                                  {"stage": nm + "-honest", "a": bytes(a).hex(), "b": bytes(b).hex(), "sa": str(sa)[:100], "sb": str(sb)[:100]})
                lines.append("xshared %s %s %s" % (bits if bits == 448 else 25519, hx(a), hx(yb)))
                exp.append(hx(sa[1]) if sa[0] == "ok" else "err:" + sa[1])
            priv = kex.get_random_private_key()
            bad = [("all-zero", bytes(size))]
            bad += [("low-order", x.to_bytes(size, "little")) for x in low if x < 1 << (8 * size)]
            if bits == 255:
                bad += [("low-order-top-bit", (x | (1 << 255)).to_bytes(size, "little")) for x in low]
            bad += [("wrong-length", rb(size - 1)), ("wrong-length", rb(size + 1)), ("wrong-length", b""), ("wrong-length", rb(2 * size)),
                    ("wrong-length", bytes(size - 1)), ("wrong-length", b"\x04" + rb(size))]
            for cls, share in bad:
                r = call(kex.calc_shared_key, bytearray(priv), bytearray(share))
                ctx.case(key=(nm, "bad-share", cls, share, ver), sample={"stage": "xshared", "group": nm, "class": cls, "share": share.hex()}
                         if cls == "low-order" and share[0] == 1 and ver == (3, 4) else None)
                ctx.count(nm + "-share:" + cls)
                rep_d = {"stage": "xshared", "group": nm, "ver": list(ver), "priv": bytes(priv).hex(), "share": share.hex(), "class": cls}
                if r[0] == "ok":
                    ctx.violation("c10:%s-accepts-bad-share-%s" % (nm, cls), "%s calc_shared_key accepted a %s peer share (result %s)"
                                  % (nm, cls, bytes(r[1]).hex()[:32]), rep_d)
                elif r[1] != "TLSIllegalParameterException":
                    ctx.violation("c10:%s-bad-share-wrong-exception" % nm, "%s calc_shared_key raised %s for a %s share" % (nm, r[1], cls), rep_d)
                lines.append("xshared %s %s %s" % (bits if bits == 448 else 25519, hx(priv), hx(share)))
                exp.append(hx(r[1]) if r[0] == "ok" else "err:" + r[1])
    if lc is not None:
        out = lc.batch(lines)
        for l, o, e in zip(lines, out, exp):
            ctx.compared()
            if o != e:
                ctx.disagree("x25519-x448", l[:200], o[:120], e[:120])


def ec_groups():
    from tlslite.constants import GroupName
    from tlslite.utils.ecc import getCurveByName
    res = []
    for gid in GroupName.allEC:
        if gid in (GroupName.x25519, GroupName.x448):
            continue
        try:
            getCurveByName(GroupName.toRepr(gid))
        except Exception:
            continue
        res.append(gid)
    return res


def run_ecdh(ctx, ossl):
    """NIST / brainpool ECDH through calc_shared_key: agreement, openssl cross-check, share classes"""
    from tlslite.keyexchange import ECDHKeyExchange
    from tlslite.constants import GroupName
    from tlslite.utils.ecc import getCurveByName
    rng = ctx.rng
    ossl_names = {"secp192r1": "prime192v1", "secp224r1": "secp224r1", "secp256k1": "secp256k1", "secp256r1": "prime256v1",
                  "secp384r1": "secp384r1", "secp521r1": "secp521r1", "brainpoolP256r1": "brainpoolP256r1",
                  "brainpoolP384r1": "brainpoolP384r1", "brainpoolP512r1": "brainpoolP512r1"}
    for gid in ec_groups():
        gname = GroupName.toRepr(gid)
        curve = getCurveByName(gname)
        P = curve.curve.p()
        clen = (P.bit_length() + 7) // 8
        for ver in ((3, 3), (3, 4)):
            kex = ECDHKeyExchange(gid, ver)
            for rep in range(ctx.pick(1, 4)):
                a, b = kex.get_random_private_key(), kex.get_random_private_key()
                ya, yb = bytes(kex.calc_public_value(a)), bytes(kex.calc_public_value(b))
                sa, sb = call(kex.calc_shared_key, a, bytearray(yb)), call(kex.calc_shared_key, b, bytearray(ya))
                # integer private value path (what the TLS 1.2 client uses)
                ai = int(a.privkey.secret_multiplier)
                sc = call(kex.calc_shared_key, ai, bytearray(yb))
                ctx.case(key=("ecdh-honest", gid, ver, ya, yb), sample={"stage": "ecdh-honest", "group": gname} if rep == 0 and ver == (3, 4) and gid == 23 else None)
                ctx.count("ecdh:honest")
                ok = sa[0] == sb[0] == sc[0] == "ok" and bytes(sa[1]) == bytes(sb[1]) == bytes(sc[1]) and len(sa[1]) == clen \
                    and len(ya) == 1 + 2 * clen and ya[0] == 4
                if not ok:
                    ctx.violation("c10:ecdh-agreement", "both sides of an ECDH exchange on %s do not derive the same secret" % gname,
                                  {"stage": "ecdh-honest", "group": gid, "ver": list(ver), "a": nh(ai), "yb": yb.hex(),
                                   "sa": str(sa)[:90], "sb": str(sb)[:90], "sc": str(sc)[:90]})
            # second implementation: openssl derives the same secret from its own key and our share
            base = gname.replace("tls13", "")
            if ossl.exe and base in ossl_names and ver == (3, 4):
                rc, out, err = ossl.run(["genpkey", "-algorithm", "EC", "-pkeyopt", "ec_paramgen_curve:" + ossl_names[base],
                                         "-out", ossl.path("ecpriv.pem")])
                rc2, spki, _ = ossl.run(["pkey", "-in", ossl.path("ecpriv.pem"), "-pubout", "-outform", "DER"])
                if rc == 0 and rc2 == 0 and len(spki) > 1 + 2 * clen:
                    prefix, opoint = spki[:-(1 + 2 * clen)], spki[-(1 + 2 * clen):]
                    a = kex.get_random_private_key()
                    ya = bytes(kex.calc_public_value(a))
                    ossl.write("peer.der", prefix + ya)
                    rc3, secret, err3 = ossl.run(["pkeyutl", "-derive", "-inkey", ossl.path("ecpriv.pem"), "-peerform", "DER",
                                                  "-peerkey", ossl.path("peer.der")])
                    sa = call(kex.calc_shared_key, a, bytearray(opoint))
                    ctx.case(key=("ecdh-openssl", gid, ya), sample=None)
                    ctx.count("openssl:ecdh-derive")
                    if rc3 == 0 and (sa[0] != "ok" or bytes(sa[1]) != secret):
                        ctx.violation("c10:ecdh-differs-from-openssl", "ECDH secret on %s differs from the one openssl derives" % gname,
                                      {"stage": "ecdh-openssl", "group": gid, "a": nh(int(a.privkey.secret_multiplier)), "peer": opoint.hex(),
                                       "openssl": secret.hex(), "tlslite": str(sa)[:100]})
            # peer share classes
            priv = kex.get_random_private_key()
            good = bytes(kex.calc_public_value(kex.get_random_private_key()))
            x, y = good[1:1 + clen], good[1 + clen:]
            yi = int.from_bytes(y, "big")
            comp = bytes([2 + (yi & 1)]) + x
            hyb = bytes([6 + (yi & 1)]) + x + y
            offc = bytearray(good); offc[-1] ^= 1
            bad = [("off-curve", bytes(offc)), ("off-curve", b"\x04" + x + bytes(clen)), ("off-curve-zero-zero", b"\x04" + bytes(2 * clen)),
                   ("coordinate>=p", b"\x04" + (P + 1).to_bytes(clen, "big") + y if (P + 1).bit_length() <= 8 * clen else b"\x04" + b"\xff" * clen + y),
                   ("infinity", b"\x00"), ("empty", b""), ("wrong-length", good[:-1]), ("wrong-length", good + b"\x00"),
                   ("wrong-length", good[1:]), ("wrong-prefix", b"\x05" + good[1:]), ("wrong-prefix", b"\x00" + good[1:]),
                   ("compressed-not-offered", comp), ("hybrid-not-offered", hyb), ("raw-no-prefix", x + y),
                   ("compressed-wrong-length", comp[:-1])]
            for cls, share in bad:
                for pv in (priv, int(priv.privkey.secret_multiplier)):
                    r = call(kex.calc_shared_key, pv, bytearray(share))
                    ctx.case(key=("ecdh-share", gid, ver, cls, share, isinstance(pv, int)), sample=None)
                    ctx.count("ecdh-share:" + cls)
                    rep_d = {"stage": "ecdh-share", "group": gid, "ver": list(ver), "priv": nh(int(priv.privkey.secret_multiplier)),
                             "share": share.hex(), "class": cls, "int_private": isinstance(pv, int)}
                    if r[0] == "ok":
                        ctx.violation("c10:ecdh-accepts-bad-share-" + cls, "ECDH calc_shared_key on %s accepted a %s peer share" % (gname, cls), rep_d)
                    elif r[1] != "TLSIllegalParameterException":
                        ctx.violation("c10:ecdh-bad-share-wrong-exception", "ECDH calc_shared_key on %s raised %s for a %s share" % (gname, r[1], cls), rep_d)
            # compressed / hybrid forms are fine when the caller allows them, and give the same secret
            base_s = call(kex.calc_shared_key, priv, bytearray(good))
            for cls, share, fmts in (("compressed-offered", comp, ("uncompressed", "compressed")), ("hybrid-offered", hyb, ("hybrid", "uncompressed"))):
                r = call(kex.calc_shared_key, priv, bytearray(share), fmts)
                ctx.case(key=("ecdh-share", gid, ver, cls, share), sample=None)
                ctx.count("ecdh-share:" + cls)
                if r[0] != "ok" or base_s[0] != "ok" or bytes(r[1]) != bytes(base_s[1]):
                    ctx.violation("c10:ecdh-point-format", "ECDH on %s: %s share gives %s" % (gname, cls, str(r)[:60]),
                                  {"stage": "ecdh-share", "group": gid, "ver": list(ver), "share": share.hex(), "class": cls})
            # an empty format list: the docstring promises TLSDecodeError, python-ecdsa treats an empty
            # valid_encodings as "all encodings" — not a peer-value class of C10, recorded only
            r = call(kex.calc_shared_key, priv, bytearray(good), ())
            ctx.count("ecdh-share:empty-format-list->" + (r[0] if r[0] == "ok" else r[1]))


def run_x_openssl(ctx, ossl):
    """X25519 / X448 against openssl's derive"""
    from tlslite.keyexchange import ECDHKeyExchange
    from tlslite.constants import GroupName
    if not ossl.exe:
        return
    for nm, gid, size in (("X25519", GroupName.x25519, 32), ("X448", GroupName.x448, 56)):
        kex = ECDHKeyExchange(gid, (3, 4))
        for rep in range(ctx.pick(2, 6)):
            rc, out, err = ossl.run(["genpkey", "-algorithm", nm, "-out", ossl.path("xpriv.pem")])
            rc2, spki, _ = ossl.run(["pkey", "-in", ossl.path("xpriv.pem"), "-pubout", "-outform", "DER"])
            if rc or rc2 or len(spki) <= size:
                continue
            prefix, opub = spki[:-size], spki[-size:]
            a = kex.get_random_private_key()
            ya = bytes(kex.calc_public_value(bytearray(a)))
            ossl.write("peer.der", prefix + ya)
            rc3, secret, _ = ossl.run(["pkeyutl", "-derive", "-inkey", ossl.path("xpriv.pem"), "-peerform", "DER", "-peerkey", ossl.path("peer.der")])
            sa = call(kex.calc_shared_key, bytearray(a), bytearray(opub))
            ctx.case(key=("x-openssl", nm, ya), sample=None)
            ctx.count("openssl:%s-derive" % nm.lower())
            if rc3 == 0 and (sa[0] != "ok" or bytes(sa[1]) != secret):
                ctx.violation("c10:%s-differs-from-openssl" % nm.lower(), "%s secret differs from the one openssl derives" % nm,
                              {"stage": "x-openssl", "group": nm, "a": bytes(a).hex(), "peer": opub.hex(), "openssl": secret.hex(),
                               "tlslite": str(sa)[:150]})


# ---------------------------------------------------------------------------------------------
# ECDSA, EdDSA, DSA (python-ecdsa / python_dsakey.py): round trips, openssl as second
# implementation, mutation search with openssl as judge
# ---------------------------------------------------------------------------------------------

def asn1_int(x, extra=0):
    b = x.to_bytes((x.bit_length() + 8) // 8, "big")
    b = b"\x00" * extra + b
    return b"\x02" + der_len(len(b)) + b


def asn1_seq(body, longform=False):
    if longform and len(body) < 128:
        return b"\x30\x81" + bytes([len(body)]) + body
    return b"\x30" + der_len(len(body)) + body


def parse_rs(sig):
    """minimal strict DER parser for SEQUENCE { INTEGER r, INTEGER s } (returns None if not canonical)"""
    try:
        sig = bytes(sig)
        if sig[0] != 0x30:
            return None
        i = 2
        ln = sig[1]
        if ln & 0x80:
            nb = ln & 0x7f
            ln = int.from_bytes(sig[2:2 + nb], "big")
            i = 2 + nb
        if i + ln != len(sig):
            return None
        vals = []
        for _ in range(2):
            if sig[i] != 2:
                return None
            l2 = sig[i + 1]
            vals.append(int.from_bytes(sig[i + 2:i + 2 + l2], "big"))
            i += 2 + l2
        return vals if i == len(sig) else None
    except Exception:
        return None


def tl_verify(f, *a):
    """tlslite verdict: True / False; an exception is a refusal too (counted separately)"""
    r = call(f, *a)
    if r[0] == "ok":
        return bool(r[1]), None
    return False, r[1]


def judge(ctx, scheme, name, kind, impl, exc, ref, rep):
    """differential oracle: accepted by tlslite but refused by the second implementation (or the
    other way round for honest signatures)"""
    ctx.count("%s:%s" % (scheme, kind))
    if exc:
        ctx.count("%s:refused-by-exception:%s" % (scheme, exc))
    if ref is None:
        ctx.count("%s:no-second-opinion" % scheme)
        return
    if impl and not ref:
        ctx.violation("c10:%s-accepts-invalid-%s" % (scheme, kind.split(":")[0]),
                      "%s verify accepted a signature (%s, key %s) that openssl rejects" % (scheme, kind, name), rep)
    elif ref and not impl:
        ctx.violation("c10:%s-rejects-valid-%s" % (scheme, kind.split(":")[0]),
                      "%s verify rejected a signature (%s, key %s) that openssl accepts" % (scheme, kind, name), rep)


def run_ecdsa_dsa(ctx, ossl):
    rng = ctx.rng
    keys = [(n, p, k) for n, p, k in load_pem_keys(ctx) if type(k).__name__ in ("Python_ECDSAKey", "Python_DSAKey")]
    seen_curves = {}
    for name, path, k in keys:
        is_ec = type(k).__name__ == "Python_ECDSAKey"
        scheme = "ecdsa" if is_ec else "dsa"
        label = k.curve_name if is_ec else "dsa%d" % len(k)
        dup = seen_curves.get(label, 0)
        seen_curves[label] = dup + 1
        if dup >= (1 if not ctx.thorough() else 3):
            continue
        order = int(k.public_key.curve.order) if is_ec else int(k.q)
        algs = ["sha1", "sha224", "sha256", "sha384", "sha512"]
        for alg in algs if (ctx.thorough() or dup == 0) else ["sha256"]:
            msg = bytes(rng.getrandbits(8) for _ in range(rng.choice([0, 5, 64])))
            digest = H(alg, msg)
            if is_ec:
                # the TLS code truncates the hash to the curve size before sign()/verify()
                dg = digest[:k.private_key.curve.baselen]
                r = call(k.sign, bytearray(dg), None, alg)
            else:
                dg = digest
                r = call(k.sign, bytearray(dg))
            rep = {"stage": scheme, "key": name, "alg": alg, "digest": dg.hex()}
            ctx.case(key=(scheme, name, alg, dg), sample=dict(rep) if alg == "sha256" and dup == 0 and len(ctx.samples) < 6 else None)
            if r[0] != "ok":
                ctx.violation("c10:%s-sign-fails" % scheme, "%s sign raised %s (key %s, %s)" % (scheme, r[1], name, alg), rep)
                continue
            sig = bytes(r[1])
            rep["sig"] = sig.hex()
            v, exc = tl_verify(k.verify, bytearray(sig), bytearray(dg))
            ov = ossl.verify_digest(path, dg, sig, None) if ossl.exe else None
            if ov is not None:
                ctx.count("openssl:%s-verify" % scheme)
            if not v:
                ctx.violation("c10:%s-roundtrip" % scheme, "%s signature does not verify under its own key (%s, %s)" % (scheme, name, alg), rep)
            if ov is False:
                ctx.violation("c10:%s-sig-rejected-by-openssl" % scheme, "openssl rejects a %s signature made by tlslite (%s, %s)" % (scheme, name, alg), rep)
            ctx.count("%s:honest" % scheme)
            # hashAndSign / hashAndVerify wrappers
            if is_ec and len(digest) > k.private_key.curve.baselen:
                # hashAndSign() hands the untruncated digest to python-ecdsa, which refuses it (BadDigestError);
                # the TLS code truncates itself and calls sign()/verify(): recorded, not judged
                hs = call(k.hashAndSign, bytearray(msg), None, alg)
                ctx.count("ecdsa:hashAndSign-digest-longer-than-curve->" + (hs[0] if hs[0] == "ok" else hs[1]))
                hs = hv = None
            elif is_ec:
                hs = call(k.hashAndSign, bytearray(msg), None, alg)
                hv = call(k.hashAndVerify, bytearray(hs[1]) if hs[0] == "ok" else bytearray(), bytearray(msg), None, alg)
            else:
                hs = call(k.hashAndSign, bytearray(msg), alg)
                hv = call(k.hashAndVerify, bytearray(hs[1]) if hs[0] == "ok" else bytearray(), bytearray(msg), alg)
            ctx.case(key=(scheme, "hashAnd", name, alg, msg), sample=None)
            if hv is None:
                pass
            elif hv != ("ok", True):
                ctx.violation("c10:%s-hashAndVerify" % scheme, "%s hashAndVerify(hashAndSign(m), m) is %s (%s, %s)" % (scheme, str(hv)[:40], name, alg),
                              dict(rep, msg=msg.hex()))
            elif ossl.exe and (not is_ec or len(digest) <= 2 * k.private_key.curve.baselen):
                # openssl checks the untruncated digest (it truncates itself)
                ov2 = ossl.verify_digest(path, digest, bytes(hs[1]), None)
                if ov2 is False:
                    ctx.violation("c10:%s-sig-rejected-by-openssl" % scheme, "openssl rejects a %s hashAndSign signature (%s, %s)" % (scheme, name, alg),
                                  dict(rep, msg=msg.hex(), sig=bytes(hs[1]).hex()))
            # foreign signature
            if ossl.exe:
                osig = ossl.sign_digest(path, dg, None)
                if osig:
                    v2, exc2 = tl_verify(k.verify, bytearray(osig), bytearray(dg))
                    ctx.case(key=(scheme, "foreign", name, osig), sample=None)
                    ctx.count("%s:foreign" % scheme)
                    if not v2:
                        ctx.violation("c10:%s-rejects-valid-foreign" % scheme, "%s verify rejects an openssl-made signature (%s, %s)" % (scheme, name, alg),
                                      dict(rep, sig=osig.hex()))
            if alg != "sha256" and not ctx.thorough():
                continue
            # ---- mutations, judged by openssl
            rs = parse_rs(sig)
            muts = []
            for b in sorted(set([0, 1, 8, 15, 16, 8 * len(sig) - 1] + [rng.randrange(8 * len(sig)) for _ in range(ctx.pick(8, 40))])):
                s2 = bytearray(sig)
                s2[b // 8] ^= 0x80 >> (b % 8)
                muts.append(("bitflip", bytes(s2), dg))
            muts += [("length", sig[:-1], dg), ("length", sig + b"\x00", dg), ("length", b"", dg), ("length", sig[1:], dg),
                     ("length", sig + sig, dg), ("length", b"\x00" + sig, dg)]
            if rs:
                r_, s_ = rs
                muts += [("der-longform", asn1_seq(asn1_int(r_) + asn1_int(s_), True), dg),
                         ("der-extra-zero", asn1_seq(asn1_int(r_, 1) + asn1_int(s_)), dg),
                         ("der-extra-zero", asn1_seq(asn1_int(r_) + asn1_int(s_, 1)), dg),
                         ("der-inner-trailing", asn1_seq(asn1_int(r_) + asn1_int(s_) + b"\x05\x00"), dg),
                         ("der-negative", asn1_seq(b"\x02" + der_len(len(min_bytes(r_))) + min_bytes(r_) + asn1_int(s_)), dg),
                         ("range", asn1_seq(asn1_int(0) + asn1_int(s_)), dg), ("range", asn1_seq(asn1_int(r_) + asn1_int(0)), dg),
                         ("range", asn1_seq(asn1_int(r_ + order) + asn1_int(s_)), dg), ("range", asn1_seq(asn1_int(r_) + asn1_int(s_ + order)), dg),
                         ("range", asn1_seq(asn1_int(order) + asn1_int(s_)), dg), ("range", asn1_seq(asn1_int(r_) + asn1_int(order)), dg),
                         ("swapped", asn1_seq(asn1_int(s_) + asn1_int(r_)), dg),
                         ] + [("degenerate-r-s", asn1_seq(asn1_int(a) + asn1_int(b)), dg)
                              for a in (0, 1, 2, order - 1, order) for b in (0, 1, 2, order - 1, order)] + [
                         ("malleable-n-minus-s", asn1_seq(asn1_int(r_) + asn1_int(order - s_)), dg),
                         ("raw-r||s", r_.to_bytes((order.bit_length() + 7) // 8, "big") + s_.to_bytes((order.bit_length() + 7) // 8, "big"), dg)]
            d2 = bytearray(dg)
            d2[rng.randrange(len(d2))] ^= 1 << rng.randrange(8)
            muts += [("wrong-digest", sig, bytes(d2)), ("wrong-digest", sig, dg[:-1] + bytes([dg[-1] ^ 0x80])),
                     ("wrong-digest", sig, H("sha256" if alg != "sha256" else "sha384", msg)[:len(dg)])]
            for kind, s2, d3 in muts:
                v3, exc3 = tl_verify(k.verify, bytearray(s2), bytearray(d3))
                o3 = ossl.verify_digest(path, d3, s2, None) if ossl.exe else None
                if o3 is None and not ossl.exe and kind != "malleable-n-minus-s":
                    o3 = False          # without openssl: everything listed except the (r, n-s) twin is invalid by construction
                ctx.case(key=(scheme, name, kind, s2, d3), sample=None)
                judge(ctx, scheme, name, kind, v3, exc3, o3, dict(rep, sig=s2.hex(), digest=d3.hex(), kind=kind))
    # a signature verifies under nothing else: another key of the same type and curve refuses it
    bycurve = {}
    for name, path, k in keys:
        label = k.curve_name if type(k).__name__ == "Python_ECDSAKey" else "dsa%d" % len(k)
        bycurve.setdefault(label, []).append((name, k))
    for label, ks in bycurve.items():
        distinct = []
        for name, k in ks:
            pub = (k.public_key.pubkey.point.x() if label.startswith(("NIST", "BRAIN", "SECP")) else int(k.public_key))
            if pub not in [d[2] for d in distinct]:
                distinct.append((name, k, pub))
        for i in range(len(distinct) - 1):
            (n1, k1, _), (n2, k2, _) = distinct[i], distinct[i + 1]
            dg = H("sha256", b"wrong key")[:32]
            sig = k1.sign(bytearray(dg), None, "sha256") if label[:3] != "dsa" else k1.sign(bytearray(dg))
            v, exc = tl_verify(k2.verify, bytearray(sig), bytearray(dg))
            ctx.case(key=("wrong-key-ec", n1, n2), sample=None)
            ctx.count("%s:wrong-key" % ("dsa" if label[:3] == "dsa" else "ecdsa"))
            if v:
                ctx.violation("c10:signature-verifies-under-other-key", "a signature by %s verifies under %s" % (n1, n2),
                              {"stage": "wrong-key-ec", "signer": n1, "verifier": n2, "sig": bytes(sig).hex(), "digest": dg.hex()})
    # DSA key generation (python_dsakey.py): the generated domain parameters must be usable
    from tlslite.utils.python_dsakey import Python_DSAKey
    with DetRandom(ctx.rng):
        gk = call(Python_DSAKey.generate, 1024, 160)
    ctx.case(key=("dsa-generate",), sample=None)
    ctx.count("dsa:generate")
    if gk[0] != "ok":
        ctx.violation("c10:dsa-generate-unverifiable", "Python_DSAKey.generate raised " + gk[1], {"stage": "dsa-generate"})
    else:
        k = gk[1]
        p_, q_, g_ = int(k.p), int(k.q), int(k.g)
        rep = {"stage": "dsa-generate", "p": nh(p_), "q": nh(q_), "g": nh(g_), "x": nh(k.private_key), "y": nh(k.public_key)}
        d = H("sha1", b"generated key")
        sig = call(k.sign, bytearray(d))
        ok = (p_ - 1) % q_ == 0 and g_ != 1 and pow(g_, q_, p_) == 1 and sig[0] == "ok" and \
            call(k.verify, bytearray(sig[1]), bytearray(d)) == ("ok", True)
        if ok and ossl.exe:
            kf = ossl.write("dsagen.pem", dsa_priv_pem(k))
            ov = ossl.verify_digest(kf, d, bytes(sig[1]), None)
            ctx.count("openssl:dsa-generated-key")
            ok = ov is not False
        if not ok:
            ctx.violation("c10:dsa-generate-unverifiable", "a key from Python_DSAKey.generate(1024,160) cannot verify its own signature "
                          "(q | p-1: %s, g^q = 1: %s)" % ((p_ - 1) % q_ == 0, pow(g_, q_, p_) == 1), rep)


def run_eddsa(ctx, ossl):
    rng = ctx.rng
    L = {"Ed25519": 2 ** 252 + 27742317777372353535851937790883648493,
         "Ed448": 2 ** 446 - 13818066809895115352007386748515426880336692474882178609894547503885}
    seen = {}
    for name, path, k in load_pem_keys(ctx):
        if type(k).__name__ != "Python_EdDSAKey":
            continue
        n = seen.get(k.curve_name, 0)
        seen[k.curve_name] = n + 1
        if n >= ctx.pick(1, 3):
            continue
        scheme = k.curve_name.lower()
        half = 32 if k.curve_name == "Ed25519" else 57
        for rep_i in range(ctx.pick(2, 6)):
            msg = bytes(rng.getrandbits(8) for _ in range(rng.choice([0, 1, 64, 200])))
            r = call(k.hashAndSign, bytearray(msg))
            rep = {"stage": "eddsa", "key": name, "msg": msg.hex()}
            ctx.case(key=("eddsa", name, msg), sample=dict(rep) if rep_i == 0 and len(ctx.samples) < 6 else None)
            if r[0] != "ok":
                ctx.violation("c10:eddsa-sign-fails", "%s hashAndSign raised %s" % (scheme, r[1]), rep)
                continue
            sig = bytes(r[1])
            rep["sig"] = sig.hex()
            v, exc = tl_verify(k.hashAndVerify, bytearray(sig), bytearray(msg))
            ov = ossl.verify_raw(path, msg, sig) if ossl.exe else None
            if ov is not None:
                ctx.count("openssl:eddsa-verify")
            ctx.count("eddsa:honest")
            if not v or len(sig) != 2 * half:
                ctx.violation("c10:eddsa-roundtrip", "%s signature does not verify under its own key (%s)" % (scheme, name), rep)
            if ov is False:
                ctx.violation("c10:eddsa-sig-rejected-by-openssl", "openssl rejects an %s signature made by tlslite (%s)" % (scheme, name), rep)
            if ossl.exe:
                osig = ossl.sign_raw(path, msg)
                if osig:
                    v2, _ = tl_verify(k.hashAndVerify, bytearray(osig), bytearray(msg))
                    ctx.case(key=("eddsa-foreign", name, osig), sample=None)
                    ctx.count("eddsa:foreign")
                    if not v2 or osig != sig:      # EdDSA is deterministic: both implementations must agree byte for byte
                        ctx.violation("c10:eddsa-differs-from-openssl", "%s: tlslite and openssl signatures differ or do not verify (%s)" % (scheme, name),
                                      dict(rep, openssl_sig=osig.hex()))
            muts = []
            for b in sorted(set([0, 7, 8 * half - 1, 8 * half, 16 * half - 1] + [rng.randrange(16 * half) for _ in range(ctx.pick(10, 60))])):
                s2 = bytearray(sig)
                s2[b // 8] ^= 0x80 >> (b % 8)
                muts.append(("bitflip", bytes(s2), msg))
            sval = int.from_bytes(sig[half:], "little")
            muts += [("length", sig[:-1], msg), ("length", sig + b"\x00", msg), ("length", b"", msg), ("length", sig[1:], msg),
                     ("length", sig[:half], msg), ("length", sig + sig, msg), ("swapped", sig[half:] + sig[:half], msg),
                     ("zero", bytes(2 * half), msg), ("wrong-message", sig, msg + b"\x00"), ("wrong-message", sig, msg[:-1] if msg else b"x")]
            if sval + L[k.curve_name] < 1 << (8 * half):
                muts.append(("noncanonical-s-plus-L", sig[:half] + (sval + L[k.curve_name]).to_bytes(half, "little"), msg))
            for kind, s2, m2 in muts:
                v3, exc3 = tl_verify(k.hashAndVerify, bytearray(s2), bytearray(m2))
                o3 = ossl.verify_raw(path, m2, s2) if ossl.exe else None
                if o3 is None:
                    o3 = False          # no second opinion available: every mutation listed here is invalid by construction
                ctx.case(key=("eddsa", name, kind, s2, m2), sample=None)
                judge(ctx, "eddsa", name, kind, v3, exc3, o3, dict(rep, sig=s2.hex(), msg=m2.hex(), kind=kind))


# ---------------------------------------------------------------------------------------------
# sign-then-verify guards: scripted key objects through the real send-path functions, and
# fault injection into live in-memory handshakes
# ---------------------------------------------------------------------------------------------

class ScriptedKey(object):
    """duck-typed private key: sign returns `sig`, verify returns `ok` (what a faulty private
    operation followed by an honest verification looks like to the caller)"""

    def __init__(self, key_type, sig, ok):
        self.key_type = key_type
        self._sig, self._ok = sig, ok
        self.calls = []

        class _C(object):
            baselen = 32

        class _P(object):
            curve = _C()
        self.private_key = _P()

    def __len__(self):
        return 2048

    def sign(self, *a, **kw):
        self.calls.append("sign")
        return bytearray(self._sig)

    def hashAndSign(self, *a, **kw):
        self.calls.append("hashAndSign")
        return bytearray(self._sig)

    def verify(self, *a, **kw):
        self.calls.append("verify")
        return self._ok

    def hashAndVerify(self, *a, **kw):
        self.calls.append("hashAndVerify")
        return self._ok


def run_guards_unit(ctx):
    from tlslite.keyexchange import KeyExchange
    from tlslite.messages import ClientHello, ServerHello, ServerKeyExchange, CertificateRequest
    from tlslite.constants import CipherSuite, SignatureScheme, HashAlgorithm, SignatureAlgorithm
    from tlslite.handshakehashes import HandshakeHashes
    lc = ctx.lean()
    rng = ctx.rng
    lines, exp = [], []

    def rb(n):
        return bytearray(rng.getrandbits(8) for _ in range(n))
    ske_cases = [((3, 1), "rsa", None, "ske"), ((3, 2), "rsa", None, "ske"), ((3, 1), "ecdsa", None, "ske"), ((3, 2), "dsa", None, "ske"),
                 ((3, 3), "rsa", "sha256", "ske"), ((3, 3), "rsa", "rsa_pss_rsae_sha256", "ske"), ((3, 3), "rsa-pss", "rsa_pss_pss_sha384", "ske"),
                 ((3, 3), "ecdsa", "sha256", "skeecdsa"), ((3, 3), "ecdsa", "ecdsa_secp384r1_sha384", "skeecdsa"),
                 ((3, 3), "dsa", "sha1", "ske"), ((3, 3), "dsa", "sha256", "ske"),
                 ((3, 3), "Ed25519", "ed25519", "skeeddsa"), ((3, 3), "Ed448", "ed448", "skeeddsa")]
    for ver, ktype, sighash, site in ske_cases:
        for sig in (b"", bytes(rb(rng.choice([1, 64, 256])))):
            for okv in (True, False):
                key = ScriptedKey(ktype, sig, okv)
                ch = ClientHello().create(ver, rb(32), bytearray(0), [CipherSuite.TLS_DHE_RSA_WITH_AES_128_CBC_SHA])
                sh = ServerHello().create(ver, rb(32), bytearray(0), CipherSuite.TLS_DHE_RSA_WITH_AES_128_CBC_SHA)
                kex = KeyExchange(CipherSuite.TLS_DHE_RSA_WITH_AES_128_CBC_SHA, ch, sh, key)
                ske = ServerKeyExchange(CipherSuite.TLS_DHE_RSA_WITH_AES_128_CBC_SHA, ver).createDH(23, 5, 8)
                r = call(kex.signServerKeyExchange, ske, sighash)
                if r[0] == "ok":
                    out = "send " + hx(ske.signature)
                elif r[1] == "TLSInternalError":
                    out = "abort"
                else:
                    out = "err:" + r[1]
                ctx.case(key=("guard-ske", ver, ktype, sighash, sig, okv), sample={"stage": "guard-ske", "ver": list(ver), "key_type": ktype,
                                                                                 "sigHash": sighash, "sig": sig.hex(), "verify": okv, "out": out[:40]}
                         if not okv and sig and len(ctx.samples) < 6 else None)
                ctx.count("guard:ske-" + ktype)
                rep = {"stage": "guard-ske", "ver": list(ver), "key_type": ktype, "sigHash": sighash, "sig": sig.hex(), "verify": okv, "out": out[:80]}
                if (not okv or not sig) and out.startswith("send"):
                    ctx.violation("c10:guard-missing-ske-%s-%d%d" % (ktype.lower(), ver[0], ver[1]),
                                  "signServerKeyExchange put a signature that %s into ServerKeyExchange (key type %s, version %s, %s)"
                                  % ("does not verify" if not okv else "is empty", ktype, ver, sighash), rep)
                if okv and sig and out != "send " + hx(sig):
                    ctx.violation("c10:guard-blocks-valid-ske", "signServerKeyExchange did not send a verifying signature: %s" % out[:60], rep)
                lines.append("guard %s %s %d" % (site, hx(sig), 1 if okv else 0)); exp.append(out)
    cv_cases = [((3, 1), "rsa", None), ((3, 2), "ecdsa", None), ((3, 1), "dsa", None),
                ((3, 3), "rsa", [(HashAlgorithm.sha256, SignatureAlgorithm.rsa)]), ((3, 3), "rsa", [SignatureScheme.rsa_pss_rsae_sha256]),
                ((3, 3), "rsa-pss", [SignatureScheme.rsa_pss_pss_sha256]), ((3, 3), "ecdsa", [(HashAlgorithm.sha256, SignatureAlgorithm.ecdsa)]),
                ((3, 3), "dsa", [(HashAlgorithm.sha256, SignatureAlgorithm.dsa)]), ((3, 3), "Ed25519", [SignatureScheme.ed25519]),
                ((3, 3), "Ed448", [SignatureScheme.ed448])]
    for ver, ktype, algs in cv_cases:
        for sig in (b"", bytes(rb(rng.choice([1, 64, 256])))):
            for okv in (True, False):
                key = ScriptedKey(ktype, sig, okv)
                hh = HandshakeHashes()
                hh.update(rb(50))
                creq = CertificateRequest(ver)
                if ver == (3, 3):
                    creq.create([1, 64], [], algs)
                else:
                    creq.create([1, 64], [])
                r = call(KeyExchange.makeCertificateVerify, ver, hh, algs or [], key, creq, rb(48), rb(32), rb(32))
                if r[0] == "ok":
                    out = "send " + hx(r[1].signature)
                elif r[1] == "TLSInternalError":
                    out = "abort"
                else:
                    out = "err:" + r[1]
                ctx.case(key=("guard-cv", ver, ktype, str(algs), sig, okv), sample=None)
                ctx.count("guard:cv-" + ktype)
                rep = {"stage": "guard-cv", "ver": list(ver), "key_type": ktype, "algs": str(algs), "sig": sig.hex(), "verify": okv, "out": out[:80]}
                if not okv and out.startswith("send"):
                    ctx.violation("c10:guard-missing-certificate-verify-%s" % ktype.lower(),
                                  "makeCertificateVerify built a CertificateVerify whose signature does not verify (key type %s, version %s)"
                                  % (ktype, ver), rep)
                if okv and out != "send " + hx(sig):
                    ctx.violation("c10:guard-blocks-valid-cv", "makeCertificateVerify did not return a verifying signature: %s" % out[:60], rep)
                lines.append("guard cv %s %d" % (hx(sig), 1 if okv else 0)); exp.append(out)
    if lc is not None:
        out = lc.batch(lines)
        for l, o, e in zip(lines, out, exp):
            ctx.compared()
            if o != e:
                ctx.disagree("sign-guard", l[:120], o[:80], e[:80])


class Pipe(object):
    def __init__(self):
        self.buf = bytearray()
        self.log = bytearray()


class MemSock(object):
    """socket-like end of two in-memory pipes; recv on an empty pipe would block"""

    def __init__(self, rx, tx):
        self.rx, self.tx = rx, tx

    def send(self, data):
        self.tx.buf += data
        self.tx.log += data
        return len(data)

    def sendall(self, data):
        self.send(data)

    def recv(self, n):
        import errno
        import socket
        if not self.rx.buf:
            raise socket.error(errno.EWOULDBLOCK, "would block")
        d = bytes(self.rx.buf[:n])
        del self.rx.buf[:n]
        return d

    def close(self):
        pass

    def settimeout(self, t):
        pass

    def gettimeout(self):
        return None

    def shutdown(self, how):
        pass


def pump(gens, limit=4000):
    """alternate the generators until both finish or fail; {name: 'ok' | exception}"""
    done = {}
    steps = 0
    idle = 0
    while gens and steps < limit:
        steps += 1
        for name in list(gens):
            try:
                next(gens[name])
            except StopIteration:
                done[name] = "ok"
                del gens[name]
            except Exception as e:  # noqa
                done[name] = e
                del gens[name]
    for name in gens:
        done[name] = "stalled"
    return done


def load_chain(ctx, cert, key):
    from tlslite.x509certchain import X509CertChain
    from tlslite.utils.keyfactory import parsePEMKey
    tdir = os.path.join(ctx.repo, "tests")
    chain = X509CertChain()
    with open(os.path.join(tdir, cert)) as f:
        chain.parsePemList(f.read())
    with open(os.path.join(tdir, key)) as f:
        k = parsePEMKey(f.read(), private=True, implementations=["python"])
    return chain, k


class FaultyKey(object):
    """make the private operation of a real key object return a wrong value from its `nth` use on
    (instance-level patch, undone on exit); records every signature the public API handed out"""

    def __init__(self, key, nth=1):
        self.key, self.nth = key, nth
        self.uses = 0
        self.outputs = []
        self.saved = []

    def _patch(self, name, fn):
        self.saved.append((name, name in self.key.__dict__, self.key.__dict__.get(name)))
        setattr(self.key, name, fn)

    def __enter__(self):
        k = self.key
        tname = type(k).__name__
        me = self

        def faulty(orig, mutate):
            def f(*a, **kw):
                me.uses += 1
                if me.uses >= me.nth:
                    return mutate(orig, a, kw)
                return orig(*a, **kw)
            return f
        if tname == "Python_RSAKey":
            orig = k._rawPrivateKeyOpHelper
            self._patch("_rawPrivateKeyOpHelper", faulty(orig, lambda o, a, kw: o(*a, **kw) ^ 2))
        elif tname == "Python_ECDSAKey":
            for nm in ("_sign", "_hashAndSign"):
                orig = getattr(k, nm)
                self._patch(nm, faulty(orig, lambda o, a, kw: o(bytearray([a[0][0] ^ 0x40]) + bytearray(a[0][1:]), *a[1:], **kw)))
        elif tname == "Python_EdDSAKey":
            orig = k._hashAndSign
            self._patch("_hashAndSign", faulty(orig, lambda o, a, kw: o(bytearray(a[0]) + bytearray(b"\x00"))))
        elif tname == "Python_DSAKey":
            orig = k.sign
            self._patch("sign", faulty(orig, lambda o, a, kw: o(bytearray([a[0][0] ^ 0x40]) + bytearray(a[0][1:]), *a[1:], **kw)))
        else:
            raise ValueError(tname)
        # record what the public signing API returns
        for nm in ("sign", "hashAndSign"):
            inner = getattr(k, nm)

            def rec(*a, _inner=inner, **kw):
                out = _inner(*a, **kw)
                me.outputs.append(bytes(out))
                return out
            self._patch(nm, rec)
        return self

    def __exit__(self, *a):
        for name, had, old in reversed(self.saved):
            if had:
                self.key.__dict__[name] = old
            else:
                self.key.__dict__.pop(name, None)
        if hasattr(self.key, "blinder"):
            self.key.blinder = self.key.unblinder = 0


class SendLog(object):
    """records every handshake message object a connection hands to the record layer"""

    def __init__(self, conn):
        self.msgs = []
        log = self.msgs
        for nm in ("_sendMsg", "_queue_message"):
            orig = getattr(conn, nm)

            def w(msg, *a, _o=orig, **kw):
                log.append(msg)
                return _o(msg, *a, **kw)
            setattr(conn, nm, w)
        orig_many = conn._sendMsgs

        def wm(msgs, *a, **kw):
            log.extend(msgs)
            return orig_many(msgs, *a, **kw)
        conn._sendMsgs = wm

    def signatures(self):
        return [bytes(m.signature) for m in self.msgs if type(m).__name__ in ("ServerKeyExchange", "CertificateVerify")
                and getattr(m, "signature", None) is not None]


def lab_settings(ver, extra=None):
    from tlslite.handshakesettings import HandshakeSettings
    s = HandshakeSettings()
    s.minVersion = ver
    s.maxVersion = ver
    if ver == (3, 4):
        s.eccCurves = [c for c in s.eccCurves if "brainpool" not in c]
    for k, v in (extra or {}).items():
        setattr(s, k, v)
    return s


def lab_handshake(ctx, server, client, ver, req_cert, fault=None, pha=False):
    """one in-memory handshake.  fault = 'server' | 'client' | None.  Returns a dict of observations."""
    from tlslite.api import TLSConnection
    c2s, s2c = Pipe(), Pipe()
    cc, sc = TLSConnection(MemSock(s2c, c2s)), TLSConnection(MemSock(c2s, s2c))
    clog, slog = SendLog(cc), SendLog(sc)
    schain, skey = server
    cchain, ckey = client if client else (None, None)
    fk = None
    target = {"server": skey, "client": ckey}.get(fault)
    res = {}
    if pha:
        fk_ctx = None
    try:
        if fault and not pha:
            fk = FaultyKey(target)
            fk.__enter__()
        if cchain is not None:
            cgen = cc.handshakeClientCert(cchain, ckey, settings=lab_settings(ver), async_=True)
        else:
            cgen = cc.handshakeClientCert(settings=lab_settings(ver), async_=True)
        sgen = sc.handshakeServerAsync(certChain=schain, privateKey=skey, reqCert=req_cert, settings=lab_settings(ver))
        res["hs"] = pump({"c": cgen, "s": sgen})
        if pha and res["hs"] == {"c": "ok", "s": "ok"}:
            if fault:
                fk = FaultyKey(target)
                fk.__enter__()
            r1 = pump({"s": sc.request_post_handshake_auth(lab_settings(ver))})
            # the client answers from inside a read; the server consumes the answer in a read as well
            cg, sg = cc.readAsync(1, 1), sc.readAsync(1, 1)
            out = {}
            for _ in range(60):
                for nm, g in (("c", cg), ("s", sg)):
                    if nm in out:
                        continue
                    try:
                        v = next(g)
                    except StopIteration:
                        out[nm] = "ok"
                    except Exception as e:  # noqa
                        out[nm] = e
            res["pha"] = dict(r1, **{k + "-read": v for k, v in out.items()})
    finally:
        if fk is not None:
            fk.__exit__()
    res["fault_uses"] = fk.uses if fk else 0
    res["faulty_outputs"] = fk.outputs if fk else []
    res["sent_sigs"] = {"c": clog.signatures(), "s": slog.signatures()}
    res["wire"] = {"c": bytes(c2s.log), "s": bytes(s2c.log)}
    res["conns"] = (cc, sc)
    return res


def alert_of(e):
    d = getattr(e, "description", None)
    return d


def run_fault_lab(ctx):
    """a computation fault at each private-key use of every handshake flavour: the signing side
    must abort with internal_error and no ServerKeyExchange / CertificateVerify carrying the faulty
    signature may be handed to the record layer (nor appear on the in-memory wire)"""
    from tlslite.constants import AlertDescription
    servers = [("rsa", "serverX509Cert.pem", "serverX509Key.pem", [(3, 1), (3, 2), (3, 3), (3, 4)]),
               ("rsa-pss", "serverRSAPSSCert.pem", "serverRSAPSSKey.pem", [(3, 3), (3, 4)]),
               ("ecdsa", "serverECCert.pem", "serverECKey.pem", [(3, 1), (3, 3), (3, 4)]),
               ("ed25519", "serverEd25519Cert.pem", "serverEd25519Key.pem", [(3, 3), (3, 4)]),
               ("ed448", "serverEd448Cert.pem", "serverEd448Key.pem", [(3, 3), (3, 4)]),
               ("dsa", "serverDSACert.pem", "serverDSAKey.pem", [(3, 1), (3, 3)])]
    clients = [("rsa", "clientX509Cert.pem", "clientX509Key.pem", [(3, 1), (3, 3), (3, 4)]),
               ("ecdsa", "clientECCert.pem", "clientECKey.pem", [(3, 1), (3, 3), (3, 4)]),
               ("ed25519", "clientEd25519Cert.pem", "clientEd25519Key.pem", [(3, 3), (3, 4)]),
               ("dsa", "clientDSACert.pem", "clientDSAKey.pem", [(3, 1), (3, 3)])]
    loaded = {}

    def get(cert, key):
        if (cert, key) not in loaded:
            try:
                loaded[(cert, key)] = load_chain(ctx, cert, key)
            except Exception:
                loaded[(cert, key)] = None
        return loaded[(cert, key)]

    def check(label, who, r, stage):
        """r: lab result of a faulted run; who in 'server'/'client'"""
        side = "s" if who == "server" else "c"
        outcome = r[stage].get(side if stage == "hs" else side + "-read", None)
        if stage == "pha" and outcome is None:
            outcome = r[stage].get(side)
        rep = {"stage": "fault-lab", "flavour": label, "faulted": who, "phase": stage,
               "outcome": {k: (v if isinstance(v, str) else repr(v)[:120]) for k, v in r[stage].items()},
               "faulty_signatures": [x.hex() for x in r["faulty_outputs"]],
               "sent_signatures": [x.hex() for x in r["sent_sigs"][side]]}
        ctx.case(key=("lab", label, who, stage), sample=rep if len(ctx.samples) < 6 and who == "server" and "1.3" in label else None)
        if r["fault_uses"] == 0:
            ctx.count("lab:fault-not-reached")
            return
        ctx.count("lab:faulted-" + who)
        leaked = [x for x in r["faulty_outputs"] if x and (x in r["sent_sigs"][side] or x in r["wire"][side])]
        if leaked:
            ctx.violation("c10:faulty-signature-on-wire-%s" % label.replace(" ", "-"),
                          "a signature produced by a faulted private operation was sent (%s, faulted %s, %s)" % (label, who, stage), rep)
            return
        d = alert_of(outcome)
        if outcome == "ok" or d != AlertDescription.internal_error or type(outcome).__name__ != "TLSLocalAlert":
            ctx.violation("c10:fault-not-aborted-%s" % label.replace(" ", "-"),
                          "the %s did not abort with internal_error after a faulted private operation (%s, %s): %s"
                          % (who, label, stage, repr(outcome)[:80]), rep)

    for sname, scert, skeyf, vers in servers:
        srv = get(scert, skeyf)
        if srv is None:
            ctx.count("lab:key-not-loadable:" + sname)
            continue
        for ver in vers:
            vlabel = "%s-server TLS 1.%d" % (sname, ver[1] - 1)
            base = lab_handshake(ctx, srv, None, ver, False)
            ctx.case(key=("lab-base", vlabel), sample=None)
            if base["hs"] != {"c": "ok", "s": "ok"}:
                ctx.count("lab:baseline-failed:" + vlabel)
                continue
            ctx.count("lab:baseline-ok")
            r = lab_handshake(ctx, srv, None, ver, False, fault="server")
            check(vlabel, "server", r, "hs")
            # client authentication with each client key type
            for cname, ccert, ckeyf, cvers in clients:
                if ver not in cvers or (sname not in ("rsa", "ecdsa") and not ctx.thorough()):
                    continue
                cl = get(ccert, ckeyf)
                if cl is None:
                    continue
                label = vlabel + " %s-client-cert" % cname
                base = lab_handshake(ctx, srv, cl, ver, True)
                ctx.case(key=("lab-base", label), sample=None)
                if base["hs"] != {"c": "ok", "s": "ok"}:
                    ctx.count("lab:baseline-failed:" + label)
                    continue
                ctx.count("lab:baseline-ok")
                r = lab_handshake(ctx, srv, cl, ver, True, fault="client")
                check(label, "client", r, "hs")
                if ver == (3, 4):
                    # post-handshake authentication
                    label2 = vlabel + " %s-client-pha" % cname
                    base = lab_handshake(ctx, srv, cl, ver, False, pha=True)
                    ctx.case(key=("lab-base", label2), sample=None)
                    okb = base["hs"] == {"c": "ok", "s": "ok"} and "pha" in base and len(base["sent_sigs"]["c"]) >= 1 \
                        and not any(isinstance(v, Exception) and type(v).__name__ != "OSError" and "TLS" in type(v).__name__
                                    for v in base["pha"].values())
                    if not okb:
                        ctx.count("lab:pha-baseline-failed")
                        continue
                    ctx.count("lab:baseline-ok")
                    r = lab_handshake(ctx, srv, cl, ver, False, fault="client", pha=True)
                    check(label2, "client", r, "pha")


def run_dsa_model(ctx):
    """python_dsakey.sign / verify at the (r, s) level vs the model (nonce fixed by patching
    getRandomNumber); oracle: textbook DSA verification equation evaluated here"""
    import tlslite.utils.python_dsakey as pdk
    from tlslite.utils.python_dsakey import Python_DSAKey
    lc = ctx.lean()
    rng = ctx.rng
    keys = [("toy23", Python_DSAKey(p=23, q=11, g=4, x=7)), ("toy-607", Python_DSAKey(p=607, q=101, g=pow(3, 6, 607), x=55))]
    for name, path, k in load_pem_keys(ctx):
        if type(k).__name__ == "Python_DSAKey":
            keys.append((name, k))
    with DetRandom(ctx.rng):
        gk = call(Python_DSAKey.generate, 1024, 160)
    if gk[0] == "ok":
        keys.append(("generated-1024-160", gk[1]))
    lines, exp = [], []
    for name, k in keys:
        p_, q_, g_, x_, y_ = int(k.p), int(k.q), int(k.g), int(k.private_key), int(k.public_key)
        kl = " ".join(nh(v) for v in (p_, q_, g_, x_, y_))
        N = q_.bit_length()
        for dl in (1, 20, 28, 32, 36, 48, 64):
            for rep_i in range(ctx.pick(1, 4)):
                data = bytes(rng.getrandbits(8) for _ in range(dl))
                nonce = rng.randrange(1, q_ - 1) if q_ > 3 else 1
                with Patched((pdk, "getRandomNumber", lambda lo, hi, v=nonce: v)):
                    r = call(k.sign, bytearray(data))
                ctx.case(key=("dsa-model", name, data, nonce), sample=None)
                ctx.count("dsa-model:sign")
                if r[0] != "ok":
                    ctx.disagree("dsa-sign", {"key": name, "data": data.hex()}, "-", "err:" + r[1])
                    continue
                rs = parse_rs(bytes(r[1]))
                # independent: FIPS 186-4 section 4.6 / 4.7
                z = int.from_bytes(data, "big")
                if 8 * dl > N:
                    z >>= 8 * dl - N
                r_want = pow(g_, nonce, p_) % q_
                s_want = pow(nonce, -1, q_) * (z + x_ * r_want) % q_
                if rs is None or rs != [r_want, s_want]:
                    ctx.violation("c10:dsa-sign-wrong", "Python_DSAKey.sign does not compute the FIPS 186-4 signature for the given nonce (key %s)" % name,
                                  {"stage": "dsa-model", "key": kl, "data": data.hex(), "k": nh(nonce), "got": bytes(r[1]).hex()})
                    continue
                lines.append("dsasign %s %s %s" % (kl, nh(nonce), hx(data))); exp.append("%s %s" % (nh(rs[0]), nh(rs[1])))
                lines.append("dsasignbytes %s %s %s" % (kl, nh(nonce), hx(data))); exp.append(hx(r[1]))
                good = bytes(r[1])
                dervars = [good, good + b"\x00", good[:-1], b"", b"\x30", b"\x30\x00", b"\x31" + good[1:], b"\x30\x81" + good[1:],
                           asn1_seq(asn1_int(rs[0]) + asn1_int(rs[1]), True), asn1_seq(asn1_int(rs[0], 1) + asn1_int(rs[1])),
                           asn1_seq(asn1_int(rs[0]) + asn1_int(rs[1]) + b"\x05\x00"), asn1_seq(asn1_int(rs[0])),
                           asn1_seq(b"\x02\x00" + asn1_int(rs[1])), asn1_seq(b"\x03" + asn1_int(rs[0])[1:] + asn1_int(rs[1])),
                           asn1_seq(b"\x02\x01\x80" + asn1_int(rs[1])), b"\x30\x80" + good[2:], b"\x30\x82\x00" + good[1:],
                           bytes([good[0], (good[1] + 1) & 0x7f]) + good[2:], bytes(rng.getrandbits(8) for _ in range(rng.randrange(1, 12)))]
                for dv in dervars:
                    v = call(k.verify, bytearray(dv), bytearray(data))
                    io = str(v[1]).lower() if v[0] == "ok" else "err:" + v[1]
                    ctx.case(key=("dsa-der", name, dv, data), sample=None)
                    ctx.count("dsa-model:der-variant")
                    if v == ("ok", True) and dv != good:
                        ctx.violation("c10:dsa-accepts-noncanonical-der", "Python_DSAKey.verify accepted a re-encoded / padded DER signature (key %s)" % name,
                                      {"stage": "dsa-model", "key": kl, "data": data.hex(), "sig": dv.hex()})
                    lines.append("dsaverifybytes %s %s %s" % (kl, hx(dv), hx(data))); exp.append(io)
                cands = [(rs[0], rs[1]), (rs[0], q_ - rs[1]), (rs[0] + q_, rs[1]), (rs[0], rs[1] + q_), (0, rs[1]), (rs[0], 0), (q_, rs[1]),
                         (rs[0], q_), (rs[1], rs[0]), (rs[0] ^ 1, rs[1]), (rs[0], rs[1] ^ 1), (rng.randrange(1, q_), rng.randrange(1, q_))]
                if rep_i == 0 and dl in (20, 32):
                    cands += [(a, b) for a in (0, 1, 2, q_ - 1, q_) for b in (0, 1, 2, q_ - 1, q_)]
                for r2, s2 in cands:
                    sig2 = asn1_seq(asn1_int(r2) + asn1_int(s2))
                    v = call(k.verify, bytearray(sig2), bytearray(data))
                    impl = v[1] if v[0] == "ok" else "err:" + v[1]
                    want = False
                    if 0 < r2 < q_ and 0 < s2 < q_:
                        w = pow(s2, -1, q_)
                        want = (pow(g_, z * w % q_, p_) * pow(y_, r2 * w % q_, p_)) % p_ % q_ == r2
                    ctx.case(key=("dsa-model-verify", name, data, r2, s2), sample=None)
                    ctx.count("dsa-model:verify-" + str(want))
                    if impl is not want:
                        ctx.violation("c10:dsa-verify-" + ("accepts-invalid" if impl is True else "rejects-valid"),
                                      "Python_DSAKey.verify returned %s, FIPS 186-4 says %s (key %s)" % (impl, want, name),
                                      {"stage": "dsa-model", "key": kl, "data": data.hex(), "r": nh(r2), "s": nh(s2)})
                    lines.append("dsaverify %s %s %s %s" % (kl, nh(r2), nh(s2), hx(data))); exp.append(str(impl).lower())
    from ecdsa import der as eder
    for v in [0, 1, 127, 128, 255, 256, 2 ** 63, 2 ** 64 - 1, 2 ** 255, 2 ** 256 - 1, 2 ** 1023, 2 ** 1024 + 5] + \
            [rng.getrandbits(rng.choice([7, 8, 9, 160, 255, 256, 257, 1024])) for _ in range(ctx.pick(30, 200))]:
        lines.append("derint " + nh(v)); exp.append(hx(eder.encode_integer(v)))
        enc = eder.encode_integer(v) + bytes(rng.getrandbits(8) for _ in range(rng.choice([0, 0, 3])))
        rr = call(eder.remove_integer, enc)
        lines.append("derremint " + hx(enc)); exp.append(("%s %s" % (nh(rr[1][0]), hx(rr[1][1]))) if rr[0] == "ok" else "err:" + rr[1])
    for v in [0, 1, 127, 128, 129, 255, 256, 65535, 65536, 2 ** 24]:
        lines.append("derlen " + nh(v)); exp.append(hx(eder.encode_length(v)))
    for _ in range(ctx.pick(150, 1500)):
        n = rng.choice([0, 1, 2, 3, 5, 8, 40, 130, 200])
        blob = bytearray(rng.getrandbits(8) for _ in range(n))
        if blob and rng.random() < 0.8:
            blob[0] = rng.choice([0x30, 0x02])
        if len(blob) > 1 and rng.random() < 0.7:
            blob[1] = rng.choice([len(blob) - 2, len(blob) - 1, len(blob) - 3, 0x80, 0x81, 0x82, 0, 1, 0x7f]) & 0xff
        if len(blob) > 2 and blob[1] in (0x81, 0x82) and rng.random() < 0.7:
            blob[2] = rng.choice([0, 1, 0x7f, 0x80, max(0, len(blob) - 3), max(0, len(blob) - 4)]) & 0xff
        blob = bytes(blob)
        for op, f in (("derremint", eder.remove_integer), ("derremseq", eder.remove_sequence)):
            rr = call(f, blob)
            ctx.count("der:" + op)
            if rr[0] == "ok":
                a, b = rr[1]
                io = "%s %s" % (nh(a) if op == "derremint" else hx(a), hx(b))
            else:
                io = "err:" + rr[1]
            lines.append("%s %s" % (op, hx(blob))); exp.append(io)
    if lc is not None:
        out = lc.batch(lines)
        for l, o, e in zip(lines, out, exp):
            ctx.compared()
            if o != e:
                ctx.disagree("dsa-model", l[-200:], o[:100], e[:100])


# ---------------------------------------------------------------------------------------------

def deep_search_rsa(ctx, ossl):
    """run when a gen_* obligation fails and nothing produced a concrete failing input: the cryptomath
    helpers against their specification (wide), then the RSA sign/verify streams (honest signatures, bit
    flips, crafted non-canonical encodings, PSS padding octets with stray bits, salt lengths 0 / hLen / max,
    wrong key, faulty private operation) on further moduli with bit length = 0, 1, 2, 7 mod 8.  Problems
    of the search itself are not violations."""
    from . import c11
    try:
        c11.cryptomath_oracle(ctx, prefix="c10", deep=True)
    except Exception as e:
        ctx.count("deep-search-error:cryptomath:" + type(e).__name__)
    for name, pb, qb, wb in (("deep513", 257, 256, 513), ("deep519", 260, 259, 519), ("deep520", 260, 260, 520),
                             ("deep769", 385, 384, 769), ("deep775", 388, 387, 775), ("deep1026", 513, 513, 1026)):
        if any(v["found"] for v in ctx.violations):
            return
        try:
            k = make_rsa_key(ctx, pb, qb, wb)
            path = ossl.write(name + ".pem", rsa_priv_pem(k)) if ossl.exe else None
            keys = [(name, k, path)]
            vb = RsaVerifyBatch(ctx)
            rsa_roundtrips(ctx, keys, ossl, vb)
            vb.flush()
            rsa_mutations(ctx, keys, vb)
            rsa_wrong_key(ctx, keys, vb)
            rsa_key_faults(ctx, keys, vb)
        except Exception as e:
            ctx.count("deep-search-error:%s:%s" % (name, type(e).__name__))


def run(ctx):
    ctx.rule = ("keys: every RSA/ECDSA/EdDSA/DSA key of tests/*.pem plus generated RSA keys (512, 768, 1025, 1031 bit) and a "
                "generated DSA key; per key x scheme x hash x salt length: honest signatures (tlslite and openssl made), every "
                "single-bit flip (all bits for short keys, sampled otherwise), length/range variants, wrong digest/hash/scheme/"
                "salt length/key, crafted non-canonical encodings signed with the raw private operation, faulty private operations; "
                "peer shares by class for FFDH/ECDH/X25519/X448; distinct = distinct (key, signature, digest, scheme) or (group, share)")
    ctx.assumptions = ["hashlib computes the named hash functions",
                       "the RFC 8017 verifier in harness/props/c10.py and the openssl CLI are correct reference implementations",
                       "python-ecdsa (ECDSA, EdDSA, NIST/brainpool point arithmetic) is trusted: no proof, only cross-checks",
                       "a well-formed RSA key: p != q odd primes, n = p*q, e*d = 1 mod lcm(p-1,q-1) (ValidKey)",
                       "the hash has a fixed non-zero output length (HashOk); unforgeability is not claimed"]
    ossl = OpenSSL()
    ctx.extra["openssl"] = ossl.version or "not available: pure-Python RFC verifier only"
    try:
        run_rsa(ctx, ossl)
        run_ffdh(ctx)
        run_xcurves(ctx, ossl)
        run_x_openssl(ctx, ossl)
        run_ecdh(ctx, ossl)
        run_ecdsa_dsa(ctx, ossl)
        run_eddsa(ctx, ossl)
        run_dsa_model(ctx)
        run_guards_unit(ctx)
        run_fault_lab(ctx)
        from . import c11
        c11.cryptomath_oracle(ctx, prefix="c10")
        broken = [t for t in (ctx.build or {}).get("failed", []) if ".gen_" in t or t.startswith("Props.")]
        if broken:
            # the regenerated rsakey.py / cryptomath.py no longer computes the hand model: widen the search
            # for a concrete input on which the real code leaves the property
            ctx.extra["gen_obligations_broken"] = broken
            if not any(v["found"] for v in ctx.violations):
                deep_search_rsa(ctx, ossl)
    finally:
        ctx.extra["openssl_calls"] = ossl.calls
        ossl.close()


def hexnum(x):
    return int(x.replace("-", "0"), 16)


def replay_stage(ctx, inp):
    """re-execute one recorded input on the implementation; True = still violates, None = unknown stage"""
    stage = inp.get("stage")
    if stage == "rsa-verify":
        from tlslite.utils.python_rsakey import Python_RSAKey
        k = Python_RSAKey(n=hexnum(inp["n"]), e=hexnum(inp["e"]), key_type=inp.get("key_type", "rsa"))
        sig = bytes.fromhex(inp["sig"])
        digest = bytes.fromhex(inp["digest"])
        r = call(k.verify, bytearray(sig), bytearray(digest), inp["pad"], inp["alg"], inp["slen"])
        if inp["pad"] == "pkcs1":
            ref = ref_pkcs1_verify(int(k.n), int(k.e), sig, digest, inp["alg"]) and k.key_type != "rsa-pss"
        else:
            ref = ref_pss_verify(int(k.n), int(k.e), sig, digest, inp["alg"], inp["slen"])
        print("implementation:", r, " RFC 8017 reference:", ref)
        return (r == ("ok", True)) != bool(ref)
    if stage in ("rsa-sign", "rsa-openssl", "rsa-hashandverify", "privop", "privop-range"):
        from tlslite.utils.python_rsakey import Python_RSAKey
        n, e, d, p, q, dP, dQ, qInv = [hexnum(x) for x in inp["key"].split()]
        k = Python_RSAKey(n=n, e=e, d=d, p=p, q=q, dP=dP, dQ=dQ, qInv=qInv, key_type=inp.get("key_type", "rsa"))
        if stage == "privop":
            m = hexnum(inp["m"])
            K = (n.bit_length() + 7) // 8
            k.blinder, k.unblinder = hexnum(inp.get("blinder", "-")), hexnum(inp.get("unblinder", "-"))
            import tlslite.utils.python_rsakey as prk
            with Patched((prk, "getRandomNumber", lambda lo, hi: hexnum(inp["rnd"]))):
                r = call(k._raw_private_key_op_bytes, bytearray(m.to_bytes(K, "big")))
            good = r[0] == "ok" and int.from_bytes(bytes(r[1]), "big") == pow(m, d, n) and \
                (int(k.blinder) * pow(int(k.unblinder), e, n)) % n == 1
            print("result:", r[0], " equals m^d mod n and invariant holds:", good)
            return not good
        if stage == "privop-range":
            c = bytes.fromhex(inp["c"])
            K = (n.bit_length() + 7) // 8
            r = call(k._raw_private_key_op_bytes, bytearray(c))
            inrange = len(c) == K and int.from_bytes(c, "big") < n
            print("result:", r[0], " in range:", inrange)
            return (r[0] == "ok") != inrange
        digest = bytes.fromhex(inp.get("digest", ""))
        if stage == "rsa-hashandverify":
            r = call(k.hashAndVerify, bytearray.fromhex(inp["sig"]), bytearray.fromhex(inp["msg"]), inp["pad"], inp["alg"], inp["slen"])
            print("hashAndVerify:", r)
            return r != ("ok", True)
        salt = bytes.fromhex(inp.get("salt", ""))
        import tlslite.utils.rsakey as rk
        with Patched((rk, "getRandomBytes", lambda nn: bytearray(salt[:nn]))):
            r = call(k.sign, bytearray(digest), inp["pad"], inp["alg"], len(salt) if "salt" in inp else inp.get("slen", 0))
        print("sign:", r[0], r[1] if r[0] == "err" else "")
        if r[0] != "ok":
            return True
        sl = len(salt) if "salt" in inp else inp.get("slen", 0)
        ref = ref_pkcs1_verify(n, e, bytes(r[1]), digest, inp["alg"]) if inp["pad"] == "pkcs1" else ref_pss_verify(n, e, bytes(r[1]), digest, inp["alg"], sl)
        own = call(k.verify, r[1], bytearray(digest), inp["pad"], inp["alg"], sl)
        print("own verify:", own, " RFC 8017 reference:", ref)
        return own != ("ok", True) or not ref
    if stage == "ffshared":
        from tlslite.keyexchange import FFDHKeyExchange
        g, p = hexnum(inp["g"]), hexnum(inp["p"])
        kex = FFDHKeyExchange(inp["group"], tuple(inp["ver"])) if inp.get("group") else FFDHKeyExchange(0, tuple(inp["ver"]), g, p)
        form = inp["form"]
        share = bytearray.fromhex(inp["share"].replace("-", "")) if form.startswith("bytes") else hexnum(inp["share"])
        r = call(kex.calc_shared_key, hexnum(inp["priv"]), share)
        K = (p.bit_length() + 7) // 8
        y = int.from_bytes(share, "big") if form.startswith("bytes") else share
        length_ok = (not form.startswith("bytes")) or len(share) == K
        inrange = 2 <= y <= p - 2
        sv = pow(y, hexnum(inp["priv"]), p) if inrange else None
        must_refuse = (not length_ok) or (not inrange) or sv in (0, 1, p - 1)
        print("calc_shared_key:", r[0], r[1] if r[0] == "err" else "", " must be refused:", must_refuse)
        if must_refuse:
            return r != ("err", "TLSIllegalParameterException")
        return r[0] != "ok"
    if stage == "xshared":
        from tlslite.keyexchange import ECDHKeyExchange
        from tlslite.constants import GroupName
        kex = ECDHKeyExchange(GroupName.x25519 if inp["group"] == "x25519" else GroupName.x448, tuple(inp["ver"]))
        r = call(kex.calc_shared_key, bytearray.fromhex(inp["priv"]), bytearray.fromhex(inp["share"]))
        print("calc_shared_key on a %s share:" % inp["class"], r[0], r[1] if r[0] == "err" else bytes(r[1]).hex())
        return r != ("err", "TLSIllegalParameterException")
    if stage == "ecdh-share":
        from tlslite.keyexchange import ECDHKeyExchange
        import ecdsa
        from tlslite.utils.ecc import getCurveByName
        from tlslite.constants import GroupName
        kex = ECDHKeyExchange(inp["group"], tuple(inp["ver"]))
        priv = hexnum(inp["priv"])
        if not inp.get("int_private", True):
            priv = ecdsa.keys.SigningKey.from_secret_exponent(priv, getCurveByName(GroupName.toRepr(inp["group"])))
        r = call(kex.calc_shared_key, priv, bytearray.fromhex(inp["share"]))
        print("calc_shared_key on a %s share:" % inp["class"], r[0], r[1] if r[0] == "err" else "")
        return r != ("err", "TLSIllegalParameterException")
    if stage in ("x25519", "x448"):
        from tlslite.utils import x25519 as xm
        fn = xm.x25519 if stage == "x25519" else xm.x448
        k, u = bytes.fromhex(inp["k"]), bytes.fromhex(inp["u"])
        r = call(lambda: bytes(fn(bytearray(k), bytearray(u))))
        want = ref_x(k, u, 255 if stage == "x25519" else 448)
        print("implementation:", r[0], (r[1].hex() if r[0] == "ok" else r[1]), " RFC 7748:", want.hex())
        return r != ("ok", want)
    if stage in ("guard-ske", "guard-cv"):
        before = len(ctx.violations)
        run_guards_unit(ctx)
        return len(ctx.violations) > before
    if stage == "fault-lab":
        before = len(ctx.violations)
        run_fault_lab(ctx)
        return len(ctx.violations) > before
    if stage in ("ecdsa", "dsa", "eddsa"):
        for name, path, k in load_pem_keys(ctx):
            if name == inp["key"]:
                if stage == "eddsa":
                    r = call(k.hashAndVerify, bytearray.fromhex(inp["sig"]), bytearray.fromhex(inp["msg"]))
                else:
                    r = call(k.verify, bytearray.fromhex(inp["sig"]), bytearray.fromhex(inp["digest"]))
                ossl = OpenSSL()
                try:
                    if stage == "eddsa":
                        o = ossl.verify_raw(path, bytes.fromhex(inp["msg"]), bytes.fromhex(inp["sig"])) if ossl.exe else None
                    else:
                        o = ossl.verify_digest(path, bytes.fromhex(inp["digest"]), bytes.fromhex(inp["sig"]), None) if ossl.exe else None
                finally:
                    ossl.close()
                print("implementation:", r, " openssl:", o)
                if o is None:
                    o = False
                return (r == ("ok", True)) != bool(o)
    return None


def replay(ctx, rep):
    if rep.get("input", {}).get("stage") == "cryptomath":
        from . import c11
        return c11.replay(ctx, rep)
    inp = rep["input"]
    res = replay_stage(ctx, inp)
    if res is not None:
        return bool(res)
    print("replay of stage %r: re-running the whole check" % inp.get("stage"))
    run(ctx)
    return any(v["key"] == rep.get("key") for v in ctx.violations) or bool(ctx.violations and not rep.get("key"))
