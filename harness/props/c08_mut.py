"""Structured mutation of TLS handshake messages for C08 (helper of harness/props/c08.py).

A message is parsed with a small hand-written schema into a tree of nodes; mutations are
*descriptors* (JSON-able dicts: path into the tree + operation + arguments) that are applied to
the live bytes of the same message in a fresh handshake, so that a replay is the descriptor plus
the scenario.  Serialisation recomputes every enclosing length unless a length is overridden on
purpose, so both "consistent" (inner parser sees it) and "inconsistent" (framing sees it)
variants exist for every length field.

Nothing here imports tlslite.
"""
import zlib

HS_NAMES = {0: "hello_request", 1: "client_hello", 2: "server_hello", 4: "new_session_ticket",
            5: "end_of_early_data", 8: "encrypted_extensions", 11: "certificate",
            12: "server_key_exchange", 13: "certificate_request", 14: "server_hello_done",
            15: "certificate_verify", 16: "client_key_exchange", 20: "finished",
            22: "certificate_status", 24: "key_update", 25: "compressed_certificate",
            67: "next_protocol", 254: "message_hash"}

EXT_NAMES = {0: "server_name", 5: "status_request", 9: "cert_type", 10: "supported_groups",
             11: "ec_point_formats", 12: "srp", 13: "signature_algorithms", 15: "heartbeat",
             16: "alpn", 21: "padding", 22: "encrypt_then_mac", 23: "extended_master_secret",
             27: "compress_certificate", 28: "record_size_limit", 34: "delegated_credential",
             35: "session_ticket", 41: "pre_shared_key", 42: "early_data",
             43: "supported_versions", 44: "cookie", 45: "psk_key_exchange_modes",
             49: "post_handshake_auth", 50: "signature_algorithms_cert", 51: "key_share",
             13172: "supports_npn", 62208: "tack", 65281: "renegotiation_info"}


def ext_name(t):
    return EXT_NAMES.get(t, "ext%d" % t)


class ParseFail(Exception):
    pass


class Node(object):
    """kind: 'u' uint(width) / 'b' bytes / 'v' vector(lw, children or raw) / 's' sequence"""

    def __init__(self, kind, name, width=0, value=None, children=None, raw=None, rep=False):
        self.kind = kind
        self.name = name
        self.width = width          # uint width or vector length width
        self.value = value          # uint value
        self.children = children    # list of nodes (s, structured v)
        self.raw = raw              # bytes (b, opaque v)
        self.len_override = None    # vector: value written into the length field
        self.rep = rep              # children are repetitions of one item (a list)

    def content(self):
        if self.children is not None:
            return b"".join(c.ser() for c in self.children)
        return bytes(self.raw)

    def ser(self):
        if self.kind == "u":
            return (self.value & ((1 << (8 * self.width)) - 1)).to_bytes(self.width, "big")
        if self.kind == "b":
            return bytes(self.raw)
        if self.kind == "s":
            return self.content()
        c = self.content()
        n = len(c) if self.len_override is None else self.len_override
        n &= (1 << (8 * self.width)) - 1
        return n.to_bytes(self.width, "big") + c

    def walk(self, path=()):
        yield path, self
        if self.children is not None:
            for i, c in enumerate(self.children):
                for x in c.walk(path + (i,)):
                    yield x

    def at(self, path):
        n = self
        for i in path:
            if n.children is None or i >= len(n.children):
                raise ParseFail("path")
            n = n.children[i]
        return n


class Rd(object):
    def __init__(self, data, pos=0, end=None):
        self.d = bytes(data)
        self.p = pos
        self.e = len(self.d) if end is None else end

    def left(self):
        return self.e - self.p

    def take(self, n):
        if n < 0 or self.p + n > self.e:
            raise ParseFail("short")
        r = self.d[self.p:self.p + n]
        self.p += n
        return r

    def uint(self, n):
        return int.from_bytes(self.take(n), "big")


# ---- schema combinators: each is fn(rd, ctx) -> Node ------------------------------------------
def U(n, name="u"):
    def f(rd, ctx):
        return Node("u", name, width=n, value=rd.uint(n))
    return f


def B(n, name="b"):
    def f(rd, ctx):
        return Node("b", name, raw=rd.take(n))
    return f


def REST(name="rest"):
    def f(rd, ctx):
        return Node("b", name, raw=rd.take(rd.left()))
    return f


def SEQ(name, *fields):
    def f(rd, ctx):
        return Node("s", name, children=[fl(rd, ctx) for fl in fields])
    return f


def V(lw, name, inner=None, rep=None):
    """vector with lw-byte length; inner = one schema for the whole content, rep = item schema"""
    def f(rd, ctx):
        n = rd.uint(lw)
        body = rd.take(n)
        if inner is None and rep is None:
            return Node("v", name, width=lw, raw=body)
        sub = Rd(body)
        try:
            if rep is not None:
                ch = []
                while sub.left() > 0:
                    ch.append(rep(sub, ctx))
                return Node("v", name, width=lw, children=ch, rep=True)
            ch = [inner(sub, ctx)]
            if sub.left():
                raise ParseFail("trailing")
            return Node("v", name, width=lw, children=ch)
        except ParseFail:
            return Node("v", name, width=lw, raw=body)
    return f


def OPT(schema):
    def f(rd, ctx):
        if rd.left() == 0:
            return Node("s", "absent", children=[])
        return schema(rd, ctx)
    return f


def ext_body(t, ctx):
    msg = ctx.get("msg")
    ch = msg == "client_hello"
    if t == 0 and ch:
        return V(2, "server_name_list", rep=SEQ("name", U(1, "name_type"), V(2, "host_name")))
    if t == 10:
        return V(2, "groups", rep=U(2, "group"))
    if t == 11:
        return V(1, "formats", rep=U(1, "format"))
    if t in (13, 50, 34) and msg in ("client_hello", "certificate_request"):
        return V(2, "sigalgs", rep=U(2, "scheme"))
    if t == 16:
        return V(2, "alpn_list", rep=V(1, "proto"))
    if t == 43:
        return V(1, "versions", rep=U(2, "version")) if ch else U(2, "version")
    if t == 51:
        if ch:
            return V(2, "shares", rep=SEQ("share", U(2, "group"), V(2, "key_exchange")))
        if ctx.get("hrr"):
            return U(2, "group")
        return SEQ("share", U(2, "group"), V(2, "key_exchange"))
    if t == 45:
        return V(1, "modes", rep=U(1, "mode"))
    if t == 41:
        if ch:
            return SEQ("psk", V(2, "identities", rep=SEQ("identity", V(2, "id"), U(4, "age"))),
                       V(2, "binders", rep=V(1, "binder")))
        return U(2, "selected")
    if t == 15:
        return U(1, "mode")
    if t == 28:
        return U(2, "limit")
    if t == 65281:
        return V(1, "renegotiated_connection")
    if t == 27:
        return V(1, "algorithms", rep=U(2, "algorithm"))
    if t == 44:
        return V(2, "cookie")
    if t == 12:
        return V(1, "srp_I")
    if t == 9:
        return V(1, "cert_types", rep=U(1, "cert_type")) if ch else U(1, "cert_type")
    if t == 5 and ch:
        return SEQ("status_request", U(1, "status_type"), V(2, "responder_ids"), V(2, "request_exts"))
    if t == 13172 and not ch:
        return SEQ("npn", )
    return None


def EXT(rd, ctx):
    t = rd.uint(2)
    n = rd.uint(2)
    body = rd.take(n)
    tn = Node("u", "ext_type", width=2, value=t)
    inner = ext_body(t, ctx)
    bn = Node("v", "ext_data", width=2, raw=body)
    if inner is not None and body:
        sub = Rd(body)
        try:
            c = inner(sub, ctx)
            if sub.left() == 0:
                bn = Node("v", "ext_data", width=2, children=[c])
        except ParseFail:
            pass
    return Node("s", "ext:" + ext_name(t), children=[tn, bn])


def EXTS(name="extensions"):
    return V(2, name, rep=EXT)


CLIENT_HELLO = SEQ("client_hello", U(2, "client_version"), B(32, "random"), V(1, "session_id"),
                   V(2, "cipher_suites", rep=U(2, "suite")), V(1, "compression_methods", rep=U(1, "method")),
                   OPT(EXTS()))
SERVER_HELLO = SEQ("server_hello", U(2, "server_version"), B(32, "random"), V(1, "session_id"),
                   U(2, "cipher_suite"), U(1, "compression_method"), OPT(EXTS()))
ENC_EXTS = SEQ("encrypted_extensions", EXTS())
CERT_12 = SEQ("certificate", V(3, "certificate_list", rep=V(3, "cert_der")))
CERT_13 = SEQ("certificate", V(1, "context"),
              V(3, "certificate_list", rep=SEQ("entry", V(3, "cert_der"), EXTS())))
COMP_CERT = SEQ("compressed_certificate", U(2, "algorithm"), U(3, "uncompressed_length"),
                V(3, "compressed"))
CERT_REQ_10 = SEQ("certificate_request", V(1, "cert_types", rep=U(1, "type")),
                  V(2, "authorities", rep=V(2, "dn")))
CERT_REQ_12 = SEQ("certificate_request", V(1, "cert_types", rep=U(1, "type")),
                  V(2, "sigalgs", rep=U(2, "scheme")), V(2, "authorities", rep=V(2, "dn")))
CERT_REQ_13 = SEQ("certificate_request", V(1, "context"), EXTS())
SKE_ECDHE_12 = SEQ("ske_ecdhe", U(1, "curve_type"), U(2, "named_curve"), V(1, "point"),
                   U(1, "hash_alg"), U(1, "sig_alg"), V(2, "signature"))
SKE_ECDHE_10 = SEQ("ske_ecdhe", U(1, "curve_type"), U(2, "named_curve"), V(1, "point"),
                   V(2, "signature"))
SKE_ECDH_ANON = SEQ("ske_ecdh_anon", U(1, "curve_type"), U(2, "named_curve"), V(1, "point"))
SKE_DHE_12 = SEQ("ske_dhe", V(2, "dh_p"), V(2, "dh_g"), V(2, "dh_Ys"), U(1, "hash_alg"), U(1, "sig_alg"),
                 V(2, "signature"))
SKE_DHE_10 = SEQ("ske_dhe", V(2, "dh_p"), V(2, "dh_g"), V(2, "dh_Ys"), V(2, "signature"))
SKE_DH_ANON = SEQ("ske_dh_anon", V(2, "dh_p"), V(2, "dh_g"), V(2, "dh_Ys"))
SKE_SRP = SEQ("ske_srp", V(2, "srp_N"), V(2, "srp_g"), V(1, "srp_s"), V(2, "srp_B"))
SKE_SRP_SIG_12 = SEQ("ske_srp", V(2, "srp_N"), V(2, "srp_g"), V(1, "srp_s"), V(2, "srp_B"),
                     U(1, "hash_alg"), U(1, "sig_alg"), V(2, "signature"))
SKE_SRP_SIG_10 = SEQ("ske_srp", V(2, "srp_N"), V(2, "srp_g"), V(1, "srp_s"), V(2, "srp_B"),
                     V(2, "signature"))
CKE_V2 = SEQ("cke", V(2, "exchange_keys"))
CKE_V1 = SEQ("cke", V(1, "ec_point"))
CKE_RAW = SEQ("cke", REST("encrypted_pms"))
CV_12 = SEQ("certificate_verify", U(2, "scheme"), V(2, "signature"))
CV_10 = SEQ("certificate_verify", V(2, "signature"))
FINISHED = SEQ("finished", REST("verify_data"))
NST_13 = SEQ("new_session_ticket", U(4, "lifetime"), U(4, "age_add"), V(1, "nonce"), V(2, "ticket"), EXTS())
NST_12 = SEQ("new_session_ticket", U(4, "lifetime"), V(2, "ticket"))
KEY_UPDATE = SEQ("key_update", U(1, "request_update"))
EMPTY = SEQ("empty")
NEXT_PROTO = SEQ("next_protocol", V(1, "proto"), V(1, "padding"))


def candidates(hs_type, ctx):
    ver = tuple(ctx.get("version") or (3, 3))
    kx = ctx.get("kx", "")
    if hs_type == 1:
        return [CLIENT_HELLO]
    if hs_type == 2:
        return [SERVER_HELLO]
    if hs_type == 8:
        return [ENC_EXTS]
    if hs_type == 11:
        return [CERT_13] if ver >= (3, 4) else [CERT_12]
    if hs_type == 25:
        return [COMP_CERT]
    if hs_type == 13:
        if ver >= (3, 4):
            return [CERT_REQ_13]
        return [CERT_REQ_12] if ver == (3, 3) else [CERT_REQ_10]
    if hs_type == 12:
        t12 = ver == (3, 3)
        if kx.startswith("srp"):
            return [SKE_SRP_SIG_12 if t12 else SKE_SRP_SIG_10, SKE_SRP]
        if kx.startswith("ecdh_anon"):
            return [SKE_ECDH_ANON]
        if kx.startswith("dh_anon"):
            return [SKE_DH_ANON]
        if kx.startswith("ecdhe"):
            return [SKE_ECDHE_12 if t12 else SKE_ECDHE_10]
        if kx.startswith("dhe"):
            return [SKE_DHE_12 if t12 else SKE_DHE_10]
        return [SKE_ECDHE_12, SKE_ECDHE_10, SKE_DHE_12, SKE_DHE_10, SKE_SRP, SKE_ECDH_ANON, SKE_DH_ANON]
    if hs_type == 16:
        if kx.startswith("ecdh"):
            return [CKE_V1]
        if kx == "rsa" and ver == (3, 0):
            return [CKE_RAW]
        return [CKE_V2, CKE_V1, CKE_RAW]
    if hs_type == 15:
        return [CV_12] if ver >= (3, 3) else [CV_10]
    if hs_type == 20:
        return [FINISHED]
    if hs_type == 4:
        return [NST_13] if ver >= (3, 4) else [NST_12]
    if hs_type == 24:
        return [KEY_UPDATE]
    if hs_type in (14, 0, 5):
        return [EMPTY]
    if hs_type == 67:
        return [NEXT_PROTO]
    return []


def parse_handshake(data, ctx):
    """-> root Node: s[ u1 msg_type, v3 body ]; body structured when a schema fits exactly"""
    data = bytes(data)
    if len(data) < 4:
        raise ParseFail("no header")
    t = data[0]
    n = int.from_bytes(data[1:4], "big")
    if 4 + n != len(data):
        raise ParseFail("length")
    body = data[4:]
    bn = Node("v", "body", width=3, raw=body)
    c2 = dict(ctx)
    c2["msg"] = HS_NAMES.get(t, "hs%d" % t)
    for sch in candidates(t, c2):
        rd = Rd(body)
        try:
            node = sch(rd, c2)
            if rd.left() == 0:
                bn = Node("v", "body", width=3, children=[node])
                break
        except ParseFail:
            continue
    return Node("s", "handshake:" + c2["msg"], children=[Node("u", "msg_type", width=1, value=t), bn])


# ---- mutation descriptors -----------------------------------------------------------------------
def node_label(root, path):
    """human-stable label of the node at `path`: names joined, list indexes kept"""
    n = root
    parts = [root.name]
    for i in path:
        par = n
        n = n.children[i]
        if par.rep:
            parts.append("%s[%d]" % (n.name, i))
        elif n.name not in ("body",):
            parts.append(n.name)
    return "/".join(parts)


def boundary_uints(width, cur):
    m = (1 << (8 * width)) - 1
    s = [0, 1, m, m - 1, (m + 1) >> 1, ((m + 1) >> 1) - 1, (cur + 1) & m, (cur - 1) & m]
    out = []
    for v in s:
        if v != cur and v not in out:
            out.append(v)
    return out


SPECIAL_UINT = {
    "group": [0, 1, 23, 24, 25, 29, 30, 256, 257, 260, 0x11ec, 0x6399, 0xffff, 31, 0x0a0a],
    "named_curve": [0, 1, 19, 23, 24, 25, 26, 29, 30, 0xff01, 0xff02, 0xffff],
    "curve_type": [0, 1, 2, 4, 255],
    "version": [0x0300, 0x0301, 0x0302, 0x0303, 0x0304, 0x0305, 0x0200, 0x0002, 0x7f1c, 0xffff, 0],
    "client_version": [0x0300, 0x0301, 0x0302, 0x0303, 0x0304, 0x0200, 0x0002, 0, 0xffff, 0x0299],
    "server_version": [0x0300, 0x0301, 0x0302, 0x0303, 0x0304, 0x0200, 0x0002, 0, 0xffff, 0x0299],
    "cipher_suite": [0, 0x0005, 0x002f, 0x00ff, 0x1301, 0x1302, 0x1303, 0xc02f, 0xc02b, 0x5600, 0xc01d, 0x0034, 0xffff],
    "suite": [0, 0x00ff, 0x5600, 0x1301, 0xc02f, 0xffff],
    "scheme": [0, 0x0101, 0x0201, 0x0203, 0x0401, 0x0403, 0x0804, 0x0807, 0x0808, 0x0809, 0x0202, 0x0402, 0xffff, 0x0904],
    "hash_alg": [0, 1, 2, 3, 4, 5, 6, 7, 8, 255],
    "sig_alg": [0, 1, 2, 3, 4, 7, 8, 64, 255],
    "algorithm": [0, 1, 2, 3, 4, 0xffff],
    "mode": [0, 1, 2, 3, 255],
    "limit": [0, 1, 63, 64, 65, 16384, 16385, 16386, 65535],
    "name_type": [0, 1, 2, 255],
    "compression_method": [0, 1, 64, 255],
    "method": [0, 1, 64, 255],
    "format": [0, 1, 2, 255],
    "msg_type": [0, 1, 2, 3, 4, 5, 6, 8, 11, 12, 13, 14, 15, 16, 20, 21, 22, 23, 24, 25, 67, 254, 255, 99],
    "ext_type": [0, 5, 10, 11, 13, 15, 16, 21, 22, 23, 27, 28, 35, 41, 42, 43, 44, 45, 49, 50, 51, 13172,
                 65281, 9, 12, 34, 1, 2, 3, 4, 0xfafa, 0xffff],
    "request_update": [0, 1, 2, 255],
    "uncompressed_length": [0, 1, 2, 0xffffff, 0xfffffe, 1 << 23, 65536, 16384],
    "cert_type": [0, 1, 2, 3, 255],
    "type": [0, 1, 2, 64, 255],
    "status_type": [0, 1, 2, 255],
    "selected": [0, 1, 2, 0xffff],
    "lifetime": [0, 1, 604800, 604801, 0xffffffff],
}


def gen_descriptors(root):
    """all structural mutation descriptors for a parsed message; each is a dict with
    'path' (list of child indexes), 'op', args, and 'label' (for case keys / violation keys)"""
    out = []

    def add(path, op, **kw):
        d = {"path": list(path), "op": op, "label": node_label(root, path)}
        d.update(kw)
        out.append(d)

    for path, n in root.walk():
        if n.kind == "u":
            vals = list(SPECIAL_UINT.get(n.name, [])) + boundary_uints(n.width, n.value)
            seen = set()
            for v in vals:
                v &= (1 << (8 * n.width)) - 1
                if v != n.value and v not in seen:
                    seen.add(v)
                    add(path, "set_uint", value=v)
        elif n.kind == "b":
            if n.raw:
                add(path, "fill", byte=0)
                add(path, "fill", byte=255)
                add(path, "randomize")
                add(path, "flip", pos=0, mask=1)
                add(path, "flip", pos=len(n.raw) - 1, mask=0x80)
        elif n.kind == "v":
            clen = len(n.content())
            m = (1 << (8 * n.width)) - 1
            # inconsistent: only the length field lies
            for v in (clen - 1, clen + 1, 0, m, clen + 2, clen // 2, m - 1):
                if 0 <= v <= m and v != clen:
                    add(path, "len_override", value=v)
            # consistent: content changes, all enclosing lengths follow
            if clen:
                add(path, "empty")
                add(path, "trunc_content", n=1)
                if clen > 2:
                    add(path, "trunc_content", n=clen // 2)
            add(path, "append_content", data="00")
            add(path, "append_content", data="ff" * 7)
            if n.children is None and clen:
                add(path, "fill", byte=0)
                add(path, "fill", byte=255)
                add(path, "randomize")
                add(path, "flip", pos=0, mask=0x01)
                add(path, "flip", pos=0, mask=0x80)
                add(path, "flip", pos=clen - 1, mask=0x01)
                add(path, "flip", pos=clen // 2, mask=0x10)
                add(path, "set_len_random", n=1)
                add(path, "set_len_random", n=clen + 1)
                add(path, "set_len_random", n=clen - 1)
                add(path, "grow", n=min(m, 70000) - 0)
            if n.rep and n.children:
                for i in range(len(n.children)):
                    add(path, "dup_item", i=i)
                    add(path, "del_item", i=i)
                if len(n.children) > 1:
                    add(path, "swap_items", i=0, j=len(n.children) - 1)
                    add(path, "reverse_items")
                add(path, "repeat_item", i=0, count=200)
                add(path, "repeat_item", i=len(n.children) - 1, count=3000)
                add(path, "keep_only", i=len(n.children) - 1)
        elif n.kind == "s":
            pass
    return out


def _rand_bytes(rng_seed, n):
    # deterministic bytes from a small seed (descriptor carries the seed)
    import random
    r = random.Random(rng_seed)
    return bytes(r.getrandbits(8) for _ in range(n))


def apply_descriptor(root, d):
    """mutate the tree in place according to descriptor d; raises ParseFail if inapplicable"""
    n = root.at(tuple(d["path"]))
    op = d["op"]
    if op == "set_uint":
        if n.kind != "u":
            raise ParseFail("kind")
        n.value = d["value"]
    elif op == "set_uint_delta":
        if n.kind != "u":
            raise ParseFail("kind")
        n.value = n.value + d["delta"]
    elif op == "len_override":
        if n.kind != "v":
            raise ParseFail("kind")
        n.len_override = d["value"]
    elif op == "empty":
        n.children, n.raw = None, b""
    elif op == "trunc_content":
        c = n.content()
        n.children, n.raw = None, c[:max(0, len(c) - d["n"])]
    elif op == "append_content":
        c = n.content()
        n.children, n.raw = None, c + bytes.fromhex(d["data"])
    elif op == "fill":
        c = n.content() if n.kind == "v" else n.raw
        n.children, n.raw = None, bytes([d["byte"]]) * len(c)
    elif op == "randomize":
        c = n.content() if n.kind == "v" else n.raw
        n.children, n.raw = None, _rand_bytes(d.get("seed", 1), len(c))
    elif op == "flip":
        c = bytearray(n.content() if n.kind == "v" else n.raw)
        if not c:
            raise ParseFail("empty")
        c[min(d["pos"], len(c) - 1)] ^= d["mask"]
        n.children, n.raw = None, bytes(c)
    elif op == "set_len_random":
        n.children, n.raw = None, _rand_bytes(d.get("seed", 2), max(0, d["n"]))
    elif op == "grow":
        c = n.content()
        n.children, n.raw = None, (c * (d["n"] // max(1, len(c)) + 1))[:d["n"]]
    elif op == "set_bytes":
        n.children, n.raw = None, bytes.fromhex(d["data"])
    elif op in ("dup_named", "del_named"):
        if n.children is None:
            raise ParseFail("no items")
        k = [i for i, c in enumerate(n.children) if c.name == d["name"]]
        if not k:
            raise ParseFail("name")
        if op == "dup_named":
            n.children.insert(k[0] + 1, n.children[k[0]])
        else:
            del n.children[k[0]]
    elif op in ("dup_item", "del_item", "swap_items", "reverse_items", "repeat_item", "keep_only",
                "insert_raw_item", "move_item_last"):
        if n.children is None:
            raise ParseFail("no items")
        ch = n.children
        if op == "dup_item":
            if d["i"] >= len(ch):
                raise ParseFail("i")
            ch.insert(d["i"] + 1, ch[d["i"]])
        elif op == "del_item":
            if d["i"] >= len(ch):
                raise ParseFail("i")
            del ch[d["i"]]
        elif op == "swap_items":
            if max(d["i"], d["j"]) >= len(ch):
                raise ParseFail("i")
            ch[d["i"]], ch[d["j"]] = ch[d["j"]], ch[d["i"]]
        elif op == "reverse_items":
            ch.reverse()
        elif op == "repeat_item":
            if d["i"] >= len(ch):
                raise ParseFail("i")
            item = ch[d["i"]]
            unit = max(1, len(item.ser()))
            # keep the message below ~200 kB: work must be judged in proportion to the bytes received
            lim = min((1 << (8 * n.width)) - 1, 200000)
            cur = len(n.content())
            cnt = max(0, min(d["count"], (lim - cur) // unit))
            n.children = ch + [item] * cnt
        elif op == "keep_only":
            if d["i"] >= len(ch):
                raise ParseFail("i")
            n.children = [ch[d["i"]]]
        elif op == "insert_raw_item":
            ch.insert(min(d["i"], len(ch)), Node("b", "raw_item", raw=bytes.fromhex(d["data"])))
        elif op == "move_item_last":
            if d["i"] >= len(ch):
                raise ParseFail("i")
            ch.append(ch.pop(d["i"]))
    else:
        raise ParseFail("unknown op " + op)
    return root


def mutate(data, ctx, d):
    """apply descriptor d to the handshake message bytes `data` -> mutated bytes"""
    if d["op"] == "raw_replace":
        return bytes.fromhex(d["data"])
    if d["op"] == "trunc_msg":            # cut the message, header length fixed up
        body = bytes(data[4:])[:d["at"]]
        return bytes(data[:1]) + len(body).to_bytes(3, "big") + body
    if d["op"] == "trunc_raw":            # cut the message, header length NOT fixed up
        return bytes(data[:4 + d["at"]])
    if d["op"] == "trail_msg":
        body = bytes(data[4:]) + bytes.fromhex(d["data"])
        return bytes(data[:1]) + len(body).to_bytes(3, "big") + body
    if d["op"] == "byte_set":
        b = bytearray(data)
        if d["pos"] >= len(b):
            raise ParseFail("pos")
        b[d["pos"]] = d["value"]
        return bytes(b)
    if d["op"] == "cert_spki":
        return mutate_cert_spki(bytes(data), ctx, bytes.fromhex(d["spki"]))
    if d["op"] == "byte_xor":
        b = bytearray(data)
        if d["pos"] >= len(b) or not d["mask"]:
            raise ParseFail("pos")
        b[d["pos"]] ^= d["mask"]
        return bytes(b)
    if d["op"] == "dup_msg":
        return bytes(data) * 2
    if d["op"] == "prepend_msg":
        return bytes.fromhex(d["data"]) + bytes(data)
    if d["op"] == "append_msg":
        return bytes(data) + bytes.fromhex(d["data"])
    root = parse_handshake(data, ctx)
    for step in (d["steps"] if d["op"] == "multi" else [d]):
        if "find" in step:
            step = dict(step)
            step["path"] = find_path(root, step["find"])
        apply_descriptor(root, step)
    return root.ser()


def find_path(root, names):
    """path of the first node reached by descending through nodes with the given names in order"""
    def rec(node, path, i):
        if i == len(names):
            return path
        if node.children is None:
            return None
        for k, c in enumerate(node.children):
            if c.name == names[i]:
                r = rec(c, path + (k,), i + 1)
                if r is not None:
                    return r
            else:
                r = rec(c, path + (k,), i)
                if r is not None:
                    return r
        return None
    r = rec(root, (), 0)
    if r is None:
        raise ParseFail("find " + "/".join(names))
    return list(r)


def find_exts(root):
    """paths of every extension-list vector in the message"""
    return [p for p, n in root.walk() if n.kind == "v" and n.rep and n.children is not None and
            (n.name == "extensions")]


FOREIGN_EXTS = {
    # extensions that do not belong in the given message (type -> hex body)
    "server_name": (0, "0000"), "key_share_sh": (51, "001d0020" + "11" * 32), "key_share_hrr": (51, "0017"),
    "supported_versions_sh": (43, "0304"), "supported_versions_ch": (43, "020304"),
    "pre_shared_key_sh": (41, "0000"), "cookie": (44, "00021234"), "early_data": (42, ""),
    "heartbeat": (15, "01"), "record_size_limit": (28, "4000"), "alpn": (16, "0003026832"),
    "status_request": (5, "0100000000"), "ems": (23, ""), "etm": (22, ""), "npn": (13172, ""),
    "renego": (65281, "00"), "session_ticket": (35, ""), "sig_algs": (13, "00020401"),
    "compress_certificate": (27, "020001"), "psk_modes": (45, "0101"), "pha": (49, ""),
    "unknown": (0xfafa, "deadbeef"), "ec_point_formats": (11, "0100"), "tack": (62208, "00"),
    "cert_type_sh": (9, "00"), "supported_groups": (10, "00020017"), "padding": (21, "000000"),
    "pre_shared_key_ch": (41, "0006000269640000000000020161"[:0] + "00080002696400000000" + "0003" + "02aabb"),
}


def gen_ext_descriptors(root):
    """extension-list level descriptors (type-level mutations)"""
    out = []
    for p in find_exts(root):
        lst = root.at(p)
        lab = node_label(root, p)
        for i, e in enumerate(lst.children):
            nm = e.name
            out.append({"path": list(p), "op": "dup_item", "i": i, "label": lab + "/" + nm, "cls": "dup-ext"})
            out.append({"path": list(p), "op": "del_item", "i": i, "label": lab + "/" + nm, "cls": "del-ext"})
            out.append({"path": list(p), "op": "move_item_last", "i": i, "label": lab + "/" + nm, "cls": "move-ext"})
            # empty body, one-byte body, long body for every extension
            out.append({"path": list(p) + [i, 1], "op": "empty", "label": lab + "/" + nm, "cls": "empty-ext"})
            out.append({"path": list(p) + [i, 1], "op": "set_bytes", "data": "00", "label": lab + "/" + nm, "cls": "ext-body-00"})
            out.append({"path": list(p) + [i, 1], "op": "set_bytes", "data": "0000", "label": lab + "/" + nm, "cls": "ext-body-0000"})
            out.append({"path": list(p) + [i, 1], "op": "set_bytes", "data": "000100", "label": lab + "/" + nm, "cls": "ext-body-000100"})
            out.append({"path": list(p) + [i, 1], "op": "set_bytes", "data": "ff" * 40, "label": lab + "/" + nm, "cls": "ext-body-ff"})
        for nm, (t, body) in sorted(FOREIGN_EXTS.items()):
            raw = t.to_bytes(2, "big") + (len(body) // 2).to_bytes(2, "big") + bytes.fromhex(body)
            for where in (0, 9999):
                out.append({"path": list(p), "op": "insert_raw_item", "i": where, "data": raw.hex(),
                            "label": lab + "/+" + nm, "cls": "foreign-ext"})
        out.append({"path": list(p), "op": "reverse_items", "label": lab, "cls": "reverse-exts"})
    return out


def zbomb(out_len, byte=0):
    return zlib.compress(bytes([byte]) * out_len, 9)


# ---- a small DER rewriter (definite lengths only), used to give real certificates unusual public keys -------
def der_enc(tag, content):
    n = len(content)
    if n < 128:
        ln = bytes([n])
    else:
        b = n.to_bytes((n.bit_length() + 7) // 8, "big")
        ln = bytes([0x80 | len(b)]) + b
    return bytes([tag]) + ln + bytes(content)


def der_read(data, pos=0):
    """-> (tag, content, end) of the TLV at pos"""
    tag = data[pos]
    ln = data[pos + 1]
    p = pos + 2
    if ln & 0x80:
        k = ln & 0x7f
        ln = int.from_bytes(data[p:p + k], "big")
        p += k
    if p + ln > len(data):
        raise ParseFail("der")
    return tag, bytes(data[p:p + ln]), p + ln


def der_children(content):
    out, p = [], 0
    while p < len(content):
        tag, c, e = der_read(content, p)
        out.append((tag, c))
        p = e
    return out


def der_seq(*items):
    return der_enc(0x30, b"".join(items))


def der_oid(dotted):
    parts = [int(x) for x in dotted.split(".")]
    body = bytes([40 * parts[0] + parts[1]])
    for v in parts[2:]:
        chunk = [v & 0x7f]
        v >>= 7
        while v:
            chunk.append(0x80 | (v & 0x7f))
            v >>= 7
        body += bytes(reversed(chunk))
    return der_enc(0x06, body)


def der_int(n=None, raw=None):
    if raw is not None:
        return der_enc(0x02, raw)
    if n == 0:
        return der_enc(0x02, b"\x00")
    b = n.to_bytes((n.bit_length() + 8) // 8, "big")
    return der_enc(0x02, b)


def der_bits(data, unused=0):
    return der_enc(0x03, bytes([unused]) + bytes(data))


DER_NULL = b"\x05\x00"


def cert_spki_index(tbs_children):
    return 6 if tbs_children and tbs_children[0][0] == 0xA0 else 5


def cert_get_spki(cert):
    tag, c, _ = der_read(cert)
    top = der_children(c)
    tbs = der_children(top[0][1])
    t, v = tbs[cert_spki_index(tbs)]
    return der_enc(t, v)


def cert_replace_spki(cert, spki):
    """the certificate with its SubjectPublicKeyInfo replaced by `spki` (all lengths fixed up; the signature is
    left alone: tlslite does not verify chains)"""
    tag, c, _ = der_read(cert)
    top = der_children(c)
    tbs = der_children(top[0][1])
    i = cert_spki_index(tbs)
    parts = [der_enc(t, v) for t, v in tbs]
    parts[i] = bytes(spki)
    new_tbs = der_enc(top[0][0], b"".join(parts))
    return der_enc(tag, new_tbs + b"".join(der_enc(t, v) for t, v in top[1:]))


def _replace_first_cert(root, spki):
    for p, n in root.walk():
        if n.name == "cert_der" and n.children is None:
            n.raw = cert_replace_spki(n.content(), spki)
            return True
    return False


def mutate_cert_spki(data, ctx, spki):
    """handshake Certificate or CompressedCertificate message with the first certificate's public key replaced"""
    root = parse_handshake(data, ctx)
    if data[0] == 25:
        algo = root.at((1, 0, 0))
        ulen = root.at((1, 0, 1))
        comp = root.at((1, 0, 2))
        if algo.value != 1:
            raise ParseFail("compression algorithm")
        body = zlib.decompress(comp.content())
        rd = Rd(body)
        inner = CERT_13(rd, dict(ctx, msg="certificate"))
        if rd.left() or not _replace_first_cert(inner, spki):
            raise ParseFail("inner certificate")
        new = inner.ser()
        comp.children, comp.raw = None, zlib.compress(new)
        ulen.value = len(new)
        return root.ser()
    if not _replace_first_cert(root, spki):
        raise ParseFail("no certificate")
    return root.ser()
