"""C18 reference specification of a session cache, written from the property text (not from the code).

"Sequentially, the cache returns for an ID the session last stored under it if and only if it is
younger than the age limit, still valid and not evicted by newer entries."

State: the time-stamped log of every store, oldest first.  Nothing is ever deleted from the log; a
lookup decides from the log alone.  Capacity: the circular list of `maxEntries` slots keeps one slot
free, so a store survives `maxEntries - 2` later stores and is evicted by the `maxEntries - 1`-th.
"""

KEYERROR = "KeyError"


class RefCache(object):
    def __init__(self, max_entries, max_age):
        self.max_entries = max_entries
        self.max_age = max_age
        self.log = []           # (id, time, session)

    def store(self, sid, now, session):
        self.log.append((bytes(sid), now, session))

    def last_store(self, sid):
        """(number of stores after it, time, session) of the newest store under sid, or None"""
        sid = bytes(sid)
        for back, (i, t, s) in enumerate(reversed(self.log)):
            if i == sid:
                return back, t, s
        return None

    def lookup(self, sid, now, is_valid):
        """the session object, or KEYERROR"""
        r = self.last_store(sid)
        if r is None:
            return KEYERROR
        after, t, s = r
        if after + 1 >= self.max_entries:      # evicted by newer entries
            return KEYERROR
        if now - t > self.max_age:              # older than the age limit
            return KEYERROR
        if not is_valid(s):                     # no longer resumable
            return KEYERROR
        return s

    def live_ids(self, now):
        """IDs a lookup at `now` could still return (ignoring validity): the size bound counts these"""
        res = set()
        for sid in set(i for i, _, _ in self.log):
            after, t, _ = self.last_store(sid)
            if after + 1 < self.max_entries and not (now - t > self.max_age):
                res.add(sid)
        return res
