"""C07 helpers: leading-zero steering of key-exchange intermediates, and an RFC 5054 reference SRP peer.

Random handshakes hit "this big-endian intermediate starts with 0x00" with probability 1/256; the
interoperability bugs of a key exchange live exactly there (PAD() or not, strip or not).  Two tools:

* steering(): while one live tlslite <-> OpenSSL handshake runs, tlslite's *random private value* is
  drawn repeatedly from tlslite's own generator until an independently computed predicate holds
  (own public value / shared secret / RSA ciphertext starts with a zero byte).  Only the choice among
  genuine random outputs is steered; nothing else of the code under test is touched.  The peer's
  share is read off the wire (it is already there when tlslite draws its value: TLS <= 1.2 client
  after ServerKeyExchange, TLS 1.3 server after ClientHello).
* SRP (the stdlib ssl module has no SRP; the `openssl` CLI of this image prompts on a tty and its
  s_server drops the connection, so it is not usable): an independent implementation of RFC 5054
  (2.5.3, 2.5.4, 2.6), validated in every run against the RFC 5054 appendix B test vector, plays
  client against tlslite's server-side SRPKeyExchange and server against the client side, through
  the serialised ServerKeyExchange / ClientKeyExchange messages, with exponents searched so that
  A, B, u and the premaster secret each start with a zero byte in turn.
"""
import contextlib
import hashlib

# ---------------------------------------------------------------------------------------------
# RFC 7748 (independent of tlslite's x25519.py): used only to evaluate steering predicates


def _x_ladder(k, u, bits, p, a24):
    x1, x2, z2, x3, z3, swap = u, 1, 0, u, 1, 0
    for t in range(bits - 1, -1, -1):
        kt = (k >> t) & 1
        swap ^= kt
        if swap:
            x2, x3, z2, z3 = x3, x2, z3, z2
        swap = kt
        A = (x2 + z2) % p
        AA = A * A % p
        B = (x2 - z2) % p
        BB = B * B % p
        E = (AA - BB) % p
        C = (x3 + z3) % p
        D = (x3 - z3) % p
        DA = D * A % p
        CB = C * B % p
        x3 = (DA + CB) % p
        x3 = x3 * x3 % p
        z3 = (DA - CB) % p
        z3 = x1 * z3 * z3 % p
        x2 = AA * BB % p
        z2 = E * (AA + a24 * E) % p
    if swap:
        x2, x3, z2, z3 = x3, x2, z3, z2
    return x2 * pow(z2, p - 2, p) % p


def ref_x25519(k, u):
    k = bytearray(k)
    k[0] &= 248
    k[31] &= 127
    k[31] |= 64
    u = bytearray(u)
    u[31] &= 127
    r = _x_ladder(int.from_bytes(k, "little"), int.from_bytes(u, "little"), 255, 2 ** 255 - 19, 121665)
    return r.to_bytes(32, "little")


def ref_x448(k, u):
    k = bytearray(k)
    k[0] &= 252
    k[55] |= 128
    r = _x_ladder(int.from_bytes(k, "little"), int.from_bytes(bytes(u), "little"), 448, 2 ** 448 - 2 ** 224 - 1, 39081)
    return r.to_bytes(56, "little")


def x_selftest():
    """RFC 7748 section 5.2 vectors"""
    k = bytes.fromhex("a546e36bf0527c9d3b16154b82465edd62144c0ac1fc5a18506a2244ba449ac4")
    u = bytes.fromhex("e6db6867583030db3594c1a424b15f7c726624ec26b3353b10a903a6d0ab1c4c")
    ok1 = ref_x25519(k, u).hex() == "c3da55379de9c6908e94ea4df28d084f32eccf03491c71f754b4075577a28552"
    k = bytes.fromhex("3d262fddf9ec8e88495266fea19a34d28882acef045104d0d1aae121700a779c984c24f8cdd78fbff44943eba368f54b29259a4f1c600ad3")
    u = bytes.fromhex("06fce640fa3487bfda5f6cf2d5263f8aad88334cbd07437f020f08f9814dc031ddbdc38c19c6da2583fa5429db94ada18aa7a7fb4ef8a086")
    ok2 = ref_x448(k, u).hex() == ("ce3e4ff95a60dc6697da1db1d85e6afbdf79b50a2412d7546d5f239fe14fbaadeb445fc66a01b0779d98223961111e21"
                                  "766282f73dd96b6f")
    return ok1 and ok2


NIST = {23: "NIST256p", 24: "NIST384p", 25: "NIST521p", 26: "BRAINPOOLP256r1", 27: "BRAINPOOLP384r1", 28: "BRAINPOOLP512r1"}


def ec_shared_x(group, secret, peer_bytes):
    """x coordinate of secret * peer point (python-ecdsa arithmetic, used for the steering predicate only)"""
    import ecdsa
    curve = getattr(ecdsa, NIST[group])
    n = curve.baselen
    if len(peer_bytes) != 1 + 2 * n or peer_bytes[0] != 4:
        return None, n
    pt = ecdsa.ellipticcurve.Point(curve.curve, int.from_bytes(peer_bytes[1:1 + n], "big"),
                                   int.from_bytes(peer_bytes[1 + n:], "big"))
    return (pt * secret).x(), n


# ---------------------------------------------------------------------------------------------
# the peer's share as a passive observer sees it
def peer_share(c07, link, role):
    """returns dict: for a tlslite client (TLS <= 1.2): {'ec': (group, point)} or {'ff': (p, g, Ys)};
    for a tlslite server (TLS 1.3): {'shares': {group: bytes}}"""
    try:
        if role == "client":
            sms = c07.server_plain_handshake(link.records("s2c"))
            sh = [c07.parse_server_hello(b) for t, b in sms if t == 2]
            if not sh or sh[-1]["suite"] not in c07.SUITE_NAME:
                return {}
            kx = c07.parse_iana(c07.SUITE_NAME[sh[-1]["suite"]])["kx"]
            for t, b in sms:
                if t != 12:
                    continue
                if kx in ("ecdhe", "ecdhanon") and b[0] == 3:
                    g = int.from_bytes(b[1:3], "big")
                    return {"ec": (g, bytes(b[4:4 + b[3]]))}
                if kx in ("dhe", "dhanon"):
                    i = 0
                    vals = []
                    for _ in range(3):
                        ln = int.from_bytes(b[i:i + 2], "big")
                        vals.append(int.from_bytes(b[i + 2:i + 2 + ln], "big"))
                        i += 2 + ln
                    return {"ff": tuple(vals)}
            return {}
        cms = c07.split_handshake(c07.handshake_stream(link.records("c2s")))
        if not cms or cms[0][0] != 1:
            return {}
        ch = c07.parse_client_hello(cms[0][1])
        e = ch["ext"].get(51)
        shares = {}
        if e is not None:
            j = 2
            while j + 4 <= len(e):
                g = int.from_bytes(e[j:j + 2], "big")
                ln = int.from_bytes(e[j + 2:j + 4], "big")
                shares[g] = bytes(e[j + 4:j + 4 + ln])
                j += 4 + ln
        return {"shares": shares}
    except Exception:   # noqa: B902 - steering is best effort
        return {}


MAX_TRIES = 6000


@contextlib.contextmanager
def steering(c07, pr, role, want):
    """want: 'pub0' (own FFDHE public value starts with 0x00), 'z0' (shared secret: most significant byte 0),
    'z0lsb' (x25519/x448: first byte on the wire order 0), 'rsa0' (RSA ciphertext starts with 0x00).
    Yields a status dict: tries, hit (bool), what."""
    from tlslite import keyexchange as kxm
    from tlslite.utils import rsakey
    st = {"want": want, "hit": False, "tries": 0, "what": None}
    if not want:
        yield st
        return
    orig_ff = kxm.FFDHKeyExchange.get_random_private_key
    orig_ec = kxm.ECDHKeyExchange.get_random_private_key
    orig_enc = rsakey.RSAKey.encrypt

    def ff_params(kex):
        ps = peer_share(c07, pr.link, role)
        if "ff" in ps:
            return ps["ff"]
        grp = getattr(kex, "group", None)
        if grp in c07.GROUP_NAME and grp >= 256:
            p = c07.rfc7919_prime(int(c07.GROUP_NAME[grp][5:]))
            peer = ps.get("shares", {}).get(grp)
            return (p, 2, int.from_bytes(peer, "big") if peer else None)
        if want == "pub0" and getattr(kex, "prime", None):
            # TLS <= 1.2 server: the parameters are its own choice (plain data), nothing is on the wire yet
            return (int(kex.prime), int(kex.generator), None)
        return None

    def ff(self):
        if st["hit"] or want not in ("pub0", "z0"):
            return orig_ff(self)
        prm = ff_params(self)
        if prm is None or (want == "z0" and prm[2] is None):
            return orig_ff(self)
        p, g, peer = prm
        lim = 1 << (8 * ((p.bit_length() + 7) // 8 - 1))
        priv = orig_ff(self)
        for _ in range(MAX_TRIES):
            st["tries"] += 1
            val = pow(g, priv, p) if want == "pub0" else pow(peer, priv, p)
            if 1 < val < lim:
                st["hit"] = True
                st["what"] = "ffdhe %d bits %s" % (p.bit_length(), want)
                return priv
            priv = orig_ff(self)
        return priv

    def ec(self):
        if st["hit"] or want not in ("z0", "z0lsb"):
            return orig_ec(self)
        ps = peer_share(c07, pr.link, role)
        grp = self.group
        if "ec" in ps and ps["ec"][0] == grp:
            peer = ps["ec"][1]
        else:
            peer = ps.get("shares", {}).get(grp)
        if not peer:
            return orig_ec(self)
        priv = orig_ec(self)
        for _ in range(MAX_TRIES):
            st["tries"] += 1
            if grp in (29, 30):
                z = (ref_x25519 if grp == 29 else ref_x448)(bytes(priv), peer)
                ok = (z[-1] == 0) if want == "z0" else (z[0] == 0)
            elif grp in NIST:
                x, n = ec_shared_x(grp, priv.privkey.secret_multiplier, peer)
                ok = x is not None and x < (1 << (8 * (n - 1)))
            else:
                return priv
            if ok:
                st["hit"] = True
                st["what"] = "group %d %s" % (grp, want)
                return priv
            priv = orig_ec(self)
        return priv

    def enc(self, data):
        if st["hit"] or want != "rsa0":
            return orig_enc(self, data)
        k = (int(self.n).bit_length() + 7) // 8
        c = orig_enc(self, data)
        for _ in range(MAX_TRIES):
            st["tries"] += 1
            if len(c) < k or c[0] == 0:
                st["hit"] = True
                st["what"] = "rsa %d bits ciphertext" % int(self.n).bit_length()
                return c
            c = orig_enc(self, data)
        return c

    kxm.FFDHKeyExchange.get_random_private_key = ff
    kxm.ECDHKeyExchange.get_random_private_key = ec
    rsakey.RSAKey.encrypt = enc
    try:
        yield st
    finally:
        kxm.FFDHKeyExchange.get_random_private_key = orig_ff
        kxm.ECDHKeyExchange.get_random_private_key = orig_ec
        rsakey.RSAKey.encrypt = orig_enc


# ---------------------------------------------------------------------------------------------
# RFC 5054 reference peer
def _H(*parts):
    return hashlib.sha1(b"".join(parts)).digest()


def i2b(n):
    """implicit conversion (RFC 5054 2.1): most significant byte non-zero"""
    return n.to_bytes((n.bit_length() + 7) // 8, "big")


def PAD(N, n):
    return n.to_bytes((N.bit_length() + 7) // 8, "big")


N1024 = int("EEAF0AB9ADB38DD69C33F80AFA8FC5E86072618775FF3C0B9EA2314C9C256576D674DF7496EA81D3383B4813D692C6E0"
            "E0D5D8E250B98BE48E495C1D6089DAD15DC7D7B46154D6B6CE8EF4AD69B15D4982559B297BCF1885C529F566660E57EC"
            "68EDBC3C05726CC02FD4CBF4976EAA9AFD5138FE8376435B9FC61D2FC0EB06E3", 16)


def srp_k(N, g):
    return int.from_bytes(_H(i2b(N), PAD(N, g)), "big")


def srp_x(s, I, P):
    return int.from_bytes(_H(s, _H(I + b":" + P)), "big")


def srp_u(N, A, B):
    return int.from_bytes(_H(PAD(N, A), PAD(N, B)), "big")


def srp_A(N, g, a):
    return pow(g, a, N)


def srp_B(N, g, v, b):
    return (srp_k(N, g) * v + pow(g, b, N)) % N


def client_premaster(N, g, s, I, P, a, B):
    x = srp_x(s, I, P)
    u = srp_u(N, srp_A(N, g, a), B)
    return i2b(pow((B - srp_k(N, g) * pow(g, x, N)) % N, a + u * x, N))


def server_premaster(N, g, v, b, A):
    u = srp_u(N, A, srp_B(N, g, v, b))
    return i2b(pow(A * pow(v, u, N) % N, b, N))


RFC5054_B = dict(
    I=b"alice", P=b"password123", s="BEB25379D1A8581EB5A727673A2441EE",
    k="7556AA045AEF2CDD07ABAF0F665C3E818913186F", x="94B7555AABE9127CC58CCF4993DB6CF84D16C124",
    v="7E273DE8696FFC4F4E337D05B4B375BEB0DDE1569E8FA00A9886D8129BADA1F1822223CA1A605B530E379BA4729FDC59F105B4787E5186F5"
      "C671085A1447B52A48CF1970B4FB6F8400BBF4CEBFBB168152E08AB5EA53D15C1AFF87B2B9DA6E04E058AD51CC72BFC9033B564E26480D78"
      "E955A5E29E7AB245DB2BE315E2099AFB",
    a="60975527035CF2AD1989806F0407210BC81EDC04E2762A56AFD529DDDA2D4393",
    b="E487CB59D31AC550471E81F00F6928E01DDA08E974A004F49E61F5D105284D20",
    A="61D5E490F6F1B79547B0704C436F523DD0E560F0C64115BB72557EC44352E8903211C04692272D8B2D1A5358A2CF1B6E0BFCF99F921530EC"
      "8E39356179EAE45E42BA92AEACED825171E1E8B9AF6D9C03E1327F44BE087EF06530E69F66615261EEF54073CA11CF5858F0EDFDFE15EFEA"
      "B349EF5D76988A3672FAC47B0769447B",
    B="BD0C61512C692C0CB6D041FA01BB152D4916A1E77AF46AE105393011BAF38964DC46A0670DD125B95A981652236F99D9B681CBF87837EC99"
      "6C6DA04453728610D0C6DDB58B318885D7D82C7F8DEB75CE7BD4FBAA37089E6F9C6059F388838E7A00030B331EB76840910440B1B27AAEAE"
      "EB4012B7D7665238A8E3FB004B117B58",
    u="CE38B9593487DA98554ED47D70A7AE5F462EF019",
    S="B0DC82BABCF30674AE450C0287745E7990A3381F63B387AAF271A10D233861E359B48220F7C4693C9AE12B0A6F67809F0876E2D013800D6C"
      "41BB59B6D5979B5C00A172B4A2A5903A0BDCAF8A709585EB2AFAFA8F3499B200210DCC1F10EB33943CD67FC88A2F39A4BE5BEC4EC0A3212D"
      "C346D7E474B29EDE8A469FFECA686E5A")


def srp_selftest():
    """the reference against RFC 5054 appendix B"""
    V = RFC5054_B
    N, g = N1024, 2
    s = bytes.fromhex(V["s"])
    h = lambda k: int(V[k], 16)   # noqa: E731
    x = srp_x(s, V["I"], V["P"])
    v = pow(g, x, N)
    A = srp_A(N, g, h("a"))
    B = srp_B(N, g, v, h("b"))
    return (srp_k(N, g) == h("k") and x == h("x") and v == h("v") and A == h("A") and B == h("B") and
            srp_u(N, A, B) == h("u") and
            client_premaster(N, g, s, V["I"], V["P"], h("a"), B) == bytes.fromhex(V["S"]) and
            server_premaster(N, g, v, h("b"), A) == bytes.fromhex(V["S"]))


def _vec(b, n):
    return len(b).to_bytes(n, "big") + b


def ref_ske_body(N, g, s, B):
    """ServerKeyExchange body for SRP (RFC 5054 2.8.2: ServerSRPParams), integers in implicit conversion"""
    return _vec(i2b(N), 2) + _vec(i2b(g), 2) + _vec(s, 1) + _vec(i2b(B), 2)


def ref_parse_ske(body):
    out = []
    i = 0
    for n in (2, 2, 1, 2):
        ln = int.from_bytes(body[i:i + n], "big")
        out.append(bytes(body[i + n:i + n + ln]))
        i += n + ln
    return int.from_bytes(out[0], "big"), int.from_bytes(out[1], "big"), out[2], int.from_bytes(out[3], "big"), i


def lead0(n, nbytes):
    return n < (1 << (8 * (nbytes - 1)))


def find_exponents(rng, N, g, s, I, P, role, steer):
    """(a, b) such that the steered quantity has a leading zero byte.  role = tlslite's role.  What tlslite
    draws itself (b as server, a as client) is later injected through getRandomBytes(32); the other value is
    the reference peer's.  Searched exponents are 64-bit (any value is a legal SRP exponent; it keeps the
    search cheap), the unsteered case uses full 256-bit ones."""
    L = (N.bit_length() + 7) // 8
    x = srp_x(s, I, P)
    v = pow(g, x, N)
    kv = srp_k(N, g) * v

    def small():
        return rng.getrandbits(64) | (1 << 63)

    if steer == "none":
        return rng.getrandbits(256) | 1, rng.getrandbits(256) | 1
    a, b = small(), small()
    A = pow(g, a, N)
    B = (kv + pow(g, b, N)) % N
    for _ in range(20000):
        if steer in ("A0", "AB0") and not lead0(A, L):
            a = small()
            A = pow(g, a, N)
            continue
        if steer in ("B0", "AB0") and not lead0(B, L):
            b = small()
            B = (kv + pow(g, b, N)) % N
            continue
        if steer == "u0" and not lead0(srp_u(N, A, B), 20):
            if role == "client":
                a = small()
                A = pow(g, a, N)
            else:
                b = small()
                B = (kv + pow(g, b, N)) % N
            continue
        if steer == "S0":
            u = srp_u(N, A, B)
            if not lead0(pow(A * pow(v, u, N) % N, b, N), L):
                a = small()
                A = pow(g, a, N)
                continue
        break
    return a, b


def srp_case(case):
    """one reference <-> tlslite SRPKeyExchange run.  case: dict(role, bits, g, N(hex), s(hex), I, P, a, b, suite, version).
    returns (ok, details)"""
    import types
    from tlslite import keyexchange as kxm
    from tlslite.messages import ServerKeyExchange, ClientKeyExchange
    from tlslite.utils.codec import Parser
    from tlslite.handshakesettings import HandshakeSettings
    N = int(case["N"], 16)
    g = case["g"]
    s = bytes.fromhex(case["s"])
    I = case["I"].encode()
    P = case["P"].encode()
    a, b = int(case["a"]), int(case["b"])
    suite = case["suite"]
    ver = tuple(case["version"])
    x = srp_x(s, I, P)
    v = pow(g, x, N)
    d = {}
    ch = types.SimpleNamespace(srp_username=bytearray(I))
    sh = types.SimpleNamespace(server_version=ver)
    orig = kxm.getRandomBytes
    try:
        if case["role"] == "server":
            kxm.getRandomBytes = lambda n: bytearray(b.to_bytes(n, "big"))
            kex = kxm.SRPKeyExchange(suite, ch, sh, None, {bytes(I): (N, g, bytearray(s), v)})
            ske = kex.makeServerKeyExchange()
            wire = bytes(ske.write())
            Nw, gw, sw, Bw, _ = ref_parse_ske(wire[4:])
            B = srp_B(N, g, v, b)
            d["B_on_wire_ok"] = (Nw, gw, sw, Bw) == (N, g, s, B)
            A = srp_A(N, g, a)
            ref_pm = client_premaster(N, g, sw, I, P, a, Bw)
            cke = ClientKeyExchange(suite, ver)
            body = _vec(i2b(A), 2)
            cke.parse(Parser(bytearray(len(body).to_bytes(3, "big") + body)))
            tl_pm = bytes(kex.processClientKeyExchange(cke))
        else:
            kxm.getRandomBytes = lambda n: bytearray(a.to_bytes(n, "big"))
            B = srp_B(N, g, v, b)
            body = ref_ske_body(N, g, s, B)
            ske = ServerKeyExchange(suite, ver)
            ske.parse(Parser(bytearray(len(body).to_bytes(3, "big") + body)))
            st = HandshakeSettings()
            kex = kxm.SRPKeyExchange(suite, ch, sh, None, None, srpUsername=bytearray(I), password=bytearray(P), settings=st)
            tl_pm = bytes(kex.processServerKeyExchange(None, ske))
            wire = bytes(kex.makeClientKeyExchange().write())
            ln = int.from_bytes(wire[4:6], "big")
            Aw = int.from_bytes(wire[6:6 + ln], "big")
            d["A_on_wire_ok"] = Aw == srp_A(N, g, a) and 6 + ln == len(wire)
            ref_pm = server_premaster(N, g, v, b, Aw)
    finally:
        kxm.getRandomBytes = orig
    d["tlslite_premaster"] = tl_pm.hex()
    d["reference_premaster"] = ref_pm.hex()
    ok = tl_pm == ref_pm and all(vv for kk, vv in d.items() if kk.endswith("_ok"))
    return ok, d
