"""C15 — every message and extension codec round-trips and enforces its framing exactly.

Theorems: lean/Props/C15.lean (generic encode/decode over the format description `Fmt`:
decode_encode, encode_decode, encode_none_iff_overflow, decode_exact / truncated / trailing /
inner-exceeds-outer, Writer/Parser primitives; every tlslite format an instance).
Tie: for every model format the real class is driven with values generated from the model's own
format tree (driver op `show`): write() vs `encode`, parse() of the encoding and of every
truncation / length-field perturbation / junk-inside-region / byte change vs `decode`.
Oracle (independent of Lean): parse(write(v)) == v field by field, write(parse(x)) == consumed
bytes for every accepted x (valid or mutated), exact consumption, no silent truncation on write,
only decode errors on malformed framing.
"""
from ..leanclient import hx, unhx
from . import c15_vals as V

TRANSLATORS = ["exttable", "codec"]

MANIFEST = {
    "text": "Proof: one format-description type Fmt with generic encode/decode (lean/TlsModel/Fmt.lean); proved once by induction "
            "on Fmt for all formats satisfying the decidable predicate wf: decode(encode v ++ r) = (v, r) (decode_encode, "
            "decode_encode_tail), encode(decode x) re-creates exactly the consumed bytes (encode_decode), encoding fails exactly when "
            "a field does not fit and never wraps (encode_none_iff_overflow, encode_some_fits), a length-delimited structure consumes "
            "exactly its declared length: truncation, trailing bytes inside and inner-exceeds-outer are errors (decode_exact, "
            "decode_lenPref_char, decode_truncated, decode_trailing_rejected, decode_inner_exceeds_outer, decode_declared_past_end); "
            "Writer/Parser of utils/codec.py modelled method by method (writer_add_overflow, parser_get_bounds, ...). Every tlslite "
            "message/extension/header format (lean/TlsModel/Msgs.lean, extension dispatch dictionaries regenerated from the source) is an "
            "instance (msgs_table_wf, msgs_ext_wf, msgs_extBody_wf by evaluation). Regeneration: translate/gen_codec.py re-translates the "
            "Writer and Parser methods of codec.py and HandshakeMsg.postWrite statement by statement into the Python-runtime model "
            "(PyInt.lean + PyObj.lean); gen_*_eq prove each regenerated method equal to the hand model's primitive for all states and "
            "natural arguments, gen_* corollaries restate overflow / bounds / round trip / truncation on the regenerated methods. "
            "Tie: differential correspondence of every real class "
            "with the model on generated values and on all truncations / length perturbations / inserted junk / byte changes of their "
            "encodings; direct round-trip and framing oracle on the real classes.",
    "note": "Trusted: Lean kernel (propext, Classical.choice, Quot.sound), the exttable and codec translators with the Python-runtime "
            "model TlsModel/PyInt.lean + PyObj.lean (its primitives and the regenerated methods are run against the interpreter, "
            "streams gen-writer-prims / gen-parser-prims / gen-postWrite, negative ints included), the correspondence harness. "
            "addVarTupleSeq and getVarTupleList are regenerated and tied by evaluation and correspondence only. "
            "X.509 / SPKI / OCSP bodies are opaque byte strings (ASN.1 parsers stubbed during the run); CompressedCertificate's "
            "decompression, SSLv2 messages and RecordHeader2 are checked by the round-trip oracle only, not modelled. Negative ints "
            "are outside the model.",
    "technique": "Lean 4 proof by induction on a format DSL; generated dispatch tables; differential correspondence; round-trip/framing oracle",
}

FRAMING_KINDS = ("truncate", "length", "inner-trailing", "outer-trailing", "dup-ext")


# ------------------------------------------------------------------ running the real code

class Hang(Exception):
    """the code under test did not return within the time limit"""


class time_limit(object):
    """SIGALRM watchdog around one call into the code under test (main thread only): a changed
    parser that loops forever must become a finding, not a frozen or memory-eating check"""

    def __init__(self, seconds=3.0):
        self.seconds = seconds
        self.on = False

    def __enter__(self):
        import signal
        import threading
        if threading.current_thread() is threading.main_thread() and hasattr(signal, "setitimer"):
            def handler(signum, frame):
                raise Hang("no result after %.0f s" % self.seconds)
            self.old = signal.signal(signal.SIGALRM, handler)
            signal.setitimer(signal.ITIMER_REAL, self.seconds)
            self.on = True
        return self

    def __exit__(self, *a):
        if self.on:
            import signal
            signal.setitimer(signal.ITIMER_REAL, 0)
            signal.signal(signal.SIGALRM, self.old)
        return False


def real_write(ent, obj):
    try:
        with time_limit():
            return ("ok", ent.write(obj))
    except ValueError:
        return ("overflow",)
    except Exception as e:  # noqa
        return ("exception:" + type(e).__name__, str(e)[:120])


def _is_protocol_rejection(e):
    """the parser refused the input with one of the library's alert-carrying protocol exceptions
    (illegal_parameter for a repeated extension type, ...): an orderly rejection"""
    try:
        from tlslite.errors import TLSProtocolException
    except Exception:  # noqa
        return False
    return isinstance(e, TLSProtocolException)


def dup_first_ext(f, v, t=0):
    """v with the first item of its first non-empty repetition of tagged items appended once more
    (the same extension type twice in one block); None when there is no such repetition"""
    k = f[0]
    if k == 'p':
        a = dup_first_ext(f[1], v[1], t)
        if a is not None:
            return V.P(a, v[2])
        b = dup_first_ext(f[2], v[2], t)
        return None if b is None else V.P(v[1], b)
    if k == 'L':
        return dup_first_ext(f[2], v, t)
    if k == 'O':
        if v[0] != 'S':
            return None
        x = dup_first_ext(f[1], v[1], t)
        return None if x is None else V.S(x)
    if k == 'M':
        if f[1][0] == 'T' and v[1]:
            return V.L(list(v[1]) + [v[1][0]])
        for i, x in enumerate(v[1]):
            y = dup_first_ext(f[1], x, t)
            if y is not None:
                return V.L(list(v[1][:i]) + [y] + list(v[1][i + 1:]))
        return None
    if k == 'T':
        x = dup_first_ext(f[2], v[2], v[1][1])
        return None if x is None else V.P(v[1], x)
    if k == 'C':
        return dup_first_ext(V.select(f, t), v, t)
    return None


def set_first_ext_list(f, v, make, t=0):
    """v with the items of its first repetition of tagged items replaced by make(item format)"""
    k = f[0]
    if k == 'p':
        a = set_first_ext_list(f[1], v[1], make, t)
        if a is not None:
            return V.P(a, v[2])
        b = set_first_ext_list(f[2], v[2], make, t)
        return None if b is None else V.P(v[1], b)
    if k == 'L':
        return set_first_ext_list(f[2], v, make, t)
    if k == 'O':
        if v[0] != 'S':
            return None
        x = set_first_ext_list(f[1], v[1], make, t)
        return None if x is None else V.S(x)
    if k == 'M':
        if f[1][0] == 'T':
            return V.L(make(f[1]))
        for i, x in enumerate(v[1]):
            y = set_first_ext_list(f[1], x, make, t)
            if y is not None:
                return V.L(list(v[1][:i]) + [y] + list(v[1][i + 1:]))
        return None
    if k == 'T':
        x = set_first_ext_list(f[2], v[2], make, v[1][1])
        return None if x is None else V.P(v[1], x)
    if k == 'C':
        return set_first_ext_list(V.select(f, t), v, make, t)
    return None


def real_parse(ent, data):
    try:
        with time_limit():
            obj, consumed = ent.parse(data)
    except SyntaxError:
        return ("decode_error",)
    except ent.reject_also:
        return ("decode_error",)
    except Exception as e:  # noqa
        if _is_protocol_rejection(e):
            return ("decode_error", type(e).__name__)
        return ("exception:" + type(e).__name__, str(e)[:120])
    try:
        val = ent.val(obj)
    except Exception as e:  # noqa
        return ("exception:val:" + type(e).__name__, str(e)[:120])
    return ("ok", val, consumed, obj)


class Run(object):
    def __init__(self, ctx):
        from .c15_real import Real, entries
        self.ctx = ctx
        self.real = Real(ctx.repo)
        self.ents = entries(self.real)
        self.lc = ctx.lean()
        self.gen = V.Gen(ctx.rng)
        self.trees = {}
        self.pending = []          # (ent, kind, data, real_result, flagged)
        self.info = {}             # non-framing exceptions etc. for the evidence
        self.explained = 0
        self.hangs = {}
        self.convicted = set()     # extension types whose own class was shown to violate the property in this run

    # ---- model access
    def ask_many(self, lines):
        if self.lc is None:
            return [None] * len(lines)
        out = []
        for i in range(0, len(lines), 4000):
            out += self.lc.batch(lines[i:i + 4000])
        return out

    def load_trees(self):
        names = sorted(self.ents)
        if self.lc is None:
            return
        rep = self.ask_many(["show " + n for n in names])
        for i, n in enumerate(names):
            if rep[i] == "bad-op" and self.ents[n].model_name != n:
                rep[i] = self.lc.ask("show " + self.ents[n].model_name)
        for n, r in zip(names, rep):
            if r == "bad-op":
                self.ctx.disagree("format-missing-in-model", n, r, "entry")
                continue
            txt, exact = r.rsplit(" ", 1)
            if txt != "-":
                self.trees[n] = V.parse_fmt(txt)
            self.ctx.compared()
            if txt == "-":
                continue                      # hand-written model (SSLv2 structures): no format tree
            if (exact == "true") != self.ents[n].exact:
                self.ctx.disagree("exact-flag", n, exact, self.ents[n].exact)

    def note(self, label, sample):
        d = self.info.setdefault(label, {"count": 0, "sample": sample})
        d["count"] += 1

    # ---- oracle on one accepted / rejected input
    def oracle(self, ent, kind, data, res, value=None):
        """independent checks of the property on the real result; returns True when it flagged"""
        try:
            return self._oracle(ent, kind, data, res, value)
        except Exception as e:  # noqa - a defect of this harness must not look like a verdict on the code
            self.ctx.disagree("harness-oracle", {"format": ent.name, "kind": kind, "bytes": bytes(data).hex()[:200]},
                              "oracle", "%s: %s" % (type(e).__name__, e))
            return False

    def _oracle(self, ent, kind, data, res, value=None):
        ctx = self.ctx
        obj0 = res[3] if res[0] == "ok" else None
        cls = ent.cls
        if ent.name.startswith("ext:") and obj0 is not None and type(obj0).__name__ != "TLSExtension":
            cls = type(obj0).__name__          # the class the dispatch selected is the one under test
        rep = {"format": ent.name, "class": cls, "kind": kind, "bytes": bytes(data).hex(), "real": res[0]}
        if value is not None:
            rep["value"] = V.render(value)
        flagged = False
        is_ext = ent.name.startswith("ext:") or ent.name.startswith("extdata:")

        def viol(sub, what):
            if not is_ext and obj0 is not None and self.embeds_convicted(obj0):
                # a container carrying an extension whose class is already reported on its own
                self.note("%s: %s attributed to an embedded extension class reported separately" % (ent.cls, sub), rep)
                return True
            if is_ext:
                self.convict(ent, obj0, data)
            ctx.violation("c15:%s:%s" % (cls, sub), "%s: %s (input kind %s, %d bytes: %s)"
                          % (cls, what, kind, len(data), bytes(data).hex()[:160]), dict(rep, defect=sub))
            return True

        if res[0].startswith("exception:"):
            if kind in FRAMING_KINDS or kind == "valid":
                flagged = viol("exception-" + res[0].split(":")[-1],
                               "parser raised %s (%s) instead of a decode error" % (res[0], res[1]))
            else:
                self.note("%s %s on %s-mutant" % (ent.cls, res[0], kind), rep)
            return flagged
        if res[0] == "decode_error":
            if kind == "valid":
                flagged = viol("rejects-own-serialisation", "parse(write(v)) is a decode error")
            return flagged
        _, val, consumed, obj = res
        sub_of = {"truncate": "truncated-input-accepted", "length": "length-mismatch-accepted",
                  "inner-trailing": "trailing-bytes-accepted", "outer-trailing": "trailing-bytes-accepted",
                  "byte": "noncanonical-accepted", "valid": "roundtrip-bytes", "oversize": "write-truncates"}
        if ent.exact and consumed != len(data):
            flagged = viol("trailing-bytes-accepted", "parser handed exactly the structure left %d bytes unread"
                           % (len(data) - consumed))
        if ent.hstype is not None and ent.hs_len and len(data) >= 3 and consumed != 3 + int.from_bytes(data[:3], "big"):
            flagged = viol("length-header-mismatch", "consumed %d bytes, handshake length says %d"
                           % (consumed, int.from_bytes(data[:3], "big")))
        if consumed > len(data):
            flagged = viol("read-past-end", "consumed %d of %d bytes" % (consumed, len(data)))
        if value is not None and ent.norm(val) != ent.norm(value):
            flagged = viol("roundtrip-value" if kind == "valid" else "write-truncates",
                           "parse(write(v)) != v: wrote %s, parsed %s" % (V.render(value)[:200], V.render(val)[:200]))
        # write(parse(x)) must be the consumed bytes
        wr = real_write(ent, obj)
        if wr[0] != "ok":
            if kind == "byte":
                # a value the parser accepts and write() refuses, reached by changing content only
                self.note("%s: accepted byte-mutant cannot be serialised again (%s)" % (cls, wr[0]), rep)
            else:
                flagged = viol("reserialise-" + wr[0].replace(":", "-"),
                               "accepted input cannot be serialised again: %s" % (wr,))
        elif wr[1] != bytes(data[:consumed]) and not (ent.lossy and kind != "valid"):
            if kind in ("valid", "oversize"):
                sub = sub_of[kind]
            elif len(wr[1]) < consumed:
                sub = "trailing-bytes-accepted"       # consumed bytes that are not part of the value
            elif len(wr[1]) > consumed:
                sub = "truncated-input-accepted"
            else:
                sub = "noncanonical-accepted"
            if kind == "byte" and len(wr[1]) == consumed:
                # same framing, different content: a value-level normalisation, outside C15
                self.note("%s re-serialises a byte-mutant differently (same length)" % ent.cls, rep)
            else:
                flagged = viol(sub, "write(parse(x)) != x: parser accepted bytes that are not the serialisation of "
                                    "what it parsed (re-serialised %s)" % wr[1].hex()[:120])
        return flagged

    def convict(self, ent, obj, data):
        if obj is not None and getattr(obj, "extType", None) is not None:
            self.convicted.add(obj.extType)
        if ent.name.startswith("extdata:"):
            cls = ent.name.split(":")[1]
            for tbl in self.real.tables.values():
                for t, c in tbl.items():
                    if c == cls:
                        self.convicted.add(t)
        elif len(data) >= 2:
            self.convicted.add(int.from_bytes(data[:2], "big"))
        self.gen.avoid_tags = set(self.convicted)

    def embeds_convicted(self, obj):
        if not self.convicted:
            return False
        def as_list(x):
            return list(x) if isinstance(x, (list, tuple)) else []
        exts = as_list(getattr(obj, "extensions", None))
        for e in as_list(getattr(obj, "certificate_list", None)) + as_list(getattr(obj, "_cert_chain", None)):
            exts += as_list(getattr(e, "extensions", None))
        return any(getattr(e, "extType", None) in self.convicted for e in exts)

    # ---- one (format, value) case
    def value_case(self, ent, kind, value):
        """kind: 'valid' (must round-trip) or 'oversize' (write should raise unless everything fits)"""
        ctx = self.ctx
        ctx.count("fmt:" + ent.name)
        ctx.count("valuekind:" + kind)
        vtxt = V.render(value)
        ctx.case(key=("v", ent.name, vtxt), sample={"format": ent.name, "kind": kind, "value": vtxt[:300]}
                 if ctx.evaluations % 499 == 0 else None)
        try:
            obj = ent.build(value)
        except Exception as e:  # noqa - the harness could not build the object: its own problem
            ctx.disagree("harness-build", {"format": ent.name, "value": vtxt[:300]}, "value", "%s: %s" % (type(e).__name__, e))
            return None
        wr = real_write(ent, obj)
        rep = {"format": ent.name, "class": ent.cls, "kind": kind, "value": vtxt}
        if wr[0].startswith("exception"):
            ctx.violation("c15:%s:write-%s" % (ent.cls, wr[0].replace(":", "-")),
                          "%s.write() raised %s on a %s value" % (ent.cls, wr, kind), dict(rep, defect="write-exception"))
        flagged = False
        if wr[0] == "ok":
            res = real_parse(ent, wr[1])
            flagged = self.oracle(ent, "valid" if kind == "valid" else "oversize", wr[1], res, value)
        elif kind == "valid" and wr[0] == "overflow":
            ctx.violation("c15:%s:write-rejects-wellformed" % ent.cls,
                          "%s.write() raised ValueError on a value whose fields all fit" % ent.cls,
                          dict(rep, defect="write-rejects"))
            flagged = True
        self.pending.append(("enc", ent, kind, value, wr, flagged))
        return wr[1] if wr[0] == "ok" else None

    def bytes_case(self, ent, kind, data):
        ctx = self.ctx
        if self.hangs.get(ent.name, 0) >= 3:
            ctx.count("skipped-after-hangs:" + ent.name)
            return
        ctx.count("mutant:" + kind)
        ctx.case(key=("m", ent.name, bytes(data)), sample=None)
        res = real_parse(ent, data)
        ctx.count("real:" + res[0].split(":")[0])
        if res[0] == "exception:Hang":
            self.hangs[ent.name] = self.hangs.get(ent.name, 0) + 1
            kind = kind if kind in FRAMING_KINDS else "length"     # not returning is never acceptable
        flagged = self.oracle(ent, kind, data, res)
        self.pending.append(("dec", ent, kind, bytes(data), res, flagged))

    # ---- compare the queued cases with the model
    def flush(self):
        pend, self.pending = self.pending, []
        if self.lc is None or not pend:
            return
        lines = []
        for p in pend:
            if p[0] == "enc":
                lines.append("enc %s %s" % (p[1].model_name, V.render(p[3])))
            else:
                lines.append("dec %s %s" % (p[1].model_name, hx(p[3])))
        out = self.ask_many(lines)
        ctx = self.ctx
        for p, m in zip(pend, out):
            ctx.compared()
            ent, kind, flagged = p[1], p[2], p[5]
            if p[0] == "enc":
                value, wr = p[3], p[4]
                if m.startswith("ok "):
                    mm = ("ok", unhx(m[3:]))
                else:
                    mm = ("overflow",) if (m == "shape" and kind == "oversize") else (m,)
                rr = wr[:2] if wr[0] == "ok" else (wr[0],)
                if mm != rr:
                    if flagged:
                        self.explained += 1
                    else:
                        ctx.disagree("encode:" + ent.name, {"format": ent.name, "value": V.render(value)[:400]},
                                     m[:200], (rr[0], rr[1].hex()[:200]) if rr[0] == "ok" else rr)
            else:
                data, res = p[3], p[4]
                if m.startswith("ok "):
                    _, vt, unread = m.split(" ")
                    mval = V.parse_val(vt)
                    mv = ("ok", ent.norm(mval), len(data) - int(unread))
                else:
                    mv = (m,)
                if res[0] == "ok":
                    rv = ("ok", ent.norm(res[1]), res[2])
                elif res[0] == "decode_error":
                    rv = ("decode_error",)
                else:
                    rv = (res[0],)
                if mv != rv:
                    if ent.stricter and mv[0] == "ok" and rv[0] == "decode_error":
                        continue
                    if rv[0].startswith("exception") and mv[0] == "decode_error":
                        continue       # both reject; the exception type is judged by the oracle
                    if flagged or (res[0] == "ok" and self.embeds_convicted(res[3])):
                        self.explained += 1
                    else:
                        if rv[0] == "ok" and mv[0] == "decode_error":
                            # DESIGN C15: the real parser accepting what decode_exact rejects is a violation
                            cls = ent.cls
                            ctx.violation("c15:%s:accepts-what-framing-rejects" % cls,
                                          "%s accepted %d bytes that the Lean model of its parser (framing, length checks, duplicate-extension rule) rejects: %s"
                                          % (cls, len(data), data.hex()[:160]),
                                          {"format": ent.name, "class": cls, "kind": kind, "bytes": data.hex(),
                                           "defect": "accepts-what-framing-rejects", "model": m[:100]})
                        ctx.disagree("decode:" + ent.name, {"format": ent.name, "kind": kind, "bytes": data.hex()[:400]},
                                     m[:300], (rv[0], V.render(rv[1])[:300], rv[2]) if rv[0] == "ok" else rv)

    def lens_of(self, ent, datas):
        if self.lc is None:
            return [[] for _ in datas]
        out = self.ask_many(["lens %s %s" % (ent.model_name, hx(d)) for d in datas])
        return [V.parse_lens(o) for o in out]


# ------------------------------------------------------------------ value generation per format

def values_for(run, ent, tree):
    """yield (kind, value)"""
    ctx = run.ctx
    g = run.gen
    rng = ctx.rng
    nrand = ctx.pick(4, 16)
    wf = lambda v: ent.wellformed(v, rng)
    if tree[0] == 'T':
        keys, dflt = V.case_keys(tree[2])
        tags = [k for k, f in keys if f[0] != 'X']
        if dflt[0] != 'X':
            tags.append(max(tags + [0]) + 1 if max(tags + [0]) + 1 < 256 ** tree[1] else 1)
        for t in tags:
            for mode in ("min", "one", "rand") + (("rand", "max") if ctx.thorough() else ()):
                yield "valid", wf(g.gen_tagged(tree, t, mode))
        if ent.name.startswith("ext:"):
            # extensions the library has no class for (kept as opaque TLSExtension): encrypt_then_mac,
            # extended_master_secret, early_data, post_handshake_auth - empty on the wire, and with a body
            for t in (22, 23, 42, 49):
                if t not in [k for k, _ in keys]:
                    yield "valid", V.P(V.N(t), V.B(b""))
                    yield "valid", V.P(V.N(t), V.B(g.rb(4)))
    else:
        for mode in ("min", "one", "max"):
            yield "valid", wf(g.gen(tree, mode))
    for _ in range(nrand):
        yield "valid", wf(g.gen(tree, "rand"))
    # extension blocks mixing several extensions the library has no class for (stored generically, with
    # different payloads) with ones it has classes for, in every order
    def mixed(tf):
        keys, dflt = V.case_keys(tf[2])
        known = [k for k, ff in keys if ff[0] != 'X' and k not in g.avoid_tags]
        unknown = [x for x in (42, 0x1a1a, 0xfafa, 0x1234, 49) if x not in [k for k, _ in keys]]
        items = [V.P(V.N(u), V.B(g.rb(i))) for i, u in enumerate(rng.sample(unknown, rng.randint(2, 4)))]
        items += [g.gen_tagged(tf, k, "rand") for k in rng.sample(known, min(len(known), rng.randint(0, 2)))]
        rng.shuffle(items)
        return items
    for _ in range(ctx.pick(3, 12)):
        base = wf(g.gen(tree, "one"))
        mv = set_first_ext_list(tree, base, mixed)
        if mv is None:
            break
        yield ("valid" if _all_fit(tree, mv) else "oversize"), mv
    # boundaries of every length field: body of exactly cap bytes (fits) and cap+1 (must raise)
    paths = V.lenpref_paths(tree)
    if not ctx.thorough() and len(paths) > 4:
        paths = [paths[0]] + rng.sample(paths[1:], 3)
    for path, ll in paths:
        cap = 256 ** ll - 1
        if ll >= 3 and not (ctx.thorough() and ent.name in ("certificateStatus", "finished12", "ckeRsaSsl3")):
            continue
        for target, kind in ((cap, "valid"), (cap + 1, "oversize"), (cap - 1, "valid")):
            if ll == 2 and target == cap - 1 and not ctx.thorough():
                continue
            v = V.with_sized_node(g, tree, path, target)
            if v is None:
                continue
            v = wf(v)
            # whether it really fits is decided by the enclosing fields too: classify by sizes
            yield ("valid" if _all_fit(tree, v) else "oversize"), v
    # an integer one above its field
    for k in range(_count_uints(tree)):
        v = _bump_uint(tree, g.gen(tree, "min"), k, g)
        if v is not None:
            v = wf(v)
            yield ("valid" if _all_fit(tree, v) else "oversize"), v


def _all_fit(f, v, t=0):
    k = f[0]
    if k == 'u':
        return v[1] < 256 ** f[1]
    if k == 'p':
        return _all_fit(f[1], v[1], t) and _all_fit(f[2], v[2], t)
    if k == 'L':
        return _all_fit(f[2], v, t) and V.enc_len(f[2], v, t) < 256 ** f[1]
    if k == 'M':
        return all(_all_fit(f[1], x, t) for x in v[1])
    if k == 'O':
        return v[0] == 'N' or _all_fit(f[1], v[1], t)
    if k == 'T':
        return v[1][1] < 256 ** f[1] and _all_fit(f[2], v[2], v[1][1])
    if k == 'C':
        return _all_fit(V.select(f, t), v, t)
    return True


def _count_uints(f):
    k = f[0]
    if k == 'u':
        return 1
    if k == 'p':
        return _count_uints(f[1]) + _count_uints(f[2])
    if k == 'L':
        return _count_uints(f[2])
    if k == 'T':
        return 1
    return 0


def _bump_uint(f, v, idx, g=None):
    """v with the idx-th directly reachable integer field set to 256^n (does not fit)"""
    box = [idx]

    def go(f, v):
        k = f[0]
        if k == 'u':
            if box[0] == 0:
                box[0] = -1
                return V.N(256 ** f[1])
            box[0] -= 1
            return v
        if k == 'p':
            a = go(f[1], v[1])
            b = go(f[2], v[2])
            return V.P(a, b)
        if k == 'L':
            return go(f[2], v)
        if k == 'T':
            if box[0] == 0:
                big = 256 ** f[1]
                br = V.select(f[2], big)
                if br[0] == 'X' or g is None:
                    return v
                box[0] = -1
                return V.P(V.N(big), g.gen(f[2], "min", big))
            box[0] -= 1
            return v
        return v
    out = go(f, v)
    return out if box[0] == -1 else None


# ------------------------------------------------------------------ Writer / Parser primitives

def writer_prims(run):
    from tlslite.utils.codec import Writer
    ctx = run.ctx
    rng = ctx.rng
    cases = []

    def do(line, fn, expect_ok_bytes):
        """expect_ok_bytes: independent expectation: bytes when everything fits, None when it must raise"""
        w = Writer()
        w.bytes = bytearray(b"\xaa")
        try:
            fn(w)
            res = "ok " + hx(bytes(w.bytes))
            got = bytes(w.bytes)
        except ValueError as e:
            res = "tuple_mismatch" if "Tuples" in str(e) else "overflow"
            got = None
        except Exception as e:  # noqa
            res = "exception:" + type(e).__name__
            got = None
        ctx.case(key=("w", line), sample=None)
        ctx.count("writer-prim")
        rep = {"stage": "writer", "line": line, "real": res}
        if expect_ok_bytes is None and got is not None:
            ctx.violation("c15:Writer:silent-truncation", "Writer accepted a value that does not fit: %s -> %s" % (line, res),
                          dict(rep, defect="silent-truncation"))
        elif expect_ok_bytes is not None and expect_ok_bytes != "any" and got != b"\xaa" + expect_ok_bytes:
            ctx.violation("c15:Writer:wrong-bytes", "Writer produced %s for %s" % (res, line), dict(rep, defect="wrong-bytes"))
        cases.append((line, res))

    for n in (1, 2, 3, 4, 5, 8):
        top = 256 ** n
        for x in sorted(set([0, 1, 255, 256, 65535, 65536, top - 1, top, top + 1, top * 256 + 5, rng.randrange(top),
                             rng.randrange(top * 300)])):
            exp = x.to_bytes(n, "big") if x < top else None
            do("w add aa %d %d" % (x, n), lambda w, x=x, n=n: w.add(x, n), exp)
            nm = {1: "one", 2: "two", 3: "three", 4: "four"}.get(n)
            if nm:
                meth = {1: "addOne", 2: "addTwo", 3: "addThree", 4: "addFour"}[n]
                do("w %s aa %d" % (nm, x), lambda w, x=x, meth=meth: getattr(w, meth)(x), exp)
    for n in (1, 2, 3):
        for ll in (1, 2, 3):
            top = 256 ** n
            for seq in ([], [0], [top - 1, 0, 1], [top], [1, top + 5, 2], [rng.randrange(top) for _ in range(rng.randint(1, 6))],
                        [7] * (255 // n), [7] * (255 // n + 1), [7] * (256 // n + 1)):
                fits = all(x < top for x in seq)
                body = b"".join(x.to_bytes(n, "big") for x in seq) if fits else None
                xs = ",".join(map(str, seq)) if seq else "-"
                do("w fixseq aa %d %s" % (n, xs), lambda w, seq=seq, n=n: w.addFixSeq(seq, n), body)
                lf = len(seq) * n < 256 ** ll
                do("w varseq aa %d %d %s" % (n, ll, xs), lambda w, seq=seq, n=n, ll=ll: w.addVarSeq(seq, n, ll),
                   (len(seq) * n).to_bytes(ll, "big") + body if (fits and lf) else None)
    for n in (1, 2):
        for ll in (1, 2):
            top = 256 ** n
            for seq in ([], [(1, 2)], [(1, 2), (3, 4), (top - 1, 0)], [(1, 2), (3,)], [(1, top)], [(1, 2)] * 64, [(1, 2)] * 128,
                        [(1, 2, 3), (4, 5, 6)]):
                ts = ";".join(",".join(map(str, t)) for t in seq) if seq else "-"
                same = len(set(len(t) for t in seq)) <= 1
                fits = all(x < top for t in seq for x in t)
                total = sum(len(t) for t in seq) * n
                ok = same and fits and total < 256 ** ll
                exp = (total.to_bytes(ll, "big") + b"".join(x.to_bytes(n, "big") for t in seq for x in t)) if ok else None
                do("w vartuple aa %d %d %s" % (n, ll, ts), lambda w, seq=seq, n=n, ll=ll: w.addVarTupleSeq(seq, n, ll), exp)
    for ll in (1, 2, 3):
        for ln in (0, 1, 254, 255, 256, 257, 65535, 65536) + ((16777215, 16777216) if ctx.thorough() else ()):
            if ln > 70000 and ll < 3:
                continue
            d = bytes([ln & 0xff]) * ln
            exp = ln.to_bytes(ll, "big") + d if ln < 256 ** ll else None
            do("w varbytes aa %d %s" % (ll, hx(d)), lambda w, d=d, ll=ll: w.add_var_bytes(bytearray(d), ll), exp)
    if run.lc is not None:
        out = run.ask_many([c[0] for c in cases])
        for (line, res), m in zip(cases, out):
            ctx.compared()
            if m != res:
                ctx.disagree("writer-prims", line[:200], m[:200], res[:200])
        # the same calls through the code regenerated from codec.py (Tls.Codec.Gen), where every
        # ValueError is just `valueError`; plus negative ints, which only the regenerated code models
        gen_cases = [("g" + line, res if res.startswith("ok ") else "valueError") for line, res in cases]
        for n in (1, 2, 3):
            for x in (-1, -256, -(256 ** n)):
                for line, fn in (("gw add aa %d %d" % (x, n), lambda w, x=x, n=n: w.add(x, n)),
                                 ("gw one aa %d" % x, lambda w, x=x: w.addOne(x)),
                                 ("gw two aa %d" % x, lambda w, x=x: w.addTwo(x)),
                                 ("gw three aa %d" % x, lambda w, x=x: w.addThree(x)),
                                 ("gw four aa %d" % x, lambda w, x=x: w.addFour(x)),
                                 ("gw fixseq aa %d 1,%d" % (n, x), lambda w, x=x, n=n: w.addFixSeq([1, x], n)),
                                 ("gw varseq aa %d 1 %d" % (n, x), lambda w, x=x, n=n: w.addVarSeq([x], n, 1))):
                    w = Writer()
                    w.bytes = bytearray(b"\xaa")
                    try:
                        fn(w)
                        res = "ok " + hx(bytes(w.bytes))
                        ctx.violation("c15:Writer:negative-accepted", "Writer accepted a negative value: %s -> %s" % (line, res),
                                      {"stage": "writer", "line": line, "defect": "negative-accepted"})
                    except ValueError:
                        res = "valueError"
                    except Exception as e:  # noqa
                        res = "exception:" + type(e).__name__
                    ctx.case(key=("gw", line), sample=None)
                    gen_cases.append((line, res))
        out = run.ask_many([c[0] for c in gen_cases])
        for (line, res), m in zip(gen_cases, out):
            ctx.compared()
            ctx.count("gen-writer-prim")
            if m != res:
                ctx.disagree("gen-writer-prims", line[:200], m[:200], res[:200])


PERR = {"Read past end of buffer": "err:readPast", "Encoded length not a multiple of element length": "err:notMultiple",
        "Under- or over-flow while reading buffer": "err:underOver"}


def parser_prims(run):
    from tlslite.utils.codec import Parser, DecodeError
    ctx = run.ctx
    rng = ctx.rng
    lines, reals = [], []

    def run_script(data, ops):
        p = Parser(bytearray(data))
        out = []
        for op in ops:
            a = op.split(":")
            try:
                k = a[0]
                if k == "get":
                    out.append("n%d" % p.get(int(a[1])))
                elif k == "fix":
                    out.append("b" + bytes(p.getFixBytes(int(a[1]))).hex())
                elif k == "var":
                    out.append("b" + bytes(p.getVarBytes(int(a[1]))).hex())
                elif k == "skip":
                    p.skip_bytes(int(a[1]))
                    out.append("ok")
                elif k == "fixlist":
                    l = p.getFixList(int(a[1]), int(a[2]))
                    out.append("l" + (",".join(map(str, l)) if l else "-"))
                elif k == "varlist":
                    l = p.getVarList(int(a[1]), int(a[2]))
                    out.append("l" + (",".join(map(str, l)) if l else "-"))
                elif k == "vartuple":
                    l = p.getVarTupleList(int(a[1]), int(a[2]), int(a[3]))
                    out.append("t" + (";".join(",".join(map(str, t)) for t in l) if l else "-"))
                elif k == "start":
                    p.startLengthCheck(int(a[1]))
                    out.append("ok")
                elif k == "set":
                    p.setLengthCheck(int(a[1]))
                    out.append("ok")
                elif k == "stop":
                    p.stopLengthCheck()
                    out.append("ok")
                elif k == "at":
                    out.append("true" if p.atLengthCheck() else "false")
                elif k == "rem":
                    out.append("r%d" % p.getRemainingLength())
                elif k == "idx":
                    out.append("i%d" % p.index)
            except DecodeError as e:
                out.append(PERR.get(str(e), "err:" + str(e)))
                break
            except Exception as e:  # noqa
                out.append("exception:" + type(e).__name__)
                break
            finally:
                if p.index > len(p.bytes) or p.index < 0:
                    ctx.violation("c15:Parser:read-past-end", "Parser.index %d outside buffer of %d bytes after %s"
                                  % (p.index, len(p.bytes), op),
                                  {"stage": "parser", "data": bytes(data).hex(), "ops": ops, "defect": "read-past-end"})
        return "|".join(out)

    pool = ["get:1", "get:2", "get:3", "get:4", "fix:0", "fix:1", "fix:3", "fix:7", "var:1", "var:2", "var:3", "skip:1", "skip:4",
            "fixlist:1:2", "fixlist:2:3", "fixlist:3:1", "varlist:1:1", "varlist:2:1", "varlist:2:2", "varlist:3:2",
            "vartuple:1:2:1", "vartuple:1:2:2", "vartuple:2:2:2", "start:1", "start:2", "start:3", "set:0", "set:2", "set:5",
            "stop", "at", "rem", "idx"]
    scripts = []
    # systematic: every op on every buffer length around its need
    for op in pool:
        for ln in range(0, 9):
            scripts.append((bytes(rng.randrange(0, 4) for _ in range(ln)), [op, "idx", "rem"]))
    # length check protocols
    for _ in range(ctx.pick(300, 3000)):
        ln = rng.randrange(0, 14)
        data = bytes(rng.choice([0, 0, 1, 2, 3, rng.randrange(256)]) for _ in range(ln))
        ops = [rng.choice(pool) for _ in range(rng.randrange(1, 9))]
        scripts.append((data, ops))
    for data, ops in scripts:
        line = "p %s %s" % (hx(data), " ".join(ops))
        r = run_script(data, ops)
        ctx.case(key=("p", line), sample=None)
        ctx.count("parser-script")
        if "exception:" in r:
            ctx.violation("c15:Parser:" + r.split("|")[-1].replace(":", "-"), "Parser raised %s on %s" % (r, line),
                          {"stage": "parser", "data": bytes(data).hex(), "ops": ops, "defect": "exception"})
        lines.append(line)
        reals.append(r)
    if run.lc is not None:
        out = run.ask_many(lines)
        for line, r, m in zip(lines, reals, out):
            ctx.compared()
            if m != r:
                ctx.disagree("parser-prims", line, m, r)
        # the same scripts through the code regenerated from codec.py (Tls.Codec.Gen)
        gmap = {"err:readPast": "err:decodeError", "err:notMultiple": "err:decodeError", "err:underOver": "err:decodeError",
                "exception:ZeroDivisionError": "err:zeroDivision"}
        out = run.ask_many(["g" + l for l in lines])
        for line, r, m in zip(lines, reals, out):
            ctx.compared()
            ctx.count("gen-parser-script")
            want = "|".join(gmap.get(x, x) for x in r.split("|"))
            if m != want:
                ctx.disagree("gen-parser-prims", "g" + line, m, want)


# ------------------------------------------------------------------ glue and unmodelled classes (oracle only)

def glue_and_legacy(run):
    """getExtension, SSLv2 messages, RecordHeader2, CompressedCertificate: round trip + framing oracle only"""
    from tlslite import messages as M
    from tlslite.utils.codec import Parser
    from tlslite.errors import TLSInternalError
    from tlslite.constants import CertificateType
    from tlslite.x509certchain import X509CertChain
    from .c15_real import mk_x509
    ctx = run.ctx
    rng = ctx.rng
    g = run.gen

    def viol(cls, sub, what, rep):
        ctx.violation("c15:%s:%s" % (cls, sub), "%s: %s" % (cls, what), dict(rep, **{"class": cls, "defect": sub, "stage": "legacy"}))

    def check(cls, mk, parse, fields, data_kind="valid"):
        """mk() -> object; parse(bytes) -> (object, consumed)"""
        o = mk()
        b = bytes(o.write())
        ctx.case(key=("legacy", cls, b), sample=None)
        ctx.count("legacy:" + cls)
        rep = {"legacy": cls, "bytes": b.hex()}
        try:
            o2, consumed = parse(b)
        except Exception as e:  # noqa
            viol(cls, "rejects-own-serialisation", "parse(write(v)) raised %s: %s" % (type(e).__name__, e), rep)
            return
        for f in fields:
            a, c = getattr(o, f), getattr(o2, f)
            if isinstance(a, (bytes, bytearray)):
                a, c = bytes(a), bytes(c)
            if (list(a) if isinstance(a, (list, tuple)) else a) != (list(c) if isinstance(c, (list, tuple)) else c):
                viol(cls, "roundtrip-value", "field %s: wrote %r parsed %r" % (f, a, c), rep)
        if bytes(o2.write()) != b or consumed != len(b):
            viol(cls, "roundtrip-bytes", "write(parse(x)) != x or %d of %d bytes consumed" % (consumed, len(b)), rep)
        for cut in range(len(b)):
            t = b[:cut]
            try:
                o3, c3 = parse(t)
            except SyntaxError:
                continue
            except Exception as e:  # noqa
                viol(cls, "exception-" + type(e).__name__, "truncated input raised %s" % type(e).__name__, dict(rep, bytes=t.hex()))
                continue
            try:
                same = bytes(o3.write()) == t
            except Exception:  # noqa
                same = False
            if not same:
                viol(cls, "truncated-input-accepted", "truncation to %d bytes accepted" % cut, dict(rep, bytes=t.hex()))

    def rb(n):
        return bytearray(g.rb(n))

    for _ in range(ctx.pick(6, 40)):
        ns = rng.randrange(0, 5)
        sid = rb(rng.choice([0, 16, 32]))
        ch = rb(rng.choice([16, 32]))

        def mk_ch2():
            o = M.ClientHello(ssl2=True)
            o.create((rng.choice([2, 3]), rng.randrange(4)), ch, sid, [rng.randrange(1 << 24) for _ in range(ns)])
            return o
        st = rng.getstate()

        def parse_ch2(b):
            p = Parser(bytearray(b))
            p.get(1)
            o = M.ClientHello(ssl2=True).parse(p)
            return o, p.index
        rng.setstate(st)
        o = mk_ch2()
        # random shorter than 32 is left-padded by the parser: only 32-byte challenges are canonical
        if len(ch) == 32:
            check("ClientHello(ssl2)", lambda: o, parse_ch2, ["client_version", "cipher_suites", "session_id", "random"])

        sh2 = M.ServerHello2().create(rng.randrange(2), rng.randrange(256), (rng.randrange(4), rng.randrange(4)),
                                      rb(rng.randrange(0, 40)), [rng.randrange(1 << 24) for _ in range(ns)], rb(rng.choice([0, 16])))

        def parse_sh2(b):
            p = Parser(bytearray(b))
            p.get(1)
            return M.ServerHello2().parse(p), p.index
        check("ServerHello2", lambda: sh2, parse_sh2,
              ["session_id_hit", "certificate_type", "server_version", "certificate", "ciphers", "session_id"])
        cmk = M.ClientMasterKey().create(rng.randrange(1 << 24), rb(rng.randrange(0, 9)), rb(rng.randrange(0, 40)), rb(rng.choice([0, 8])))

        def parse_cmk(b):
            p = Parser(bytearray(b))
            p.get(1)
            return M.ClientMasterKey().parse(p), p.index
        check("ClientMasterKey", lambda: cmk, parse_cmk, ["cipher", "clear_key", "encrypted_key", "key_argument"])
        for ln, pad, esc in ((rng.randrange(0x8000), 0, False), (rng.randrange(0x4000), rng.randrange(1, 256), False),
                             (rng.randrange(0x4000), 0, True), (0x7fff, 0, False), (0x3fff, 255, True)):
            rh = M.RecordHeader2().create(ln, pad, esc)

            def parse_rh2(b):
                p = Parser(bytearray(b))
                return M.RecordHeader2().parse(p), p.index
            check("RecordHeader2", lambda: rh, parse_rh2, ["length", "padding", "securityEscape"])
    # RecordHeader2 must refuse lengths that do not fit 15 / 14 bits
    for ln, pad in ((0x8000, 0), (0x4000, 1), (0x10000, 0)):
        try:
            b = bytes(M.RecordHeader2().create(ln, pad).write())
            viol("RecordHeader2", "write-truncates", "length %d padding %d serialised as %s" % (ln, pad, b.hex()),
                 {"length": ln, "padding": pad})
        except ValueError:
            pass
        ctx.case(key=("rh2", ln, pad), sample=None)

    # CompressedCertificate (zlib): round trip of real objects and framing mutants, oracle only
    for n in range(0, ctx.pick(3, 6)):
        certs = [mk_x509(bytes([0x30, 0x82]) + g.rb(rng.randrange(1, 300))) for _ in range(n)]
        cc = M.CompressedCertificate(CertificateType.x509).create(1, [M.CertificateEntry(CertificateType.x509).create(c, [])
                                                                      for c in certs], rb(rng.randrange(0, 4)))
        b = bytes(cc.write())

        def parse_cc(x):
            p = Parser(bytearray(x))
            p.get(1)
            o = M.CompressedCertificate(CertificateType.x509).parse(p)
            return o, p.index
        check("CompressedCertificate", lambda: cc, parse_cc, ["compression_algo", "certificate_request_context"])
        if run.lc is not None:
            m = run.lc.ask("dec compressedCertificate " + hx(b[1:]))
            ctx.compared()
            want = "ok (n%d,(n%d,b%s)) 0" % (cc.compression_algo, cc._uncompressed_msg_len, bytes(cc._compressed_msg).hex())
            if m != want:
                ctx.disagree("decode:compressedCertificate", b.hex()[:200], m[:200], want[:200])

    # HelloMessage.getExtension on parsed hellos
    ent = run.ents["clientHello"]
    tree = run.trees.get("clientHello")
    if tree is not None:
        for _ in range(ctx.pick(20, 200)):
            v = ent.wellformed(g.gen(tree, "rand"), rng)
            wr = real_write(ent, ent.build(v))
            if wr[0] != "ok":
                continue
            res = real_parse(ent, wr[1])
            if res[0] != "ok":
                continue
            o = res[3]
            types = [e.extType for e in (o.extensions or [])]
            for t in set(types + [rng.randrange(70000)]):
                ctx.case(key=("getext", wr[1], t), sample=None)
                ctx.count("getExtension")
                try:
                    e = o.getExtension(t)
                    got = "none" if e is None else "one"
                except TLSInternalError:
                    got = "dup"
                want = {0: "none", 1: "one"}.get(types.count(t), "dup")
                if got != want or (got == "one" and e is not [x for x in o.extensions if x.extType == t][0]):
                    viol("HelloMessage", "getExtension", "getExtension(%d) gave %s, extension list has %d of that type"
                         % (t, got, types.count(t)), {"bytes": wr[1].hex(), "type": t})


def create_streams(r):
    """objects built through the public create() of their class over all combinations of the optional
    arguments: parse(write(create(fields))) must give every field back, and (ticket payload) the
    layout chosen by create() must be the one the model's rule names"""
    import itertools
    from tlslite import messages as M
    from tlslite import extensions as E
    from tlslite.constants import CertificateType, ExtensionType
    from tlslite.x509certchain import X509CertChain
    from tlslite.utils.codec import Parser
    from .c15_real import mk_x509
    ctx = r.ctx
    rng = ctx.rng
    g = r.gen

    def viol(cls, sub, what, rep):
        ctx.violation("c15:%s:%s" % (cls, sub), "%s: %s" % (cls, what),
                      dict(rep, **{"class": cls, "defect": sub, "stage": "create"}))

    def same(a, b):
        if isinstance(a, (bytes, bytearray)) or isinstance(b, (bytes, bytearray)):
            return a is not None and b is not None and bytes(a) == bytes(b)
        if isinstance(a, (list, tuple)) and isinstance(b, (list, tuple)):
            return len(a) == len(b) and all(same(x, y) for x, y in zip(a, b))
        return a == b

    def check(cls, key, obj, parse, expect, rep):
        """expect: {attribute or callable-name: value}; parse(bytes) -> object"""
        ctx.case(key=("create", cls, key), sample=None)
        ctx.count("create:" + cls)
        try:
            with time_limit():
                b = bytes(obj.write())
                o2 = parse(b)
        except Exception as e:  # noqa
            viol(cls, "create-roundtrip-" + type(e).__name__, "parse(write(create(%s))) raised %s: %s" % (key, type(e).__name__, e), rep)
            return None, None
        for name, want in expect.items():
            got = name(o2) if callable(name) else getattr(o2, name)
            label = getattr(name, "__name__", name)
            if not same(got, want):
                viol(cls, "create-roundtrip-value", "created with %s, field %s written/parsed as %r instead of %r"
                     % (key, label, got if not isinstance(got, (bytes, bytearray)) else bytes(got), want if not isinstance(want, (bytes, bytearray)) else bytes(want)),
                     dict(rep, bytes=b.hex(), field=label))
        try:
            if bytes(o2.write()) != b:
                viol(cls, "create-roundtrip-bytes", "write(parse(write(create(%s)))) differs" % key, dict(rep, bytes=b.hex()))
        except Exception as e:  # noqa
            viol(cls, "create-roundtrip-" + type(e).__name__, "re-serialising raised %s" % type(e).__name__, dict(rep, bytes=b.hex()))
        return b, o2

    # ---- SessionTicketPayload.create over every combination of the optional fields
    names = [None, bytearray(), bytearray(b"example.com"), bytearray(g.rb(255)), bytearray(g.rb(65535))]
    chains = [None, 1, 2]
    nonces = [bytearray(), bytearray(b"\x01"), bytearray(g.rb(255))]
    times = [0, 1, 2 ** 32, 2 ** 64 - 1]
    secrets = [bytearray(g.rb(48)), bytearray(), bytearray(g.rb(65535))]
    lines, metas = [], []
    for name, nchain, etm, ems in itertools.product(names, chains, (False, True), (False, True)):
        extra = [(nonces[0], times[1], secrets[0])] + [(rng.choice(nonces), rng.choice(times), rng.choice(secrets))
                                                       for _ in range(ctx.pick(1, 4))]
        if name is not None and len(name) == 11 and nchain is None and not etm and not ems:
            extra = [(n, t, secrets[0]) for n in nonces for t in times] + [(nonces[0], 1, s_) for s_ in secrets]
        for nonce, ctime, secret in extra:
            ders = [bytes([0x30, 0x82]) + g.rb(rng.randrange(1, 200)) for _ in range(nchain or 0)]
            chain = X509CertChain([mk_x509(d) for d in ders]) if nchain else None
            pv = (3, rng.choice([1, 3, 4]))
            suite = rng.choice([0x2f, 0x1301, 0xffff])
            kw = dict(nonce=nonce, client_cert_chain=chain, encrypt_then_mac=etm, extended_master_secret=ems)
            if name is not None or rng.random() < 0.5:
                kw["server_name"] = name
            key = "server_name=%s chain=%s etm=%s ems=%s nonce=%d time=%d secret=%d" % (
                "None" if name is None else len(name), nchain, etm, ems, len(nonce), ctime, len(secret))
            rep = {"ticket": {"server_name": None if name is None else bytes(name).hex(), "chain": [d.hex() for d in ders],
                              "etm": etm, "ems": ems, "nonce": bytes(nonce).hex(), "creation_time": ctime,
                              "master_secret": bytes(secret).hex(), "protocol_version": list(pv), "cipher_suite": suite,
                              "pass_server_name": "server_name" in kw}}
            try:
                obj = M.SessionTicketPayload().create(secret, pv, suite, ctime, **kw)
            except Exception as e:  # noqa
                viol("SessionTicketPayload", "create-" + type(e).__name__, "create(%s) raised %s" % (key, e), rep)
                continue
            expect = {"master_secret": secret, "protocol_version": pv, "cipher_suite": suite, "creation_time": ctime,
                      "nonce": nonce, "encrypt_then_mac": etm, "extended_master_secret": ems,
                      "server_name": name if name else bytearray()}

            def chain_of(o, ders=ders):
                c = o.client_cert_chain
                return [] if c is None else [bytes(x.writeBytes()) for x in c.x509List]
            chain_of.__name__ = "client_cert_chain"
            expect[chain_of] = ders
            b, o2 = check("SessionTicketPayload", key, obj, lambda b: M.SessionTicketPayload().parse(Parser(bytearray(b))), expect, rep)
            # the layout create() picked vs the model's rule, and the bytes vs the model's encoding of that layout
            lines.append("ticketver %d %d %d %d" % (1 if nchain else 0, etm, ems, 1 if name else 0))
            metas.append((key, rep, obj, b))
    if r.lc is not None:
        out = r.ask_many(lines)
        ent = r.ents["sessionTicketPayload"]
        encs = []
        for (key, rep, obj, b), m in zip(metas, out):
            ctx.compared()
            if str(obj.version) != m:
                ctx.disagree("ticket-layout", key, m, obj.version)
                viol("SessionTicketPayload", "create-layout", "create(%s) chose payload version %d, the fields need version %s"
                     % (key, obj.version, m), rep)
            if b is not None:
                encs.append("enc sessionTicketPayload " + V.render(ent.val(obj)))
        for ((key, rep, obj, b), m) in zip([x for x in metas if x[3] is not None], r.ask_many(encs)):
            ctx.compared()
            if m != "ok " + hx(b):
                ctx.disagree("encode:sessionTicketPayload(create)", key, m[:120], b.hex()[:120])

    # ---- ClientHello.create over its optional arguments (each becomes an extension)
    def ch_parse(b):
        p = Parser(bytearray(b))
        p.get(1)
        return M.ClientHello().parse(p)
    for ct, srp, tack, npn, sni, exts in itertools.product((None, [0, 1]), (None, bytearray(b"alice")), (False, True),
                                                           (None, False, True), (None, "example.com"), (None, [])):
        key = "certificate_types=%s srp=%s tack=%s npn=%s sni=%s extensions=%s" % (ct, srp is not None, tack, npn, sni, exts)
        rnd, sid = bytearray(g.rb(32)), bytearray(g.rb(rng.choice([0, 32])))
        suites = [rng.randrange(65536) for _ in range(rng.randrange(1, 5))]
        rep = {"clientHello": key}
        try:
            obj = M.ClientHello().create((3, 3), rnd, sid, suites, certificate_types=ct, srpUsername=srp, tack=tack,
                                         supports_npn=npn, serverName=sni, extensions=None if exts is None else list(exts))
        except Exception as e:  # noqa
            viol("ClientHello", "create-" + type(e).__name__, "create(%s) raised %s" % (key, e), rep)
            continue
        expect = {"client_version": (3, 3), "random": rnd, "session_id": sid, "cipher_suites": suites,
                  "compression_methods": [0], "tack": bool(tack), "supports_npn": bool(npn),
                  "server_name": bytearray(sni.encode()) if sni else bytearray(0), "srp_username": srp,
                  "certificate_types": ct if ct is not None else [CertificateType.x509]}
        check("ClientHello", key, obj, ch_parse, expect, rep)

    # ---- ServerHello.create
    def sh_parse(b):
        p = Parser(bytearray(b))
        p.get(1)
        return M.ServerHello().parse(p)
    for ct, npa, exts in itertools.product((None, 0, 1), (None, [], [bytearray(b"http/1.1"), bytearray(b"spdy/3")]), (None, [])):
        key = "certificate_type=%s next_protos_advertised=%s extensions=%s" % (ct, npa, exts)
        rnd, sid = bytearray(g.rb(32)), bytearray(g.rb(rng.choice([0, 32])))
        try:
            obj = M.ServerHello().create((3, 3), rnd, sid, 0x2f, certificate_type=ct, next_protos_advertised=npa,
                                         extensions=None if exts is None else list(exts))
        except Exception as e:  # noqa
            viol("ServerHello", "create-" + type(e).__name__, "create(%s) raised %s" % (key, e), {"serverHello": key})
            continue
        expect = {"server_version": (3, 3), "random": rnd, "session_id": sid, "cipher_suite": 0x2f, "compression_method": 0}
        if obj.extensions is not None:        # without an extension block nothing optional can be carried
            expect["certificate_type"] = ct if ct is not None else CertificateType.x509
            expect["next_protos_advertised"] = npa
        check("ServerHello", key, obj, sh_parse, expect, {"serverHello": key})

    # ---- smaller create() signatures with optional arguments
    for hn, hns, sns in itertools.product((None, bytearray(b"a.example")), (None, [], [bytearray(b"b.example"), bytearray(b"c")]),
                                          (None, [], [E.SNIExtension.ServerName(1, bytearray(b"x")), E.SNIExtension.ServerName(0, bytearray(b"d"))])):
        obj = E.SNIExtension().create(hostname=hn, hostNames=hns, serverNames=sns)
        want = None if (hn is None and hns is None and sns is None) else \
            ([(0, hn)] if hn else []) + [(0, x) for x in (hns or [])] + [(s_.name_type, s_.name) for s_ in (sns or [])]
        f = lambda o: None if o.serverNames is None else [(s_.name_type, s_.name) for s_ in o.serverNames]
        f.__name__ = "serverNames"
        check("SNIExtension", "hostname=%s hostNames=%s serverNames=%s" % (hn, hns, sns), obj,
              lambda b: E.TLSExtension().parse(Parser(bytearray(b))), {f: want}, {"sni": [str(hn), str(hns), str(sns)]})
    for ids, ex in itertools.product(([], [bytearray(b"\x01\x02")], [bytearray(), bytearray(g.rb(300))]), (b"", g.rb(5))):
        obj = E.StatusRequestExtension().create(responder_id_list=ids, request_extensions=ex)
        check("StatusRequestExtension", "ids=%d ext=%d" % (len(ids), len(ex)), obj,
              lambda b: E.TLSExtension().parse(Parser(bytearray(b))),
              {"status_type": 1, "responder_id_list": ids, "request_extensions": ex}, {"status_request": [len(ids), len(ex)]})
    for size in (0, 1, 255, 65535):
        check("PaddingExtension", "size=%d" % size, E.PaddingExtension().create(size),
              lambda b: E.TLSExtension().parse(Parser(bytearray(b))), {"paddingData": bytes(size)}, {"padding": size})
    for mt, pl, padlen in itertools.product((1, 2), (b"", g.rb(16), g.rb(300)), (0, 16, 255)):
        f = lambda o: len(o.padding)
        f.__name__ = "len(padding)"
        check("Heartbeat", "type=%d payload=%d padding=%d" % (mt, len(pl), padlen), M.Heartbeat().create(mt, bytearray(pl), padlen),
              lambda b: M.Heartbeat().parse(Parser(bytearray(b))), {"message_type": mt, "payload": pl, f: padlen}, {"heartbeat": [mt, len(pl), padlen]})
    for types, cas, sig, ver in itertools.product(([], [1, 64]), ([], [bytearray(g.rb(20)), bytearray()]), ([], [(4, 1), (8, 4)]), ((3, 1), (3, 3))):
        def cr_parse(b, ver=ver):
            p = Parser(bytearray(b))
            p.get(1)
            return M.CertificateRequest(ver).parse(p)
        expect = {"certificate_types": types, "certificate_authorities": cas}
        if ver == (3, 3):
            expect["supported_signature_algs"] = sig
        check("CertificateRequest%s" % (ver,), "types=%s cas=%d sig=%s" % (types, len(cas), sig),
              M.CertificateRequest(ver).create(types, cas, sig), cr_parse, expect, {"certificateRequest": [types, len(cas), sig, list(ver)]})


    # ---- ServerKeyExchange.createDH / createSRP / createECDH (integers, lengths chosen by write())
    suites = r.real.suites
    for kind, ver in itertools.product(("dhanon", "dhe", "ecdhanon", "ecdhe", "srp", "srpcert"), ((3, 1), (3, 3))):
        for _ in range(ctx.pick(2, 8)):
            ints = [rng.choice([1, 2, 255, 256, rng.getrandbits(rng.choice([8, 64, 1024, 2048])) | 1]) for _ in range(3)]
            salt, point = bytearray(g.rb(rng.choice([0, 1, 16, 255]))), bytearray(g.rb(rng.choice([1, 33, 65, 255])))
            curve = rng.choice([23, 24, 29, 0x0100, 65535])
            o = M.ServerKeyExchange(suites[kind], ver)
            if kind.startswith("dh"):
                o.createDH(*ints)
                expect = {"dh_p": ints[0], "dh_g": ints[1], "dh_Ys": ints[2]}
            elif kind.startswith("ecdh"):
                o.createECDH(3, curve, point)
                expect = {"curve_type": 3, "named_curve": curve, "ecdh_Ys": point}
            else:
                o.createSRP(ints[0], ints[1], salt, ints[2])
                expect = {"srp_N": ints[0], "srp_g": ints[1], "srp_s": salt, "srp_B": ints[2]}
            if kind in ("dhe", "ecdhe", "srpcert"):
                o.signature = bytearray(g.rb(rng.choice([0, 64, 256])))
                expect["signature"] = o.signature
                if ver == (3, 3):
                    o.hashAlg, o.signAlg = rng.choice([(4, 1), (8, 4), (6, 3)])
                    expect["hashAlg"], expect["signAlg"] = o.hashAlg, o.signAlg

            def ske_parse(b, kind=kind, ver=ver):
                p = Parser(bytearray(b))
                p.get(1)
                return M.ServerKeyExchange(suites[kind], ver).parse(p)
            check("ServerKeyExchange[%s,%s]" % (kind, ver), "ints=%s curve=%d" % ([x.bit_length() for x in ints], curve), o, ske_parse,
                  expect, {"ske": [kind, list(ver), [hex(x) for x in ints], curve, bytes(point).hex(), bytes(salt).hex()]})


class reuse_object(object):
    """while active, every public create*() of `type(obj)` acts on `obj` whatever instance it is called
    on, so that the builders (which call `Cls().create(...)` on a new instance) apply create() to an
    object that is already in use; nothing else of the class is touched"""

    def __init__(self, obj):
        self.obj = obj
        self.cls = type(obj)
        self.saved = {}

    def __enter__(self):
        cls, obj = self.cls, self.obj
        for name in dir(cls):
            if not name.startswith("create"):
                continue
            orig = getattr(cls, name)
            if not callable(orig):
                continue
            self.saved[name] = cls.__dict__.get(name, None)

            def wrapper(self_, *a, _orig=orig, **k):
                return _orig(obj, *a, **k)
            setattr(cls, name, wrapper)
        return self

    def __exit__(self, *a):
        for name, old in self.saved.items():
            if old is None:
                delattr(self.cls, name)
            else:
                setattr(self.cls, name, old)
        return False


def reuse_streams(r):
    """no state may survive from an earlier use of the same object: parse(A) then create(B), create(A) then
    create(B), parse(A) then parse(B) on ONE object must write / hold exactly what a fresh object gives
    for B.  A and B come from the format's generator with different widths, lengths and optional
    fields present."""
    ctx = r.ctx
    rng = ctx.rng
    g = r.gen

    def viol(ent, sub, what, rep):
        ctx.violation("c15:%s:%s" % (ent.cls, sub), "%s: %s" % (ent.cls, what),
                      dict(rep, **{"format": ent.name, "class": ent.cls, "defect": sub, "stage": "reuse"}))

    for name in format_order(r):
        ent = r.ents[name]
        tree = r.trees.get(name)
        if ent.new is None and not name.startswith("ext:"):
            continue
        if ent.custom_values is not None:
            vals = [v for k, v in ent.custom_values(r) if k == "valid"]
            vals = [v for v in vals if len(V.render(v)) < 5000][:8]
        elif tree is not None:
            vals = [ent.wellformed(g.gen(tree, m), rng) for m in ("min", "one", "max", "rand", "rand", "rand")]
            vals = [v for v in vals if _all_fit(tree, v)]
        else:
            continue
        if ent.create_wf is not None:
            vals = [ent.create_wf(v) for v in vals]
        builder = ent.build_create or ent.build
        fresh = []
        for v in vals:
            try:
                with time_limit():
                    o = builder(v)
                    fresh.append((v, None if o is None else ent.write(o)))
            except Exception:  # noqa - value not expressible through create(): not part of this stream
                fresh.append((v, None))
        fresh = [(v, b) for v, b in fresh if b is not None]
        if len(fresh) < 2:
            continue
        head = fresh[:4]                       # minimal, one-element, maximal, random: every ordered pair of them
        pairs = [(a, b) for a in head for b in head if a is not b]
        more = [(a, b) for a in fresh for b in fresh if a is not b and (a, b) not in pairs]
        rng.shuffle(more)
        for (va, ba), (vb, bb) in pairs + more[:ctx.pick(4, 30)]:
            rep = {"A": V.render(va)[:2000], "B": V.render(vb)[:2000], "bytesA": ba.hex()[:4000], "bytesB": bb.hex()[:4000]}
            ctx.count("reuse:" + name)
            # 1. parse(A) then create(B) on the same object
            for how in ("parse-create", "create-create"):
                ctx.case(key=("reuse", how, name, ba, bb), sample=None)
                try:
                    with time_limit():
                        if how == "parse-create":
                            obj, _ = ent.parse(ba)
                        else:
                            obj = builder(va)
                        with reuse_object(obj):
                            o2 = builder(vb)
                        if o2 is not obj:
                            continue              # another class took over (different extension type): not a reuse
                        got = ent.write(obj)
                except Exception as e:  # noqa
                    viol(ent, "reuse-%s-%s" % (how, type(e).__name__),
                         "%s(A) then create(B) on the same object raised %s: %s" % (how.split("-")[0], type(e).__name__, e), rep)
                    continue
                if got != bb:
                    viol(ent, "reuse-" + how, "%s(A) then create(B) on the same object writes %s, a fresh object writes %s: state "
                         "of A survives in B" % (how.split("-")[0], got.hex()[:120], bb.hex()[:120]), dict(rep, got=got.hex()[:4000]))
            # 2. parse(A) then parse(B) on the same object
            ctx.case(key=("reuse", "parse-parse", name, ba, bb), sample=None)
            try:
                with time_limit():
                    obj, _ = ent.parse(ba)
                    if ent.parse_into(obj, bb) is None:
                        continue
                    val = ent.val(obj)
                    got = ent.write(obj)
            except Exception as e:  # noqa
                viol(ent, "reuse-parse-parse-" + type(e).__name__, "parse(A) then parse(B) on the same object raised %s: %s"
                     % (type(e).__name__, e), rep)
                continue
            try:
                want = ent.val(ent.parse(bb)[0])       # what a fresh object holds after parsing B's bytes
            except Exception:  # noqa
                want = vb
            if ent.norm(val) != ent.norm(want) or (got != bb and not ent.lossy):
                viol(ent, "reuse-parse-parse", "parse(A) then parse(B) on the same object holds %s / writes %s instead of B"
                     % (V.render(val)[:160], got.hex()[:120]), dict(rep, got=got.hex()[:4000]))


def hs_header(r):
    """HandshakeMsg.postWrite: type byte and 24-bit length never mix - bodies of 2^24-1 bytes (fits) and 2^24
    bytes (must raise), directly and through message classes whose body can be that long; the small cases also
    through the regenerated postWrite"""
    from tlslite import messages as M
    from tlslite.utils.codec import Writer, Parser
    ctx = r.ctx
    big = (1 << 24)
    lines, reals = [], []
    for t, n in [(0, 0), (1, 1), (20, 5), (255, 300), (11, 65535), (11, 65536), (256, 3), (22, big - 1), (22, big), (22, big + 7)]:
        w = Writer()
        w.bytes = bytearray(b"\x5c") * n
        ctx.case(key=("postWrite", t, n), sample=None)
        ctx.count("hs-header")
        rep = {"stage": "hs-header", "type": t, "body_len": n}
        try:
            b = bytes(M.HandshakeMsg(t).postWrite(w))
            res = "ok"
        except ValueError:
            b, res = None, "valueError"
        except Exception as e:  # noqa
            b, res = None, "exception:" + type(e).__name__
        fits = t < 256 and n < big
        if fits != (res == "ok"):
            ctx.violation("c15:HandshakeMsg:header-" + ("wrap" if res == "ok" else res.replace(":", "-")),
                          "HandshakeMsg(%d).postWrite of a %d-byte body gave %s%s" % (t, n, res, "" if b is None else " header " + b[:4].hex()),
                          dict(rep, defect="header"))
        elif b is not None and (b[0] != t or int.from_bytes(b[1:4], "big") != n or len(b) != n + 4):
            ctx.violation("c15:HandshakeMsg:header-wrong", "HandshakeMsg(%d).postWrite of a %d-byte body wrote header %s"
                          % (t, n, b[:4].hex()), dict(rep, defect="header"))
        if n <= 70000:
            lines.append("gpw %d %s" % (t, hx(b"\x5c" * n)))
            reals.append("ok " + hx(b) if b is not None else res)
    # through real message classes (body = everything after the 4-byte header)
    for n in (big - 1, big):
        for cls, mk in (("ClientKeyExchange[rsa,(3, 0)]", lambda n=n: M.ClientKeyExchange(r.real.suites["rsa"], (3, 0)).createRSA(bytearray(n))),
                        ("CertificateStatus", lambda n=n: M.CertificateStatus().create(1, bytearray(n - 4))),
                        ("NewSessionTicket1_0", lambda n=n: M.NewSessionTicket1_0().create(7, bytearray(min(n - 6, 65535)) if n < big else bytearray(65535)))):
            if cls == "NewSessionTicket1_0":
                continue                         # its body cannot reach 2^24 bytes (16-bit ticket length)
            ctx.case(key=("hs-big", cls, n), sample=None)
            ctx.count("hs-header")
            rep = {"stage": "hs-header", "class": cls, "body_len": n}
            try:
                with time_limit(30.0):
                    b = bytes(mk().write())
                res = "ok"
            except ValueError:
                b, res = None, "valueError"
            except Exception as e:  # noqa
                b, res = None, "exception:" + type(e).__name__
            if (n < big) != (res == "ok"):
                ctx.violation("c15:%s:header-%s" % (cls, "wrap" if res == "ok" else res.replace(":", "-")),
                              "%s.write() with a %d-byte body gave %s%s" % (cls, n, res, "" if b is None else " header " + b[:4].hex()),
                              dict(rep, defect="header"))
            elif b is not None and (int.from_bytes(b[1:4], "big") != n or len(b) != n + 4):
                ctx.violation("c15:%s:header-wrong" % cls, "%s.write() with a %d-byte body wrote header %s" % (cls, n, b[:4].hex()),
                              dict(rep, defect="header"))
    if r.lc is not None:
        for line, want, m in zip(lines, reals, r.ask_many(lines)):
            ctx.compared()
            if m != want:
                ctx.disagree("gen-postWrite", line[:120], m[:120], want[:120])


def real_asn1(r):
    """the certificate-carrying formats once more with the real ASN.1 parsers (no stubs): a real
    X.509 certificate and a real SubjectPublicKeyInfo from the repository's test data"""
    import os
    ctx = r.ctx
    try:
        from tlslite.x509 import X509
        from tlslite.utils.pem import dePem
        x = X509()
        x.parse(open(os.path.join(ctx.repo, "tests", "serverX509Cert.pem")).read())
        der = bytes(x.bytes)
        spki = bytes(dePem(open(os.path.join(ctx.repo, "tests", "serverDelCredSECP256r1Pub.pem")).read(), "PUBLIC KEY"))
    except Exception as e:  # noqa - test data absent: nothing to run, say so
        ctx.extra["real_asn1"] = "skipped: %s" % e
        return
    dc = V.seqv(V.N(86400), V.N(4), V.N(3), V.B(spki), V.N(8), V.N(4), V.B(b"\x5a" * 64))
    entry = V.P(V.B(der), V.L([]))
    entry_dc = V.P(V.B(der), V.L([V.P(V.N(34), dc)]))
    base = [V.B(b"\x07" * 48), V.N(3), V.N(4), V.N(0x1301), V.B(b"\x09" * 8), V.N(1700000000)]
    cases = [("certificate12", V.L([V.B(der)])), ("certificate12", V.L([V.B(der), V.B(der)])),
             ("certificate13", V.P(V.B(b"\x01\x02"), V.L([entry, entry_dc]))), ("certificateEntry", entry_dc),
             ("extdata:delegatedCredentialCert", dc), ("ext:cert", V.P(V.N(34), dc)),
             ("sessionTicketPayload", V.P(V.N(1), V.seqv(*(base + [V.L([entry])]))))]
    for name, v in cases:
        ent = r.ents[name]
        old = ent.stricter
        ent.stricter = True          # the ASN.1 parsers may reject content the model treats as opaque
        try:
            b = r.value_case(ent, "valid", v)
            if b is None:
                continue
            ls = r.lens_of(ent, [b])[0]
            for kind, m in V.mutants(b, ls, ctx.rng, all_bytes=False, max_trunc=40):
                r.bytes_case(ent, kind, m)
            r.flush()
        finally:
            ent.stricter = old
    ctx.count("real-asn1-formats", len(cases))


# ------------------------------------------------------------------ entry points

def format_order(r):
    return sorted(r.ents, key=lambda n: (0 if n.startswith("extdata:") else 1 if n.startswith("ext:") else 2, n))


def do_format(r, name):
    ctx = r.ctx
    ent = r.ents[name]
    tree = r.trees.get(name)
    if tree is None and ent.custom_values is None:
        return
    encs = []
    for kind, v in (ent.custom_values(r) if ent.custom_values is not None else values_for(r, ent, tree)):
        b = r.value_case(ent, kind, v)
        if b is not None and kind == "valid":
            encs.append(b)
    # the same extension type twice in one block: serialised by the model (write() of some classes
    # refuses such a value), must be refused by the real parser
    if r.lc is not None and tree is not None:
        dups = []
        for _ in range(ctx.pick(6, 30)):
            dv = dup_first_ext(tree, ent.wellformed(r.gen.gen(tree, "rand"), ctx.rng))
            if dv is not None:
                dups.append(dv)
        if dups:
            for dv, m in zip(dups, r.ask_many(["enc %s %s" % (ent.model_name, V.render(dv)) for dv in dups])):
                if m.startswith("ok "):
                    r.bytes_case(ent, "dup-ext", unhx(m[3:]))
    uniq = list(dict.fromkeys(encs))
    big = [b for b in uniq if len(b) > 2000]
    small = [b for b in uniq if len(b) <= 2000]
    use = small + big[:ctx.pick(1, 6)]
    lens = [ent.custom_lens(b) for b in use] if ent.custom_lens is not None else r.lens_of(ent, use)
    for b, ls in zip(use, lens):
        large = len(b) > 2000
        huge = len(b) > 1000000
        for kind, m in V.mutants(b, ls, ctx.rng, small_limit=ctx.pick(160, 400), all_bytes=not large,
                                 max_trunc=None if len(b) <= 600 else (2 if huge else ctx.pick(6, 16)),
                                 few=huge or (large and not ctx.thorough()), inner=ent.custom_lens is None, few_bytes=not ctx.thorough()):
            r.bytes_case(ent, kind, m)
    r.flush()


def run(ctx):
    from .c15_real import opaque_asn1
    ctx.rule = ("per model format (%s): values generated from the model's own format tree (minimal, one-element, maximal, random, "
                "every case of a tagged union, bodies of exactly 2^8k-1 / 2^8k bytes per length field, integers one above their field); "
                "per encoding: every truncation, every length field +-1/+2/0/max/half, junk inserted at the end of every "
                "length-delimited region with enclosing lengths adjusted, junk after the structure, every byte +-1/0/ff (encodings "
                "<= 160 bytes); Writer/Parser primitives on boundary values and random scripts; distinct = distinct (format, value) "
                "or (format, bytes); non-trivial = all") % "messages, extension_data per class, whole extensions per context"
    ctx.assumptions = ["X.509 certificates, SubjectPublicKeyInfo and OCSP responses are opaque byte strings: X509.parseBinary and "
                       "Credential.parse_pub_key are stubbed to store bytes during the run",
                       "values are non-negative ints / byte strings / lists of the field's type (what the classes document)",
                       "well-formed values respect the documented value constraints that are not framing (session_id <= 32 bytes, "
                       "named curve type 3, non-zero TLS 1.2 signature algorithm in ServerKeyExchange, canonical integers in "
                       "ClientKeyExchange, NextProtocol padding as computed by write())"]
    r = Run(ctx)
    r.load_trees()
    with opaque_asn1():
        names = format_order(r)
        for name in names:
            do_format(r, name)
        glue_and_legacy(r)
        create_streams(r)
        reuse_streams(r)
    hs_header(r)
    real_asn1(r)
    writer_prims(r)
    parser_prims(r)
    if r.lc is None:
        ctx.violation("obligation:driver", "the Lean driver drv_c15 did not build: no correspondence was checked",
                      {"stage": "obligation", "theorem": "drv_c15"}, found=False)
    ctx.extra["load_independence"] = ("no stream of this check is behind a wall-clock budget: every directed family (boundaries, "
                                      "truncations, length perturbations, create/reuse streams, handshake header sizes, Writer/Parser "
                                      "primitives, regenerated-code streams) and the random bulk run to completion on every run")
    ctx.extra["formats_checked"] = len(r.trees)
    ctx.extra["non_framing_observations"] = {k: v for k, v in sorted(r.info.items())[:40]}
    ctx.extra["disagreements_explained_by_reported_violations"] = r.explained


def replay(ctx, rep):
    from .c15_real import opaque_asn1
    inp = rep["input"]
    if inp.get("stage") in ("correspondence", "obligation", "audit"):
        print("replay of stage %r: re-running the whole check" % inp.get("stage"))
        from .. import leanbuild
        ctx.build = leanbuild.build(ctx.pid, TRANSLATORS, ctx.repo, ctx.tier)
        run(ctx)
        return bool(ctx.violations and any(v["key"] == rep.get("key") or not v["found"] for v in ctx.violations))
    r = Run(ctx)
    before = len(ctx.violations)
    if inp.get("stage") in ("writer", "parser", "legacy", "create", "reuse", "hs-header"):
        print("replay of stage %r: re-running that part of the check" % inp.get("stage"))
        with opaque_asn1():
            r.load_trees()
            if inp.get("stage") == "writer":
                writer_prims(r)
            elif inp.get("stage") == "parser":
                parser_prims(r)
            elif inp.get("stage") == "create":
                create_streams(r)
            elif inp.get("stage") == "reuse":
                reuse_streams(r)
            elif inp.get("stage") == "hs-header":
                hs_header(r)
            else:
                glue_and_legacy(r)
        return any(v["key"] == rep.get("key") for v in ctx.violations) or len(ctx.violations) > before
    ent = r.ents[inp["format"]]
    with opaque_asn1():
        if "bytes" in inp and inp.get("kind") not in ("valid", "oversize"):
            data = bytes.fromhex(inp["bytes"])
            res = real_parse(ent, data)
            print("real parse of %s (%d bytes): %s" % (inp["format"], len(data), res[0] if res[0] != "ok" else
                                                       "ok " + V.render(res[1])[:200] + " consumed %d" % res[2]))
            r.oracle(ent, inp.get("kind", "byte"), data, res)
        else:
            v = V.parse_val(inp["value"])
            r.value_case(ent, inp.get("kind", "valid"), v)
    for v in ctx.violations[before:]:
        print("  still: %s" % v["what"][:300])
    return len(ctx.violations) > before
