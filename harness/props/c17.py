"""C17 — closure, truncation and transport failures are contained and reported faithfully.

Theorems: lean/Props/C17.lean over lean/TlsModel/Conn.lean (readAsync / _getMsg alert branch /
close / writeAsync on closed / _sendMsgThroughSocket, and the I/O skeleton of a handshake).
Tie: (A) a transport fault (EOF / ECONNRESET / EPIPE, transport dead from then on) at EVERY recv
and send call index of every enumerated handshake flavour, whole-buffer and chunked transport, the
index range taken from a clean run; outcome compared with Tls.Conn.hsFault.  (B) data-phase
histories with close_notify / warning / fatal alerts at every position relative to data, aborts,
dying transports, closeSocket x ignoreAbruptClose, each op compared with the model.
Oracle (property text, independent of the model): class of the exception of the interrupted call,
closed afterwards, session not resumable after a mid-handshake or fatal failure, no handshake
reported complete, orderly close => reads b'' / writes TLSClosedConnectionError / resumable kept,
truncation => TLSAbruptCloseError unless opted out, fatal alert => TLSRemoteAlert(description).
"""
import errno
import itertools
import socket

from . import _conn
from ._conn import op_json, op_unjson

TRANSLATORS = ["conn"]

MANIFEST = {
    "text": "Proof: decision theorems over Tls.Conn stated for arbitrary states/histories: close_notify_received, after_close_notify "
            "(closed is absorbing over every later history: reads return buffered bytes then empty and never raise, writes raise the "
            "closed-connection error, resumable untouched), after_close_each_op, truncation_not_eof, transport_fault_contained "
            "(handshake I/O skeleton hsFault) with transport_fault_data_recv/_send, fatal_alert_surfaced, warning_alert_handled, "
            "fatal_alert_in_handshake, makefile_refcount / makefile_then_close (_refCount), close_every_interleaving (all 252 "
            "interleavings of both endpoints' write/close/read/read/close x closeSocket x protocol generation, kernel-decided). "
            "Regenerated tie: translate/gen_conn.py reads from the AST of tlsrecordlayer.py the alert handler (reply condition, forgiven "
            "exceptions, _shutdown arguments), the except clauses of readAsync, the exception->alert mapping, _decrefAsync/makefile "
            "(reference count, closeSocket branch, wait-loop types, handlers), writeAsync and _sendMsgThroughSocket; "
            "gen_alert_table_matches_model, gen_alert_reply_errors_forgiven, gen_exc_alert_matches_model, gen_read_except_matches_model, "
            "gen_close_matches_model, gen_write_and_send_failure_match_model tie them to the model's step functions by kernel "
            "evaluation (all 4x256 alerts). Tie by correspondence: fault injection of every kind at every socket call index of every "
            "enumerated handshake flavour vs hsFault, alerts replacing each handshake message vs hsAlert, data-phase histories (alerts "
            "at every position relative to data, aborts, dying transport, makefile/close reference counting, closeSocket x "
            "ignoreAbruptClose) op by op; direct oracle from the property text.",
    "note": "Trusted: Lean kernel, the translator translate/gen_conn.py (unrecognised shapes are emitted as poison values that falsify "
            "the obligations), the correspondence harness, the in-memory transport (a fault makes the transport dead from that call on: "
            "later receives report EOF/reset/timeout after the already queued bytes, later sends EPIPE/reset/timeout). The handshake "
            "itself is modelled only as its sequence of socket calls (kind of each call recorded from a clean run). A stalled close() "
            "generator is abandoned, not resumed, in model and harness.",
    "technique": "Lean 4 decision theorems + kernel-decided ties to tables regenerated from the source; exhaustive fault-injection correspondence on live endpoints; direct oracle",
}


# ------------------------------------------------------------------------------------------------
# Part A: transport faults during handshakes
class HsSock(object):
    """proxy in front of a MemSock: records the kind of every socket call and injects one fault;
    after the fault the transport is dead (both directions, the peer sees EOF / EPIPE)"""

    def __init__(self, inner):
        self.inner = inner
        self.log = []
        self.fault = None          # ('recv'|'send', index, 'eof'|'reset'|'pipe')
        self.dead = None
        self.cur_ct = None
        self.pending_alert = None  # bytes injected for the endpoint to find after a failed send
        self.fired = False

    def _die(self, what):
        self.dead = what
        self.fired = True
        link = self.inner.link
        if self.pending_alert is not None:
            link.q[self.inner.rx] += self.pending_alert
        link.closed["c2s"] = True
        link.closed["s2c"] = True
        link.activity += 1

    def recv(self, n):
        idx = self.inner.recv_calls
        if self.dead is None and self.fault and self.fault[0] == "recv" and self.fault[1] == idx:
            del self.inner.link.q[self.inner.rx][:]
            self._die(self.fault[2])
        if self.dead and not self.inner.link.q[self.inner.rx]:
            self.inner.recv_calls += 1
            self.inner.link.activity += 1
            if self.dead == "eof":
                return b""
            raise _conn.transport_error("reset" if self.dead == "pipe" else self.dead)
        r = self.inner.recv(n)
        self.log.append(("recv", idx, "r"))
        return r

    def _send(self, data, meth):
        idx = self.inner.send_calls
        if self.dead is None and self.fault and self.fault[0] == "send" and self.fault[1] == idx:
            self._die(self.fault[2])
        if self.dead:
            self.inner.send_calls += 1
            self.inner.link.activity += 1
            raise _conn.transport_error("pipe" if self.dead == "eof" else self.dead)
        k = "f" if meth == "sendall" else ("h" if self.cur_ct == 22 else "o")
        self.log.append(("send", idx, k))
        return getattr(self.inner, meth)(data)

    def send(self, d):
        return self._send(d, "send")

    def sendall(self, d):
        return self._send(d, "sendall")

    def __getattr__(self, n):
        return getattr(self.inner, n)


def instrument(L):
    socks = {}
    for name, e in (("client", L.client), ("server", L.server)):
        hs = HsSock(e.sock)
        e.conn.sock.socket = hs
        orig = e.conn._sendMsgThroughSocket

        def wrap(msg, orig=orig, hs=hs):
            hs.cur_ct = msg.contentType
            try:
                for r in orig(msg):
                    yield r
            finally:
                hs.cur_ct = None
        e.conn._sendMsgThroughSocket = wrap
        socks[name] = hs
    return socks


FLAVOURS = [
    # name, version, options
    ("tls13", (3, 4), {}),
    ("tls13-clientauth-tickets", (3, 4), {"client_cert": True, "tickets": True}),
    ("tls13-ecdsa", (3, 4), {"cred": "ecdsa"}),
    ("tls13-psk-resume", (3, 4), {"tickets": True, "resume": "ticket"}),
    ("tls12-ecdhe", (3, 3), {"kx": "ecdhe_rsa"}),
    ("tls12-rsa", (3, 3), {"kx": "rsa"}),
    ("tls12-dhe", (3, 3), {"kx": "dhe_rsa"}),
    ("tls12-clientauth", (3, 3), {"kx": "ecdhe_rsa", "client_cert": True}),
    ("tls12-resume", (3, 3), {"resume": "id"}),
    ("tls12-ticket-resume", (3, 3), {"tickets": True, "resume": "ticket12"}),
    ("tls11-rsa", (3, 2), {"kx": "rsa"}),
    ("tls10-ecdhe", (3, 1), {"kx": "ecdhe_rsa"}),
    ("tls10-clientauth", (3, 1), {"kx": "rsa", "client_cert": True}),
    ("ssl3-rsa", (3, 0), {"kx": "rsa"}),
]


class Flavour(object):
    """one handshake flavour; for resumption flavours the first (clean) handshake is done once and
    its session / cache reused for every faulted run"""

    def __init__(self, name, ver, opt, chunk=None):
        self.name = name + ("/chunk%d" % chunk if chunk else "")
        self.ver = ver
        self.opt = opt
        self.chunk = chunk
        self.cache = None
        self.ticket_keys = [bytearray(b"\x17" * 32)]

    def settings(self):
        from harness import lab
        cs = _conn.tls13_settings() if self.ver == (3, 4) else lab.settings(minv=self.ver, maxv=self.ver)
        ss = _conn.tls13_settings() if self.ver == (3, 4) else lab.settings(minv=self.ver, maxv=self.ver)
        if self.opt.get("kx"):
            cs.keyExchangeNames = [self.opt["kx"]]
        if self.opt.get("tickets"):
            ss.ticketKeys = self.ticket_keys
        return cs, ss

    def run(self, fault=None, session=None, pending_alert=None, first=False):
        """fault = (who, 'recv'|'send', index, what).  Returns (lab, socks)"""
        from harness import lab
        from tlslite.sessioncache import SessionCache
        cs, ss = self.settings()
        ckw, skw = {}, {}
        if self.opt.get("client_cert"):
            ch, k = lab.creds("client_rsa")
            ckw = dict(certChain=ch, privateKey=k)
            skw = dict(reqCert=True)
        if self.opt.get("resume") == "id":
            if self.cache is None:
                self.cache = SessionCache()
            skw["sessionCache"] = self.cache
        if session is not None:
            ckw["session"] = session
        L = lab.Lab()
        socks = instrument(L)
        if self.chunk and not first:
            L.client.sock.recv_schedule = itertools.repeat(self.chunk)
            L.server.sock.recv_schedule = itertools.repeat(self.chunk)
            L.client.sock.send_schedule = itertools.repeat(self.chunk * 3)
            L.server.sock.send_schedule = itertools.repeat(self.chunk * 3)
        if fault:
            socks[fault[0]].fault = (fault[1], fault[2], fault[3])
            socks[fault[0]].pending_alert = pending_alert
        chain, key = lab.creds(self.opt.get("cred", "rsa"))
        L.start_client(lambda c: c.handshakeClientCert(settings=cs, async_=True, **ckw))
        L.start_server(lambda c: c.handshakeServerAsync(certChain=chain, privateKey=key, settings=ss, **skw))
        L.run()
        return L, socks

    def original_session(self):
        """a completed first connection whose session the resumption flavours offer"""
        L, _ = self.run(first=True)
        if L.client.state != "done" or L.server.state != "done":
            return None
        if self.opt.get("resume") in ("ticket", "ticket12"):
            # tickets arrive after the handshake in TLS 1.3
            for _ in range(3):
                L.read("client", min=0)
        return L.client.conn.session


def steps_of(log):
    return "".join(k for d, i, k in log if d == "recv"), "".join(k for d, i, k in log if d == "send")


def end_desc(lab_mod, e):
    c = e.conn
    return {"state": e.state, "exc": lab_mod.exc_class(e.exc) if e.state == "error" else "-",
            "closed": bool(c.closed), "session": None if c.session is None else bool(c.session.resumable)}


def handshake_faults(ctx, lc):
    from harness import lab
    thorough = ctx.thorough()
    flavours = []
    for name, ver, opt in FLAVOURS:
        flavours.append(Flavour(name, ver, opt))
    for name, ver, opt in FLAVOURS:
        flavours.append(Flavour(name, ver, opt, chunk=ctx.pick(160, 48)))
    model_lines, model_expect = [], []
    for fl in flavours:
        session = None
        if fl.opt.get("resume"):
            session = fl.original_session()
            if session is None:
                ctx.count("flavour-setup-failed:" + fl.name)
                continue
        L0, socks0 = fl.run(session=session)
        if L0.client.state != "done" or L0.server.state != "done":
            ctx.count("flavour-clean-run-failed:" + fl.name)
            continue
        if fl.opt.get("resume") and not L0.client.conn.resumed:
            ctx.count("flavour-not-resumed:" + fl.name)
        ctx.count("flavour:" + fl.name)
        for who in ("client", "server"):
            rsteps, ssteps = steps_of(socks0[who].log)
            for kind, steps, whats in (("recv", rsteps, ("eof", "reset", "timeout")),
                                       ("send", ssteps, ("pipe", "reset", "eof", "timeout"))):
                for i in range(len(steps)):
                    for what in whats:
                        if not thorough and what in ("reset", "timeout") and fl.chunk and (i + len(what)) % 3:
                            continue      # quick tier: every kind at every third index of the chunked runs
                        if fl.opt.get("resume") == "id":
                            session = fl.original_session() if session is None or not session.resumable else session
                        L, socks = fl.run(fault=(who, kind, i, what), session=session)
                        x = L.end(who)
                        y = L.end("server" if who == "client" else "client")
                        dx, dy = end_desc(lab, x), end_desc(lab, y)
                        case = {"stage": "handshake-fault", "flavour": fl.name, "who": who, "call": kind, "index": i,
                                "fault": what, "steps": steps, "outcome": dx, "peer": dy}
                        ctx.case(key=("hs", fl.name, who, kind, i, what), sample=case if (i == 1 and what != "reset" and who == "client") else None)
                        ctx.count("hs-fault:%s-%s" % (kind, what))
                        if not socks[who].fired:
                            ctx.count("hs-fault-not-reached")
                            continue
                        # ---- oracle (property text)
                        allowed = ("socket_error", "abrupt_close")
                        probs = []
                        if dx["state"] == "done":
                            probs.append(("c17:handshake-reported-complete-after-fault", "handshake generator finished normally"))
                        elif dx["state"] == "stall":
                            probs.append(("c17:handshake-hangs-after-fault", "handshake neither fails nor completes on a dead transport"))
                        else:
                            if dx["exc"] not in allowed:
                                probs.append(("c17:handshake-fault-wrong-exception", "exception class %s" % dx["exc"]))
                            if not dx["closed"]:
                                probs.append(("c17:handshake-fault-not-closed", "closed is False after the failure"))
                            if dx["session"]:
                                probs.append(("c17:handshake-fault-session-resumable", "session left resumable after a mid-handshake failure"))
                        if dy["state"] == "error":
                            if dy["exc"] not in allowed or not dy["closed"] or dy["session"]:
                                probs.append(("c17:handshake-fault-peer-state", "peer of the failed endpoint: %r" % (dy,)))
                        elif dy["state"] == "stall":
                            probs.append(("c17:handshake-hangs-after-fault", "peer hangs although its transport reports EOF"))
                        for key, what_ in probs:
                            ctx.violation(key, "%s, fault %s at %s call %d of the %s: %s" % (fl.name, what, kind, i, who, what_), case)
                        # ---- model
                        model_lines.append("hsfault %s %d %s -" % (steps, i, "reset" if what == "timeout" else what))
                        model_expect.append((case, "%s closed=%d res=%d complete=%d" % (
                            dx["exc"] if dx["state"] == "error" else "none", dx["closed"],
                            0 if dx["session"] is None else int(dx["session"]), int(dx["state"] == "done"))))
        # a peer alert already waiting when a directly sent handshake record fails: raised as such
        rsteps, ssteps = steps_of(socks0["client"].log)
        if not fl.chunk and ssteps and ssteps[0] == "h":
            for desc in (40, 70, 80):
                alert = bytes([21, 3, 1, 0, 2, 2, desc])
                L, socks = fl.run(fault=("client", "send", 0, "pipe"), session=session, pending_alert=alert)
                dx = end_desc(lab, L.client)
                case = {"stage": "handshake-fault-pending-alert", "flavour": fl.name, "alert": desc, "outcome": dx}
                ctx.case(key=("hs-alert", fl.name, desc), sample=None)
                ctx.count("hs-fault:send-with-pending-alert")
                if dx["state"] != "error" or dx["exc"] != "remote_alert:%d" % desc or not dx["closed"] or dx["session"]:
                    ctx.violation("c17:pending-alert-not-surfaced", "%s: ClientHello send failed with alert %d waiting: %r" % (fl.name, desc, dx), case)
                model_lines.append("hsfault %s 0 pipe %d" % (ssteps, desc))
                model_expect.append((case, "%s closed=%d res=%d complete=%d" % (
                    dx["exc"] if dx["state"] == "error" else "none", dx["closed"],
                    0 if dx["session"] is None else int(dx["session"]), int(dx["state"] == "done"))))
    if lc is not None and model_lines:
        out = lc.batch(model_lines)
        for (case, want), got in zip(model_expect, out):
            ctx.compared()
            if got != want:
                ctx.disagree("hsFault", case, got, want)


def handshake_alerts(ctx, lc):
    """the peer answers in the middle of a handshake with an alert instead of its k-th message: the
    receiving endpoint must surface it, be closed, hold no resumable session and not complete"""
    from harness import lab
    from tlslite.messages import Alert
    model_lines, model_expect = [], []
    for name, ver, opt in FLAVOURS:
        if name in ("tls12-dhe", "tls13-ecdsa", "tls11-rsa") and not ctx.thorough():
            continue
        fl = Flavour(name, ver, opt)
        for who in ("client", "server"):
            j = 0
            while j < 12:
                for level, desc in ((2, 40), (1, 90), (2, 0)):
                    session = fl.original_session() if opt.get("resume") else None
                    cs, ss = fl.settings()
                    ckw, skw = {}, {}
                    if opt.get("client_cert"):
                        ch, k = lab.creds("client_rsa")
                        ckw = dict(certChain=ch, privateKey=k)
                        skw = dict(reqCert=True)
                    if opt.get("resume") == "id":
                        skw["sessionCache"] = fl.cache
                    if session is not None:
                        ckw["session"] = session
                    L = lab.Lab()
                    st = {"n": 0, "hit": None}

                    def fn(kind, msg, st=st, j=j, level=level, desc=desc):
                        if type(msg).__name__ == "Message":
                            return [msg]
                        i = st["n"]
                        st["n"] += 1
                        if i == j and kind == "send":
                            st["hit"] = lab.msg_name(msg)
                            return [Alert().create(desc, level)]
                        return [msg]
                    lab.hook_messages(L.end(who).conn, fn)
                    chain, key = lab.creds(opt.get("cred", "rsa"))
                    L.start_client(lambda c: c.handshakeClientCert(settings=cs, async_=True, **ckw))
                    L.start_server(lambda c: c.handshakeServerAsync(certChain=chain, privateKey=key, settings=ss, **skw))
                    L.run()
                    if st["hit"] is None:
                        continue
                    recv = L.end("server" if who == "client" else "client")
                    d = end_desc(lab, recv)
                    case = {"stage": "handshake-alert", "flavour": fl.name, "sender": who, "message_index": j,
                            "replaced": st["hit"], "level": level, "desc": desc, "outcome": d}
                    ctx.case(key=("hs-alert-msg", fl.name, who, j, level, desc), sample=case if (j == 2 and level == 2 and desc == 40) else None)
                    ctx.count("hs-alert:%d-%d" % (level, desc))
                    bad = d["state"] != "error" or d["exc"] != "remote_alert:%d" % desc or not d["closed"]
                    if desc != 0 and d["session"]:
                        bad = True
                    if bad:
                        ctx.violation("c17:handshake-alert-not-contained",
                                      "%s: %s replaced its message %d (%s) by alert (%d,%d); receiver: %r" % (fl.name, who, j, st["hit"], level, desc, d), case)
                    if d["session"] is not None:
                        model_lines.append("hsalert %d %d" % (level, desc))
                        model_expect.append((case, "%s closed=%d res=%d complete=%d" % (
                            d["exc"] if d["state"] == "error" else "none", d["closed"], int(d["session"]), int(d["state"] == "done"))))
                    if session is not None and session.resumable and desc != 0:
                        ctx.count("observation:offered-session-still-resumable-after-fatal-alert-in-resumption")
                j += 1
                if st["n"] <= j:
                    break
    if lc is not None and model_lines:
        out = lc.batch(model_lines)
        for (case, want), got in zip(model_expect, out):
            ctx.compared()
            if got != want:
                ctx.disagree("hsAlert", case, got, want)


# ------------------------------------------------------------------------------------------------
# Part B: data phase
def rb(rng, n):
    return bytes(rng.getrandbits(8) for _ in range(n))


class DataOracle(object):
    def __init__(self, cfg):
        self.cfg = cfg
        self.written = {"c": b"", "s": b""}
        self.readback = {"c": b"", "s": b""}
        self.problems = []
        # what each endpoint has been told / done, as far as the oracle can tell from the history alone
        self.alerts_to = {"c": [], "s": []}     # alerts queued towards endpoint, in order with data marks
        self.stream = {"c": [], "s": []}        # items sent towards endpoint: ('data', bytes) | ('alert', lvl, desc) | ('eof',)
        self.dead = {"c": None, "s": None}
        self.closed_by = {}                     # endpoint -> reason: 'close' | 'close_notify' | 'fatal' | 'error'
        self.orderly = {"c": False, "s": False}
        self.closing = {"c": False, "s": False}   # close() with closeSocket off drops application data while it waits
        self.sock_closed = {"c": False, "s": False}
        self.close_sent = {"c": False, "s": False}
        self.refs = {"c": 1, "s": 1}              # _refCount as the oracle counts it: 1 + makefile() - close()
        self.control_seen = False

    @staticmethod
    def peer(w):
        return "s" if w == "c" else "c"

    def after(self, cn, op, res, idx):
        lab = cn.lab_mod
        w, name = op[0], op[1]
        kind, val = res
        conn = cn.conn(w)
        cls = lab.exc_class(val) if kind == "error" else None
        was_closed = w in self.closed_by
        if name in ("ku", "hb", "pha") or (name == "inject" and op[2] != "alert"):
            self.control_seen = True
        if name == "write":
            if kind == "ok":
                self.written[w] += op[2]
                self.stream[self.peer(w)].append(("data", op[2]))
            if was_closed:
                if cls != "closed_connection":
                    self.problems.append(("c17:write-on-closed-not-refused", "op %d: write on a closed connection gave %s" % (idx, cls or kind)))
                if self.orderly[w] and not conn.session.resumable:
                    self.problems.append(("c17:write-after-close-clears-resumable",
                                          "op %d: write after an orderly close raised %s and left session.resumable False" % (idx, cls)))
            elif kind == "error":
                if cls not in ("socket_error",):
                    self.problems.append(("c17:write-failure-wrong-exception", "op %d: write failed with %s" % (idx, cls)))
                if not conn.closed:
                    self.problems.append(("c17:failure-leaves-open", "op %d: write raised %s but closed is False" % (idx, cls)))
                if conn.session.resumable and not conn.ignoreAbruptClose:
                    self.problems.append(("c17:failure-leaves-resumable", "op %d: write raised %s, session still resumable" % (idx, cls)))
                self.closed_by[w] = "error"
        elif name == "read":
            if kind == "ok":
                self.readback[w] += val
                if not self.closing[w] and not self.written[self.peer(w)].startswith(self.readback[w]):
                    self.problems.append(("c17:garbage-delivered", "op %d: bytes returned by read are not what the peer wrote" % idx))
            if was_closed and kind != "ok":
                self.problems.append(("c17:read-on-closed-raises", "op %d: read on a closed connection gave %s" % (idx, cls or kind)))
            if kind == "error":
                if cls.startswith("remote_alert:"):
                    d = int(cls.split(":")[1])
                    sent = [it for it in self.stream[w] if it[0] == "alert"]
                    if not any(it[2] == d for it in sent):
                        self.problems.append(("c17:alert-not-sent-by-peer", "op %d: TLSRemoteAlert(%d) but the peer never sent it" % (idx, d)))
                    if any(it[2] == d and it[1] == 1 for it in sent):
                        self.stream[self.peer(w)].append(("alert", 1, 0))  # warnings are answered with close_notify
                elif cls in ("abrupt_close", "socket_error"):
                    # everything the peer sent up to and including a close_notify is delivered before the transport
                    # error shows (the queued bytes are read first): then the read must end the orderly way even if
                    # our own close_notify reply cannot be sent
                    items = self.stream[w]
                    k = next((n for n, it in enumerate(items) if it[0] == "alert" and it[2] == 0), None)
                    # no claim when any control traffic (KeyUpdate, heartbeat, PHA, faulty-peer message) was ever issued -
                    # the reader may then have to send something else than the close_notify reply - nor when the reader
                    # is itself inside close()
                    if not was_closed and k is not None and all(it[0] == "data" for it in items[:k]) \
                            and not self.control_seen and not self.closing[w] and not self.close_sent[w]:
                        self.problems.append(("c17:close-notify-reply-failure-not-forgiven",
                                              "op %d: the peer's close_notify was received but read raised %s (transport of %s: %s)"
                                              % (idx, cls, w, self.dead[w])))
                elif cls.startswith("local_alert:"):
                    if self.cfg.get("honest_traffic", True):
                        self.problems.append(("c17:local-alert-on-honest-traffic", "op %d: read raised %s" % (idx, cls)))
                else:
                    self.problems.append(("c17:read-failure-wrong-exception", "op %d: read failed with %s" % (idx, cls)))
                if not conn.closed:
                    self.problems.append(("c17:failure-leaves-open", "op %d: read raised %s but closed is False" % (idx, cls)))
                if conn.session.resumable:
                    self.problems.append(("c17:failure-leaves-resumable", "op %d: read raised %s, session still resumable" % (idx, cls)))
                self.closed_by[w] = "error"
        elif name in ("ku", "hb", "pha"):
            if kind == "error" and cls in ("socket_error", "abrupt_close"):
                if not conn.closed:
                    self.problems.append(("c17:control-send-failure-leaves-open", "op %d: %s raised %s but closed is False" % (idx, name, cls)))
                if conn.session.resumable:
                    self.problems.append(("c17:failure-leaves-resumable", "op %d: %s raised %s, session still resumable" % (idx, name, cls)))
                self.closed_by[w] = "error"
            if kind == "ok" and self.dead[w] and not was_closed and name in ("ku", "pha"):
                self.problems.append(("c17:send-error-swallowed-nonalert-pending",
                                      "op %d: %s returned normally although the transport cannot send" % (idx, name)))
        elif name == "makefile":
            self.refs[w] += 1
        elif name == "close" and not was_closed and self.refs[w] != 1:
            # _refCount: only the close() that drops the last reference does anything
            self.refs[w] -= 1
            if kind != "ok" or conn.closed:
                self.problems.append(("c17:close-ignores-reference-count",
                                      "op %d: close() with references outstanding gave %s, closed=%s" % (idx, cls or kind, conn.closed)))
        elif name == "close":
            if not was_closed:
                self.refs[w] -= 1
            if not was_closed and not conn.closeSocket:
                self.closing[w] = True
            if kind == "ok" and conn.closed:
                self.closed_by.setdefault(w, "close")
                self.orderly[w] = self.orderly[w] or w not in self.closed_by or self.closed_by[w] == "close"
            if kind in ("ok", "stall") and not self.dead[w] and not was_closed and not self.close_sent[w]:
                self.close_sent[w] = True
                self.stream[self.peer(w)].append(("alert", 1, 0))
        elif name == "inject" and op[2] == "alert":
            if not self.dead[w] and w not in self.closed_by:
                self.stream[self.peer(w)].append(("alert", op[3], op[4]))
        elif name == "kill":
            self.dead[w] = "rx=%s tx=%s" % ("eof" if op[2] == 1 else (op[4] if len(op) > 4 else "reset"), op[3] if len(op) > 3 else "pipe")
        elif name == "abort":
            self.dead[w] = "abort"
            self.stream[self.peer(w)].append(("eof",))
        # an endpoint that closed its socket makes the peer see EOF (after what is already queued)
        for x in "cs":
            cx = cn.conn(x)
            if cx.closed and cx.closeSocket and not self.sock_closed[x]:
                self.sock_closed[x] = True
                self.stream[self.peer(x)].append(("eof",))
        # closure noticed by a read that returned normally
        if name == "read" and kind == "ok" and conn.closed and not was_closed:
            # legitimate only through close_notify, or EOF with ignoreAbruptClose
            got_cn = any(it[0] == "alert" and it[2] == 0 for it in self.stream[w])
            eof = any(it[0] == "eof" for it in self.stream[w]) or (self.dead[w] or "").startswith("rx=eof")
            if got_cn:
                self.closed_by[w] = "close_notify"
                self.orderly[w] = True
                self.stream[self.peer(w)].append(("alert", 1, 0))     # the automatic close_notify reply
                if not conn.session.resumable:
                    self.problems.append(("c17:close-notify-clears-resumable", "op %d: close_notify received, session.resumable False" % idx))
            elif eof and conn.ignoreAbruptClose:
                self.closed_by[w] = "ignored-eof"
            else:
                self.closed_by[w] = "?"
                self.problems.append(("c17:truncation-mistaken-for-eof", "op %d: read returned normally and the connection is closed, "
                                      "but the peer sent no close_notify (ignoreAbruptClose=%s)" % (idx, conn.ignoreAbruptClose)))

    def check_after_orderly(self, cn):
        for w in "cs":
            conn = cn.conn(w)
            if self.orderly[w] and self.closed_by.get(w) in ("close", "close_notify") and not conn.session.resumable:
                self.problems.append(("c17:orderly-close-not-resumable", "%s: after an orderly close the session is not resumable" % w))


def data_cfgs(rng, n):
    for _ in range(n):
        ver = rng.choice([(3, 4), (3, 4), (3, 3), (3, 1), (3, 0)])
        yield dict(ver=ver, client_cert=False, tickets=0, hb=rng.random() < 0.5,
                   close_socket=(rng.random() < 0.5, rng.random() < 0.5),
                   ignore_abrupt=(rng.random() < 0.4, rng.random() < 0.4),
                   cipher=None if ver >= (3, 3) else "aes128")


def placement_histories(ctx):
    """every placement of an alert / abort relative to three writes, then the receiver reads it all"""
    events = [("alert", 1, 0), ("alert", 2, 0), ("alert", 2, 40), ("alert", 2, 20), ("alert", 1, 90), ("alert", 1, 100),
              ("abort",), ("kill", 1, "pipe"), ("kill", 2, "reset"), ("kill", 1, "reset"), ("kill", 2, "timeout", "timeout"),
              ("close",)]
    reads = [[(None, 1)] * 6, [(2, 2)] * 8, [(None, 0)] * 6, [(None, 9)] * 4]
    for ev in events:
        for pos in range(4):
            for rd in (reads if ctx.thorough() else reads[:3]):
                for w in "cs":
                    o = "s" if w == "c" else "c"
                    ops = []
                    data = [b"abc", b"defg", b"h"]
                    for k in range(4):
                        if k == pos:
                            if ev[0] == "alert":
                                ops.append((w, "inject") + ev)
                            elif ev[0] == "kill":
                                ops.append((o,) + ev)               # the READER's transport dies
                            else:
                                ops.append((w,) + ev)
                        if k < 3:
                            ops.append((w, "write", data[k]))
                    for mx, mn in rd:
                        ops.append((o, "read", mx, mn))
                    ops += [(o, "write", b"reply"), (w, "read", None, 0), (w, "read", None, 0), (w, "write", b"more"),
                            (o, "read", None, 0)]
                    yield ops


def fault_histories(rng, n):
    """a data exchange with the transport of one endpoint dying / being aborted at a random point"""
    for _ in range(n):
        ops = []
        m = rng.randrange(4, 14)
        cut = rng.randrange(m)
        for k in range(m):
            w = rng.choice("cs")
            if k == cut:
                ops.append((rng.choice("cs"),) + rng.choice([("kill", 1, "pipe"), ("kill", 2, "reset"), ("kill", 1, "reset"),
                                                              ("kill", 1, "timeout"), ("kill", 2, "eio", "eio"),
                                                              ("kill", 2, "pipe", "timeout"), ("abort",)]))
            x = rng.random()
            if x < 0.4:
                ops.append((w, "write", rb(rng, rng.choice([0, 1, 5, 40]))))
            elif x < 0.8:
                ops.append((w, "read", rng.choice([None, 3]), rng.choice([0, 1, 4])))
            elif x < 0.88:
                ops.append((w, "ku", rng.randrange(2)))
            elif x < 0.93:
                ops.append((w, "hb", rb(rng, 4), 16))
            elif x < 0.96:
                ops.append((w, "makefile"))
            else:
                ops.append((w, "close"))
        for _ in range(2):
            ops += [("c", "read", None, 0), ("s", "read", None, 0), ("c", "write", b"x"), ("s", "write", b"y")]
        yield ops


def run_data(ctx, lc, cfg, ops, kind):
    cn = _conn.Conn(**cfg)
    if not cn.ok:
        ctx.count("handshake-failed")
        return None
    orc = DataOracle(cfg)
    impl = []
    lines = cn.model_init()
    n_init = len(lines)
    for i, op in enumerate(ops):
        line, res = cn.run_op(op)
        impl.append(line)
        lines.append(_conn.Conn.op_line(op))
        orc.after(cn, op, res, i)
    orc.check_after_orderly(cn)
    rep = {"stage": kind, "cfg": cfg_json(cfg), "ops": [op_json(o) for o in ops]}
    ctx.case(key=(kind, repr(sorted(cfg.items())), repr(ops)), sample=dict(rep, impl=impl) if ctx.evaluations % 307 == 0 else None)
    ctx.count("history:" + kind)
    ctx.count("version:%d.%d" % cfg["ver"])
    for key, what in orc.problems:
        ctx.violation(key, what, dict(rep, problem=key))
    if lc is not None:
        out = lc.batch(lines)[n_init:]
        ctx.compared(len(ops))
        for i, (a, b) in enumerate(zip(impl, out)):
            if a != b:
                ctx.disagree("conn-data-history", dict(rep, at=i, op=op_json(ops[i])), b, a)
                break
    return cn, orc, impl


def cfg_json(cfg):
    return {k: (list(v) if isinstance(v, tuple) else v) for k, v in cfg.items()}


def cfg_unjson(j):
    return {k: (tuple(v) if isinstance(v, list) else v) for k, v in j.items()}


def close_reply_cases(ctx, lc):
    """the peer closes in order (close_notify), our own transport can no longer send: for every kind of
    send failure the lab supports the read must still end the orderly way (buffered data, then b''),
    the session stays resumable"""
    kinds = [(tx, rx) for tx in ("pipe", "reset", "timeout", "eio") for rx in ((1,), (2, "reset"), (2, "timeout"))]
    vers = [(3, 4), (3, 3), (3, 1), (3, 0)] if ctx.thorough() else [(3, 4), (3, 3)]
    for ver in vers:
        for cs in ((True, True), (False, False)):
            for tx, rx in kinds:
                for closer in "cs":
                    for how in ("close", "alert"):
                        for kill_first in (True, False):
                            o = "s" if closer == "c" else "c"
                            cfg = dict(ver=ver, client_cert=False, tickets=0, hb=False, close_socket=cs,
                                       cipher=None if ver >= (3, 3) else "aes128")
                            kill = (o, "kill", rx[0], tx) + tuple(rx[1:])
                            fin = (closer, "close") if how == "close" else (closer, "inject", "alert", 1, 0)
                            ops = [(closer, "write", b"last words")]
                            ops += [kill, fin] if kill_first else [fin, kill]
                            ops += [(o, "read", 4, 1), (o, "read", None, 1), (o, "read", None, 1), (o, "read", None, 0)]
                            r = run_data(ctx, lc, cfg, ops, "close-reply")
                            ctx.count("close-reply:tx-%s" % tx)
                            if r is None:
                                continue
                            cn, orc, impl = r
                            conn = cn.conn(o)
                            outs = [line.split()[0] for line in impl[3:]]
                            ok = all(x.startswith("bytes:") for x in outs) and outs[-1] == "bytes:-" and \
                                "".join(x[6:] for x in outs if x != "bytes:-") == b"last words".hex()
                            if not ok or not conn.closed or not conn.session.resumable:
                                ctx.violation("c17:close-notify-reply-failure-not-forgiven",
                                              "%s after close_notify with own sends failing (%s, receive side %r): reads gave %r, closed=%s, "
                                              "resumable=%s; expected the buffered data, then b'', session resumable"
                                              % (cn.c.getVersionName() or ver, tx, rx, outs, conn.closed, conn.session.resumable),
                                              {"stage": "close-reply", "cfg": cfg_json(cfg), "ops": [op_json(x) for x in ops]})


def refcount_cases(ctx, lc):
    """makefile() reference counting and the two directions' close in every order: with k file objects
    outstanding only the (k+1)-th close() closes; then both ends close, reads drain, sessions stay resumable"""
    for ver in ((3, 4), (3, 3)):
        for cs in ((True, True), (False, False), (True, False), (False, True)):
            for k in (0, 1, 2):
                for first in "cs":
                    o = "s" if first == "c" else "c"
                    cfg = dict(ver=ver, client_cert=False, tickets=0, hb=False, close_socket=cs)
                    ops = [(first, "makefile")] * k + [(first, "write", b"bye")]
                    for i in range(k):
                        ops += [(first, "close"), (o, "read", None, 0), (first, "write", b"!")]
                    ops += [(first, "close"), (o, "write", b"late"), (o, "read", None, 1), (o, "read", None, 1), (o, "close"),
                            (first, "read", None, 0), (first, "read", None, 0), (o, "read", None, 0), (first, "close"),
                            (first, "write", b"x"), (o, "write", b"y")]
                    r = run_data(ctx, lc, cfg, ops, "refcount")
                    ctx.count("refcount-case:k=%d" % k)
                    if r is None:
                        continue
                    cn, orc, impl = r
                    a, b = cn.conn(first), cn.conn(o)
                    if not (a.closed and b.closed and a.session.resumable and b.session.resumable):
                        ctx.violation("c17:orderly-close-both-directions",
                                      "%s closeSocket=%s, %d file objects: after both ends closed in order: closed %s/%s, resumable %s/%s"
                                      % (ver, cs, k, a.closed, b.closed, a.session.resumable, b.session.resumable),
                                      {"stage": "refcount", "cfg": cfg_json(cfg), "ops": [op_json(x) for x in ops]})


def session_history_cases(ctx, lc):
    """one session across several connections (server SessionCache, session-ID resumption): a fatal end of ANY
    connection that used the session - also of one that was itself resumed - must prevent the next resumption;
    orderly closes keep it resumable"""
    from harness import lab
    from tlslite.sessioncache import SessionCache
    from tlslite.messages import Alert
    vers = [(3, 3), (3, 1)] if not ctx.thorough() else [(3, 3), (3, 2), (3, 1), (3, 0)]
    histories = ["o", "oo", "t", "a", "s", "ot", "oa", "os", "oot", "ooa", "oto", "oao", "oso", "ooo"]
    # stateless tickets: only the CLIENT holds state, so only ends that are a failure for the client are judged
    ticket_histories = ["o", "oo", "s", "os", "oos", "ooo"]   # (after a failure the next full handshake starts a NEW session)
    chain, key = lab.creds("rsa")
    plans = [(ver, "id", h) for ver in vers for h in histories]
    plans += [((3, 3), "ticket", h) for h in ticket_histories] + [((3, 4), "psk", h) for h in ticket_histories]
    for ver, flavour, hist in plans:
        if True:
            cache = SessionCache() if flavour == "id" else None
            session = None
            trace = []
            ok_setup = True
            for i, end in enumerate(hist + "?"):
                if ver == (3, 4):
                    cs, ss = _conn.tls13_settings(), _conn.tls13_settings()
                else:
                    cs, ss = lab.settings(minv=ver, maxv=ver), lab.settings(minv=ver, maxv=ver)
                if flavour != "id":
                    ss.ticketKeys = [bytearray(b"\x29" * 32)]
                L = lab.Lab()
                kw = {"session": session} if session is not None else {}
                skw = {"sessionCache": cache} if cache is not None else {}
                L.start_client(lambda c: c.handshakeClientCert(settings=cs, async_=True, **kw))
                L.start_server(lambda c: c.handshakeServerAsync(certChain=chain, privateKey=key, settings=ss, **skw))
                L.run()
                if L.client.state != "done" or L.server.state != "done":
                    ok_setup = False
                    break
                if ver == (3, 4):
                    for _ in range(3):
                        L.read("client", min=0)          # TLS 1.3 tickets arrive after the handshake
                c, sv = L.client.conn, L.server.conn
                trace.append("resumed=%d/%d" % (c.resumed, sv.resumed))
                if session is None or flavour == "psk":
                    session = c.session                   # (TLS 1.3: the tickets live in the connection's own session)
                if end == "?":
                    break
                if end == "o":
                    L.op("client", c.closeAsync(), pump_other=False)
                    r = L.read("server")
                    trace.append("orderly:%s" % r[0])
                elif end == "t":
                    L.link.closed["c2s"] = True
                    L.link.activity += 1
                    r = L.read("server")
                    trace.append("truncated:%s" % (lab.exc_class(r[1]) if r[0] == "error" else r[0]))
                elif end == "a":
                    L.op("client", c._sendMsg(Alert().create(40, 2)), pump_other=False)
                    r = L.read("server")
                    trace.append("alert-to-server:%s" % (lab.exc_class(r[1]) if r[0] == "error" else r[0]))
                elif end == "s":
                    L.op("server", sv._sendMsg(Alert().create(40, 2)), pump_other=False)
                    r = L.read("client")
                    trace.append("alert-to-client:%s" % (lab.exc_class(r[1]) if r[0] == "error" else r[0]))
            case = {"stage": "session-history", "ver": list(ver), "flavour": flavour, "history": hist, "trace": trace}
            ctx.case(key=("session-history", ver, flavour, hist), sample=case if hist == "ot" else None)
            ctx.count("session-history:" + ("fatal" if any(x != "o" for x in hist) else "orderly"))
            if not ok_setup:
                ctx.count("session-history-setup-failed")
                continue
            # (a TLS 1.3 server does not set .resumed after a PSK handshake - C13's observation; the client does)
            resumed = bool(c.resumed and (sv.resumed or flavour == "psk"))
            any_resumed = bool(c.resumed or sv.resumed)
            fatal = any(x != "o" for x in hist)
            if fatal and any_resumed:
                ctx.violation("c17:session-resumed-after-fatal-failure",
(                              "TLS %s [" + flavour + "], connection history %r (o orderly close, t truncation, a/s fatal alert to server/client): the next "
                              "handshake RESUMED the session although a connection using it ended with a fatal failure; %s")
                              % (ver, hist, " ".join(trace)), case)
            if not fatal and not resumed:
                ctx.violation("c17:session-not-resumable-after-orderly-close",
                              "TLS %s, history %r of orderly closes: the next handshake did not resume; %s" % (ver, hist, " ".join(trace)), case)
            if lc is not None:
                m = lc.ask("sessionafter " + "".join("o" if x == "o" else "f" for x in hist))
                ctx.compared()
                if m != "resumes=%d" % resumed:
                    ctx.disagree("sessionAfter", case, m, "resumes=%d" % resumed)


def keyed_cases(ctx, lc):
    """the deviations found earlier (repaired in /repo), kept as directed oracle cases"""
    base = dict(ver=(3, 4), client_cert=True, tickets=0)
    cases = [
        ("write-after-orderly-close", base, [("c", "close"), ("s", "read", None, 1), ("s", "write", b"x"), ("c", "write", b"y")]),
        ("write-after-orderly-close-tls12", dict(ver=(3, 3), client_cert=False), [("s", "close"), ("c", "read", None, 1), ("c", "write", b"x")]),
        ("keyupdate-send-failure-with-pending-data", base,
         [("s", "write", b"pending data"), ("c", "kill", 2), ("c", "ku", 1), ("c", "read", None, 1), ("c", "read", None, 0)]),
        ("pha-request-send-failure-with-pending-data", base,
         [("c", "write", b"pending data"), ("s", "kill", 1), ("s", "pha"), ("s", "read", None, 1)]),
        ("truncation-with-partly-read-buffer", dict(ver=(3, 3), client_cert=False),
         [("c", "write", b"abc"), ("c", "abort"), ("s", "read", 2, 2), ("s", "read", None, 5), ("s", "read", None, 0)]),
        ("truncation-with-partly-read-buffer-tls13", base,
         [("s", "write", b"abcdef"), ("s", "abort"), ("c", "read", 4, 1), ("c", "read", None, 3), ("c", "read", None, 0)]),
        ("heartbeat-send-failure", base, [("c", "kill", 1), ("c", "hb", b"ping", 16), ("c", "read", None, 0)]),
        ("keyupdate-send-failure", base, [("c", "kill", 1), ("c", "ku", 0), ("c", "read", None, 0)]),
        ("heartbeat-response-send-failure", base,
         [("c", "kill", 1), ("s", "hb", b"ping", 16), ("s", "write", b"secret data"), ("c", "read", None, 1), ("c", "read", None, 0)]),
        ("heartbeat-response-send-failure-tls12", dict(ver=(3, 3), client_cert=False),
         [("s", "kill", 2), ("c", "hb", b"ping", 16), ("c", "write", b"secret data"), ("s", "read", None, 1), ("s", "read", None, 0)]),
    ]
    for label, cfg, ops in cases:
        r = run_data(ctx, lc, cfg, ops, "keyed:" + label)
        ctx.count("keyed-case:" + label)
        if r is None:
            continue
        cn, orc, impl = r
        if label.startswith("heartbeat-response-send-failure"):
            # the reader must get the peer's plaintext or an error, never anything else
            reader = "c" if cfg["ver"] == (3, 4) else "s"
            for line in impl:
                if line.startswith("bytes:") and line.split()[0] not in ("bytes:-", "bytes:" + b"secret data".hex()):
                    ctx.violation("c17:heartbeat-response-send-failure-yields-ciphertext",
                                  "%s: read returned %s after the heartbeat response could not be sent" % (label, line.split()[0]),
                                  {"stage": "keyed:" + label, "cfg": cfg_json(cfg), "ops": [op_json(o) for o in ops]})


# ------------------------------------------------------------------------------------------------
def run(ctx):
    ctx.rule = ("(A) every (flavour, endpoint, recv|send call index, fault kind) of the enumerated handshake flavours, index range from a "
                "clean run, whole-buffer and chunked transport, plus a peer alert waiting at a failed ClientHello send; (B) every placement "
                "of close_notify / warning / fatal alert / abort / dying transport / close relative to three writes x read patterns x "
                "version x closeSocket x ignoreAbruptClose, seeded fault histories, and the directed cases of earlier findings; "
                "distinct = distinct (flavour, fault) resp. (configuration, history)")
    ctx.assumptions = ["a transport fault makes the transport dead from that call on (receives: queued bytes, then EOF/reset; sends: EPIPE/reset), "
                       "the peer sees EOF",
                       "a write failure with ignoreAbruptClose=True may leave the session resumable (the user's opt-out, as documented in writeAsync)"]
    lc = ctx.lean()
    rng = ctx.rng
    keyed_cases(ctx, lc)
    close_reply_cases(ctx, lc)
    refcount_cases(ctx, lc)
    session_history_cases(ctx, lc)
    handshake_faults(ctx, lc)
    handshake_alerts(ctx, lc)
    cfgs = list(data_cfgs(rng, ctx.pick(3, 8)))
    # closeSocket x ignoreAbruptClose exhaustively on one TLS 1.3 and one TLS 1.2 configuration
    for ver in ((3, 4), (3, 3)):
        for cs in ((True, True), (False, False), (True, False)):
            for ia in ((False, False), (True, True)):
                cfgs.append(dict(ver=ver, client_cert=False, tickets=0, hb=False, close_socket=cs, ignore_abrupt=ia))
    pairs = [(cfg, ops) for cfg in cfgs for ops in placement_histories(ctx)]
    ctx.extra["placement_histories_total"] = len(pairs)
    if not ctx.thorough():
        # quick tier: a seeded sample of FIXED size of the full product (load independent: never cut by time)
        rng.shuffle(pairs)
        pairs = pairs[:900]
    done = 0
    for cfg, ops in pairs:
        run_data(ctx, lc, cfg, ops, "placement")
        done += 1
    ctx.extra["placement_histories_run"] = done
    # only this random bulk may be cut by the time budget
    t_end = ctx.elapsed() + ctx.pick(25.0, 150.0)
    cut = False
    for cfg in data_cfgs(rng, ctx.pick(40, 400)):
        for ops in fault_histories(rng, 6):
            if ctx.elapsed() > t_end:
                cut = True
                break
            run_data(ctx, lc, cfg, ops, "fault")
        if cut:
            break
    if cut:
        ctx.count("cut-by-budget:random-fault-histories")


def replay(ctx, rep):
    inp = rep["input"]
    lc = ctx.lean()
    st = inp.get("stage", "")
    if st.startswith("handshake-fault"):
        from harness import lab
        for name, ver, opt in FLAVOURS:
            for chunk in (None, 160, 48):
                fl = Flavour(name, ver, opt, chunk=chunk)
                if fl.name == inp["flavour"]:
                    session = fl.original_session() if opt.get("resume") else None
                    if st == "handshake-fault":
                        L, socks = fl.run(fault=(inp["who"], inp["call"], inp["index"], inp["fault"]), session=session)
                        dx = end_desc(lab, L.end(inp["who"]))
                        print("outcome now:", dx, " recorded:", inp["outcome"])
                        bad = dx["state"] != "error" or dx["exc"] not in ("socket_error", "abrupt_close") or not dx["closed"] or dx["session"]
                        return bool(bad)
                    alert = bytes([21, 3, 1, 0, 2, 2, inp["alert"]])
                    L, socks = fl.run(fault=("client", "send", 0, "pipe"), session=session, pending_alert=alert)
                    dx = end_desc(lab, L.client)
                    print("outcome now:", dx)
                    return dx["exc"] != "remote_alert:%d" % inp["alert"] or not dx["closed"]
        print("unknown flavour", inp.get("flavour"))
        return True
    if st == "session-history":
        session_history_cases(ctx, lc)
        for v in ctx.violations:
            print("oracle:", v["key"], v["what"])
        return bool(ctx.violations or ctx.disagreements)
    if st == "handshake-alert":
        handshake_alerts(ctx, lc)
        for v in ctx.violations:
            print("oracle:", v["key"], v["what"])
        return bool(ctx.violations or ctx.disagreements)
    if "ops" in inp:
        cfg = cfg_unjson(inp["cfg"])
        ops = [op_unjson(o) for o in inp["ops"]]
        r = run_data(ctx, lc, cfg, ops, st or "replay")
        if r is not None:
            for line, op in zip(r[2], ops):
                print("  %-44s -> %s" % (_conn.Conn.op_line(op), line))
            if st.startswith("keyed:heartbeat-response"):
                for line in r[2]:
                    if line.startswith("bytes:") and line.split()[0] not in ("bytes:-", "bytes:" + b"secret data".hex()):
                        print("oracle: undecrypted bytes returned:", line.split()[0])
                        return True
        for v in ctx.violations:
            print("oracle:", v["key"], v["what"])
        for d in ctx.disagreements:
            print("model/impl differ at", d["case"].get("at"), "model:", d["model"], "impl:", d["impl"])
        return bool(ctx.violations or ctx.disagreements)
    print("re-running the whole check")
    run(ctx)
    return bool(ctx.violations or ctx.disagreements)
