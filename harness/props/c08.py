"""C08 — malformed peer input fails cleanly, promptly and within bounded memory (PARTIAL claim).

Proved (lean/Props/C08.lean over lean/TlsModel/ErrPath.lean): the "try again" loops of
_getMsg/_getNextRecord make progress on every iteration and do linear work; every modelled error
kind ends in (fatal alert of the tabled description first, closed, not resumable, documented
exception family); the semantic ClientHello/ServerHello check sequences end in an alert or pass for
EVERY combination of the modelled hello features (full strength since the fix: commits; the former
escapes are regression theorems); a CompressedCertificate is accepted only if the output length
equals the declared length <= 2^24 and at most declared+1 bytes are materialised.

Tie: five differential streams against the real code (loop, error table, ClientHello checks,
ServerHello checks, decompression rule).  Explored, not proved (this module): structured mutation
of real flights captured from lab handshakes in both roles, record-level injection, post-handshake
traffic, corpus/C08 (one reproducer per defect found so far); the oracle is the property text.
"""
import json
import os
import signal
import socket
import tracemalloc

from . import c08_mut as M

TRANSLATORS = ["errpath"]

MANIFEST = {
    "text": "Partial. Proof (Lean 4): the _getMsg/_getNextRecord retry loops, modelled over a finite list of records with the "
            "Defragmenter, strictly decrease an explicit measure on every iteration (no spin without consuming input) and "
            "do work linear in records+bytes; every modelled error kind (record-level and message-level exception-to-alert "
            "tables, in-line checks, received alerts, transport failures) ends with a fatal alert of the tabled description "
            "written first, the connection closed, the session not resumable and an exception of the documented family; the "
            "semantic ClientHello and ServerHello check sequences, modelled over abstract extension features (absent / present / "
            "duplicated / without payload / empty lists / mismatching counts ...) with every Python dereference as Except, end "
            "in an alert or pass for every feature combination (hello_checks_total, server_hello_checks_total); compressed "
            "certificates are accepted only when the decompressed length equals the declared length <= 2^24 and never more than "
            "declared+1 bytes are materialised. Exploration (not proof): field-, length-, type- and "
            "value-level mutations of every message and extension of real lab handshakes (SSLv3..TLS1.3, RSA/DHE/ECDHE/"
            "ECDSA/PSK/SRP/anon, client auth, resumption, HRR), malformed certificates and key shares, compressed-certificate "
            "bombs, oversized/empty/unknown/SSLv2 records, post-handshake messages; each case judged by the property text: "
            "exception family, fatal alert on the wire first, closed, not resumable, bounded steps, peak memory.",
    "note": "Residual (explored only): unmodelled statements of tlsconnection.py, X.509/ASN.1 code, key exchange arithmetic, "
            "memory and wall-clock. Model/implementation tie: differential runs of the loop model, the error table and the "
            "hello check sequences against the real TLSConnection; by regeneration (translate/gen_errpath.py -> "
            "TlsModel/Gen/ErrPath.lean, re-read from the AST on every run): every except clause of tlsrecordlayer.py / "
            "tlsconnection.py equals the reviewed table and the record-layer rows agree with the model's codeDesc; every "
            "parse call of _getMsg sits under handlers that turn each exception class the parsers raise into a fatal alert; "
            "every attribute / index use of a getExtension result is dominated by a presence test (decided by enumeration of "
            "its path condition) or by a listed cross-function check that still exists; the decompression bounds are the "
            "modelled ones.",
    "technique": "Lean 4 proofs over a hand-written model + AST-regenerated tables with kernel-decided obligations + "
                 "differential correspondence + structured mutation fuzzing with a "
                 "property-text oracle (tracemalloc, step counters, wire inspection)",
}

BAD_PY = "python:"
MEM_FACTOR = 64
MEM_CONST = 8 << 20
STEP_FACTOR = 50
STEP_CONST = 400
HANG_SECONDS = 12


class Hang(BaseException):
    """raised by the watchdog inside whatever code is running: no progress for HANG_SECONDS"""


class RawMessage(object):
    """what a cooperating faulty peer sends instead of a well-formed message"""

    def __init__(self, contentType, data):
        self.contentType = contentType
        self.data = bytearray(data)

    def write(self):
        return self.data

    def splitFirstByte(self):
        first = RawMessage(self.contentType, self.data[:1])
        self.data = self.data[1:]
        return first


# ---------------------------------------------------------------------------------------------
# scenarios
class Scn(object):
    def __init__(self, name, ver, c=None, s=None, cred="rsa", ckw=None, skw=None, kx="", kind="cert",
                 prep=None, cost=1):
        self.name, self.ver, self.c, self.s, self.cred = name, ver, c or {}, s or {}, cred
        self.ckw, self.skw, self.kx, self.kind, self.prep, self.cost = ckw or {}, skw or {}, kx, kind, prep, cost

    def settings(self, which):
        from harness import lab
        kw = dict(self.c if which == "c" else self.s)
        kw.setdefault("minVersion", self.ver if not isinstance(self.ver, list) else self.ver[0])
        kw.setdefault("maxVersion", self.ver if not isinstance(self.ver, list) else self.ver[1])
        minv, maxv = kw.pop("minVersion"), kw.pop("maxVersion")
        if maxv >= (3, 4) and "eccCurves" not in kw:
            kw["eccCurves"] = ["secp256r1", "x25519", "secp384r1"]
        return lab.settings(minv=minv, maxv=maxv, **kw)

    def start(self, L, state=None):
        """start both generators on a fresh lab"""
        from harness import lab
        cs, ss = self.settings("c"), self.settings("s")
        ckw, skw = dict(self.ckw), dict(self.skw)
        for k in ("certChain",):
            if ckw.get(k) == "client_rsa":
                ch, key = lab.creds("client_rsa")
                ckw["certChain"], ckw["privateKey"] = ch, key
        if state:
            ckw.update(state.get("ckw", {}))
            skw.update(state.get("skw", {}))
        if self.kind == "cert":
            chain, key = lab.creds(self.cred)
            L.start_client(lambda c: c.handshakeClientCert(settings=cs, async_=True, **ckw))
            L.start_server(lambda c: c.handshakeServerAsync(certChain=chain, privateKey=key, settings=ss, **skw))
        elif self.kind == "srp":
            from tlslite.verifierdb import VerifierDB
            db = _srp_db()
            L.start_client(lambda c: c.handshakeClientSRP("alice", "secret", settings=cs, async_=True, **ckw))
            L.start_server(lambda c: c.handshakeServerAsync(verifierDB=db, settings=ss, **skw))
        elif self.kind == "anon":
            L.start_client(lambda c: c.handshakeClientAnonymous(settings=cs, async_=True, **ckw))
            L.start_server(lambda c: c.handshakeServerAsync(anon=True, settings=ss, **skw))
        elif self.kind == "psk":
            L.start_client(lambda c: c.handshakeClientCert(settings=cs, async_=True, **ckw))
            L.start_server(lambda c: c.handshakeServerAsync(settings=ss, **skw))
        else:
            raise ValueError(self.kind)


_SRP = {}


def _srp_db():
    if "db" not in _SRP:
        from tlslite.verifierdb import VerifierDB
        db = VerifierDB()
        db.create()
        db[b"alice"] = VerifierDB.makeVerifier("alice", "secret", 1024)
        _SRP["db"] = db
    return _SRP["db"]


def prep_resume(scn):
    """first handshake, then hand the session (and a server-side cache) to the second one"""
    from harness import lab
    from tlslite.sessioncache import SessionCache
    cache = SessionCache()
    L = lab.Lab()
    scn.start(L, {"skw": {"sessionCache": cache}})
    L.run()
    if L.client.state != "done" or L.server.state != "done":
        return None
    if scn.ver >= (3, 4):
        # the tickets arrive with the first read
        L.write("server", b"x")
        L.read("client", max=1)
    sess = L.client.conn.session
    return {"ckw": {"session": sess}, "skw": {"sessionCache": cache}}


def all_scenarios():
    T10, T11, T12, T13, S3 = (3, 1), (3, 2), (3, 3), (3, 4), (3, 0)
    psk = [(b"test-id", b"\xaa" * 32, "sha256")]
    S = [
        Scn("tls12-ecdhe-rsa", T12, kx="ecdhe_rsa", ckw={"serverName": "example.com", "alpn": [b"h2", b"http/1.1"]},
            skw={"alpn": [b"http/1.1"]}),
        Scn("tls13-x25519", T13, kx="tls13", ckw={"serverName": "example.com", "alpn": [b"h2"]}, skw={"alpn": [b"h2"]}),
        Scn("tls13-nocompress", T13, kx="tls13", c={"certificate_compression_receive": [], "certificate_compression_send": []},
            s={"certificate_compression_receive": [], "certificate_compression_send": []}),
        Scn("tls13-clientauth", T13, kx="tls13", ckw={"certChain": "client_rsa"}, skw={"reqCert": True}),
        Scn("tls13-clientauth-nocompress", T13, kx="tls13", ckw={"certChain": "client_rsa"}, skw={"reqCert": True},
            c={"certificate_compression_receive": [], "certificate_compression_send": []},
            s={"certificate_compression_receive": [], "certificate_compression_send": []}),
        Scn("tls13-reqcert-nocert", T13, kx="tls13", skw={"reqCert": True},
            c={"certificate_compression_receive": [], "certificate_compression_send": []},
            s={"certificate_compression_receive": [], "certificate_compression_send": []}),
        Scn("tls12-clientauth", T12, kx="ecdhe_rsa", ckw={"certChain": "client_rsa"}, skw={"reqCert": True}),
        Scn("tls12-rsa", T12, c={"keyExchangeNames": ["rsa"]}, kx="rsa"),
        Scn("tls12-dhe", T12, c={"keyExchangeNames": ["dhe_rsa"]}, kx="dhe_rsa"),
        Scn("tls12-ecdsa", T12, cred="ecdsa", kx="ecdhe_ecdsa"),
        Scn("ssl3-rsa", S3, c={"keyExchangeNames": ["rsa"]}, kx="rsa"),
        Scn("ssl3-dhe", S3, c={"keyExchangeNames": ["dhe_rsa"]}, kx="dhe_rsa"),
        Scn("tls10-ecdhe", T10, kx="ecdhe_rsa"),
        Scn("tls10-clientauth", T10, c={"keyExchangeNames": ["dhe_rsa"]}, kx="dhe_rsa", ckw={"certChain": "client_rsa"},
            skw={"reqCert": True}),
        Scn("tls11-dhe", T11, c={"keyExchangeNames": ["dhe_rsa"]}, kx="dhe_rsa"),
        Scn("tls11-rsa-3des", T11, c={"keyExchangeNames": ["rsa"], "cipherNames": ["3des"]}, kx="rsa"),
        Scn("tls10-rsa-aes-noetm", T10, c={"keyExchangeNames": ["rsa"], "cipherNames": ["aes128"], "useEncryptThenMAC": False},
            kx="rsa"),
        Scn("tls12-cbc-etm", T12, c={"cipherNames": ["aes128"], "macNames": ["sha"]}, kx="ecdhe_rsa"),
        Scn("tls12-cbc-noetm", T12, c={"cipherNames": ["aes256"], "macNames": ["sha256"], "useEncryptThenMAC": False},
            kx="ecdhe_rsa"),
        Scn("tls11-cbc-noetm", T11, c={"cipherNames": ["aes128"], "useEncryptThenMAC": False}, kx="ecdhe_rsa"),
        Scn("tls10-cbc-etm", T10, c={"cipherNames": ["3des"]}, kx="ecdhe_rsa"),
        Scn("tls12-rc4", T12, c={"cipherNames": ["rc4"]}, s={"cipherNames": ["rc4"]}, kx="rsa"),
        Scn("tls13-hrr", T13, kx="tls13", c={"keyShares": ["x25519"]},
            s={"eccCurves": ["secp256r1"], "keyShares": ["secp256r1"]}),
        Scn("tls13-psk", T13, kx="tls13", kind="psk", c={"pskConfigs": psk}, s={"pskConfigs": psk}),
        Scn("tls13-psk-ke", T13, kx="tls13", kind="psk", c={"pskConfigs": psk, "psk_modes": ["psk_ke"]},
            s={"pskConfigs": psk, "psk_modes": ["psk_ke"]}),
        Scn("tls13-ffdhe", T13, kx="tls13", c={"keyShares": ["ffdhe2048"], "dhGroups": ["ffdhe2048"], "eccCurves": ["secp256r1"]},
            s={"keyShares": ["ffdhe2048"], "dhGroups": ["ffdhe2048"], "eccCurves": ["secp256r1"]}),
        Scn("tls13-ed25519", T13, cred="ed25519", kx="tls13"),
        Scn("tls13-resume", T13, kx="tls13", prep=prep_resume, cost=3, s={"ticketKeys": [b"\x11" * 32]}),
        Scn("tls13-tickets", T13, kx="tls13", s={"ticketKeys": [b"\x11" * 32], "ticket_count": 2}),
        Scn("tls12-resume", T12, kx="ecdhe_rsa", prep=prep_resume, cost=2),
        Scn("tls12-tickets", T12, kx="ecdhe_rsa", s={"ticketKeys": [b"\x11" * 32]}),
        Scn("tls12-resume-sni", T12, kx="ecdhe_rsa", prep=prep_resume, cost=2, ckw={"serverName": "example.com"}),
        Scn("tls12-ticket-resume", T12, kx="ecdhe_rsa", prep=prep_resume, cost=2, s={"ticketKeys": [b"\x11" * 32]}),
        Scn("tls12-srp", T12, kind="srp", kx="srp"),
        Scn("tls12-anon", T12, kind="anon", kx="dh_anon"),
        Scn("tls12-npn", T12, kx="ecdhe_rsa", ckw={"nextProtos": [b"http/1.1"]}, skw={"nextProtos": [b"http/1.1"]}),
        Scn("tls12-ecdsa-chacha", T12, cred="ecdsa", kx="ecdhe_ecdsa", c={"cipherNames": ["chacha20-poly1305"]}),
        Scn("tls13-down-12", [(3, 1), (3, 4)], kx="ecdhe_rsa", s={"minVersion": (3, 1), "maxVersion": (3, 3)}),
    ]
    return S


# ---------------------------------------------------------------------------------------------
# running one case
class Watchdog(object):
    def __init__(self, seconds=HANG_SECONDS):
        self.seconds = seconds

    def __enter__(self):
        def handler(signum, frame):
            raise Hang("no completion within %d s" % self.seconds)
        self.old = signal.signal(signal.SIGALRM, handler)
        signal.setitimer(signal.ITIMER_REAL, self.seconds)
        return self

    def __exit__(self, *a):
        signal.setitimer(signal.ITIMER_REAL, 0)
        signal.signal(signal.SIGALRM, self.old)
        return False


def is_flush(conn_state, kind, msg):
    """the TLS 1.3 flush of the queued flight shows up as one 'send' of a plain Message"""
    if kind == "queue":
        conn_state["queued"] = True
        return False
    if conn_state.get("queued") and type(msg).__name__ == "Message":
        conn_state["queued"] = False
        return True
    return False


def install_capture(conn, log):
    from harness import lab
    st = {}

    def fn(kind, msg):
        if not is_flush(st, kind, msg):
            try:
                log.append((lab.msg_name(msg), msg.contentType, bytes(msg.write()), tuple(conn.version)))
            except Exception as e:   # pragma: no cover
                log.append(("unserialisable:" + type(e).__name__, 0, b"", (0, 0)))
        return [msg]
    lab.hook_messages(conn, fn)


def install_mutation(conn, target, desc, ctxm, applied):
    """replace the target-th message this endpoint sends by its mutation"""
    from harness import lab
    st = {"n": 0}
    targets = target if isinstance(target, dict) else {target: desc}

    def fn(kind, msg):
        if is_flush(st, kind, msg):
            return [msg]
        i = st["n"]
        st["n"] += 1
        if i not in targets:
            return [msg]
        desc = targets[i]
        data = bytes(msg.write())
        applied["orig"] = data
        applied["ctype"] = msg.contentType
        op = desc["op"]
        try:
            if op == "drop_msg":
                applied["sent"] = b""
                return []
            if op == "wrong_ctype":
                applied["sent"] = data
                return [RawMessage(desc["ctype"], data)]
            if op == "insert_before":
                applied["sent"] = bytes.fromhex(desc["data"])
                return [RawMessage(desc.get("ctype", msg.contentType), applied["sent"]), msg]
            if op == "insert_after":
                applied["sent"] = bytes.fromhex(desc["data"])
                return [msg, RawMessage(desc.get("ctype", msg.contentType), applied["sent"])]
            c2 = dict(ctxm)
            c2["version"] = desc.get("pver") or ctxm.get("version")
            out = M.mutate(data, c2, desc)
        except M.ParseFail:
            applied["inapplicable"] = True
            return [msg]
        applied["sent"] = out
        return [RawMessage(msg.contentType, out)]
    lab.hook_messages(conn, fn)




# ---------------------------------------------------------------------------------------------
# the oracle (property text) and violation keys
def exc_site(exc):
    """(function, source line) of the innermost tlslite frame of the traceback"""
    import linecache
    tb = exc.__traceback__
    site = ("?", "")
    while tb is not None:
        fn = tb.tb_frame.f_code.co_filename
        if "/tlslite/" in fn:
            site = (tb.tb_frame.f_code.co_name, linecache.getline(fn, tb.tb_lineno).strip())
        tb = tb.tb_next
    return site


def slug(text, n=56):
    import re
    return re.sub(r"[^A-Za-z0-9_.\[\]=<>!-]", "", str(text).replace(" ", ""))[:n]


def msgslug(text, words=7):
    import re
    w = re.findall(r"[A-Za-z0-9_]+", str(text))
    return "-".join(x.lower() for x in w[:words]) or "x"


# root causes that were named in advance (DESIGN.md section 7 item 4); everything else gets a key derived
# from exception type + function + source line / message
NAMED = [
    (lambda name, fn, line, cls: name == "memory" and "declared-max" in (cls or ""),
     "c08:compressed-certificate-declared-max-length-16MB-memory"),
    (lambda name, fn, line, cls: name == "TLSInternalError" and fn == "getExtension", "c08:duplicate-extension-no-alert"),
    (lambda name, fn, line, cls: name == "AttributeError" and "decoder_error" in line,
     "c08:clienthello-empty-psk-identity-AttributeError"),
    (lambda name, fn, line, cls: name == "IndexError" and "hostNames[0]" in line, "c08:sni-no-hostname-IndexError"),
    (lambda name, fn, line, cls: name == "memory" and "compressed-certificate-bomb" in (cls or ""),
     "c08:compressed-certificate-bomb-memory"),
]


def named_key(name, fn, line, cls):
    for pred, key in NAMED:
        if pred(name, fn, line, cls):
            return key
    return None


class Judge(object):
    """turns oracle failures into violations; one key per root cause (signature)"""

    def __init__(self, ctx):
        self.ctx = ctx
        self.sig2key = {}

    def key_for(self, sig, default, named=None):
        if sig in self.sig2key:
            return self.sig2key[sig]
        k = named or default
        self.sig2key[sig] = k
        return k

    def report(self, sig, default_key, text, replay, named=None):
        key = self.key_for(sig, default_key, named)
        self.ctx.violation(key, text, dict(replay, key=key))
        self.ctx.count("violation:" + key)
        return key


def judge(J, L, victim, label, replay, peak=None, named=None, after_ok=None):
    """the oracle of the property text on one finished case.
    label: short text naming message/mutation (for messages); named: dict kind->exact key."""
    from harness import lab
    from tlslite import errors
    named = named or {}
    v = L.end(victim)
    peer = L.end("client" if victim == "server" else "server")
    exc = v.exc
    cls = lab.exc_class(exc) if v.state == "error" else v.state
    out = {"state": v.state, "cls": cls, "keys": []}
    tx = "c2s" if victim == "client" else "s2c"
    rx = "s2c" if victim == "client" else "c2s"
    conn = v.conn
    msgname = replay.get("msg", "input")

    def viol(sig, default_key, text, kind):
        nk = named.get(kind) or named.get("*") or named_key(str(sig[0]), str(sig[1]), str(sig[2]) if len(sig) > 2 else "",
                                                            replay.get("cls"))
        k = J.report(sig, default_key, "%s: %s [victim=%s, scenario=%s]" % (label, text, victim, replay.get("scn")),
                     replay, nk)
        out["keys"].append(k)

    if isinstance(exc, Hang) or (isinstance(peer.exc, Hang) and v.state not in ("done", "error")):
        field = short_label(replay.get("desc", {})).split("/")[-1] if isinstance(replay.get("desc"), dict) else ""
        viol(("hang", msgname, field or replay.get("cls")),
             "c08:%s-%s-oversized-no-completion" % (msgname, field or replay.get("cls")),
             "the call did not complete within %d s (spin, or work far out of proportion to the bytes received)"
             % HANG_SECONDS, "hang")
        out["slow_field"] = (msgname, field)
        J.hangs = getattr(J, "hangs", 0) + 1
        return out
    if v.state == "stall":
        pending = len(L.link.q[rx])
        if pending:
            viol(("stall", msgname, replay.get("cls")), "c08:%s-%s-stall-with-pending-input" % (msgname, replay.get("cls")),
                 "generator keeps yielding while %d bytes of input are pending" % pending, "stall")
        return out
    if v.state == "error":
        fam_ok = isinstance(exc, (errors.TLSError, socket.error))
        name = type(exc).__name__
        fn, line = exc_site(exc)
        if not fam_ok:
            if isinstance(exc, errors.BaseTLSException):
                viol((name, fn, line), "c08:%s-escapes-without-alert-in-%s:%s" % (name, fn, msgslug(exc)),
                     "internal protocol exception %s(%s) escaped to the caller at `%s` (not a documented exception "
                     "type, no alert sent)" % (name, str(exc)[:120], line), name)
            else:
                viol((name, fn, line), "c08:%s-in-%s:%s" % (name, fn, slug(line)),
                     "unrelated Python exception %s(%s) at %s: `%s`" % (name, str(exc)[:160], fn, line), name)
        else:
            recs = L.link.records(tx)
            if isinstance(exc, errors.TLSLocalAlert):
                ok = False
                if recs:
                    t, _, body = recs[-1]
                    chunk = L.link.wire_log[tx][-1] if L.link.wire_log[tx] else b""
                    if t == 21 and len(body) == 2:
                        ok = body[0] == 2 and body[1] == exc.description
                    elif chunk[:1] == b"\x80" and chunk[2:] == bytes([2, exc.description]):
                        ok = True    # the version was switched to SSLv2 by the peer's hello: SSLv2-framed alert
                        out["ssl2_framed_alert"] = True
                    elif t in (21, 23):
                        ok = True    # encrypted: compare through the peer when it read it
                        if peer.state == "error" and isinstance(peer.exc, errors.TLSRemoteAlert):
                            ok = peer.exc.description == exc.description and peer.exc.level == 2
                if not ok:
                    viol(("alert-not-on-wire", fn, line), "c08:local-alert-%s-not-on-wire-in-%s" % (exc.description, fn),
                         "TLSLocalAlert(%s) raised but the last record written is not that fatal alert%s"
                         % (exc.description, "; the peer is left waiting for input" if peer.state == "stall" else ""),
                         "alert-not-on-wire")
                out["alert"] = exc.description
            elif isinstance(exc, (errors.TLSRemoteAlert, errors.TLSAbruptCloseError, socket.error)):
                pass
            else:
                # another TLSError raised because of what the peer sent: the property wants a fatal alert first
                if not (recs and recs[-1][0] == 21 and (len(recs[-1][2]) != 2 or recs[-1][2][0] == 2)):
                    viol((name, fn, line), "c08:%s-without-alert-in-%s:%s" % (name, fn, msgslug(exc)),
                         "%s(%s) raised at `%s` without a fatal alert on the wire" % (name, str(exc)[:120], line),
                         "no-alert")
        if not conn.closed:
            viol(("not-closed", fn), "c08:not-closed-after-%s-in-%s" % (type(exc).__name__, fn),
                 "connection not closed after %s" % cls, "not-closed")
        if conn.session is not None and conn.session.resumable and not \
                (isinstance(exc, errors.TLSRemoteAlert) and (exc.description == 0 or exc.level == 1)):
            viol(("resumable", fn), "c08:still-resumable-after-%s-in-%s" % (type(exc).__name__, fn),
                 "session still resumable after %s" % cls, "resumable")
    # bounded work
    nrec = len(L.link.records(rx, delivered=True))
    if v.steps > STEP_FACTOR * (nrec + 1) + STEP_CONST:
        viol(("steps", msgname, replay.get("cls")), "c08:%s-%s-unbounded-steps" % (msgname, replay.get("cls")),
             "%d generator steps for %d records" % (v.steps, nrec), "steps")
    if peak is not None:
        nb = len(L.link.delivered[rx])
        out["peak"] = peak
        if peak > MEM_FACTOR * nb + MEM_CONST:
            viol(("memory", msgname, replay.get("cls")), "c08:%s-%s-memory" % (msgname, replay.get("cls")),
                 "tracemalloc peak %d bytes while only %d bytes were received (limit %d*n+%d)"
                 % (peak, nb, MEM_FACTOR, MEM_CONST), "memory")
    return out


class Mem(object):
    """peak memory of a block.  mode 'rss': peak resident set growth read from /proc (VmHWM is reset before the
    block; costs microseconds, used as a screen for every case); mode 'trace': tracemalloc peak (exact for Python
    allocations, 10x slower, used to confirm a tripped screen); None when neither is available."""
    mode = "rss"
    rss_ok = None

    @staticmethod
    def _status():
        import re
        with open("/proc/self/status") as f:
            t = f.read()
        return (int(re.search(r"VmHWM:\s+(\d+)", t).group(1)) << 10, int(re.search(r"VmRSS:\s+(\d+)", t).group(1)) << 10)

    @classmethod
    def probe(cls):
        if cls.rss_ok is None:
            try:
                with open("/proc/self/clear_refs", "w") as f:
                    f.write("5")
                cls._status()
                cls.rss_ok = True
            except Exception:
                cls.rss_ok = False
        return cls.rss_ok

    def __enter__(self):
        self.peak = None
        self.kind = None
        if Mem.mode == "trace":
            tracemalloc.reset_peak()
            self.base = tracemalloc.get_traced_memory()[0]
        elif Mem.probe():
            with open("/proc/self/clear_refs", "w") as f:
                f.write("5")
            self.base = Mem._status()[1]
        return self

    def __exit__(self, *a):
        if Mem.mode == "trace":
            self.peak = max(0, tracemalloc.get_traced_memory()[1] - self.base)
            self.kind = "trace"
        elif Mem.rss_ok:
            self.peak = max(0, Mem._status()[0] - self.base)
            self.kind = "rss"
        return False


def mem_limit(L, victim):
    rx = "s2c" if victim == "client" else "c2s"
    return MEM_FACTOR * len(L.link.delivered[rx]) + MEM_CONST


def with_mem_confirm(ctx, victim, fn):
    """fn() -> (L, peak) [+ extras]; when the cheap RSS screen trips, run the case again under tracemalloc"""
    res = fn()
    L, peak = res[0], res[1]
    if L is None or peak is None or Mem.mode == "trace" or peak <= mem_limit(L, victim):
        if Mem.mode != "trace":
            res = (res[0], None) + tuple(res[2:])      # a screen value is not evidence
        return res
    ctx.count("memory-screen-tripped")
    Mem.mode = "trace"
    tracemalloc.start(1)
    try:
        res2 = fn()
    finally:
        tracemalloc.stop()
        Mem.mode = "rss"
    if res2[0] is None or res2[1] is None or res2[1] <= mem_limit(res2[0], victim):
        ctx.count("memory-screen-not-confirmed")
    return res2


# ---------------------------------------------------------------------------------------------
# handshake-message cases
class Baseline(object):
    def __init__(self, scn):
        from harness import lab
        self.scn = scn
        self.ok = False
        self.msgs = {"client": [], "server": []}
        st = scn.prep(scn) if scn.prep else None
        if scn.prep and st is None:
            return
        L = lab.Lab()
        scn.start(L, st)
        install_capture(L.client.conn, self.msgs["client"])
        install_capture(L.server.conn, self.msgs["server"])
        L.run()
        self.ok = L.client.state == "done" and L.server.state == "done"
        self.version = tuple(L.server.conn.version) if self.ok else None
        self.steps = (L.client.steps, L.server.steps)
        if self.ok:
            post_exchange(L)
        self.ctxm = {"version": self.version, "kx": scn.kx}


def post_exchange(L):
    """after a completed handshake: one application-data round trip each way, so that post-handshake
    messages sent with the handshake (NewSessionTicket) are processed by the victim too"""
    for a, b in (("server", "client"), ("client", "server")):
        if L.end(a).conn.closed or L.end(b).conn.closed:
            return
        r = L.write(a, b"ping")
        if r[0] != "ok":
            return
        r = L.read(b, max=4)
        if r[0] != "ok":
            return


def run_handshake_case(scn, side, target, desc, ctxm, close_socket=True):
    """fresh handshake in which `side` sends the mutated target-th message; returns (L, applied, peak)"""
    from harness import lab
    st = scn.prep(scn) if scn.prep else None
    if scn.prep and st is None:
        return None, {"inapplicable": True}, None
    L = lab.Lab()
    L.max_steps = 20000
    scn.start(L, st)
    applied = {}
    if not close_socket:
        # the application keeps the socket: nothing but the library's own writes tells the peer about a failure
        L.end("server" if side == "client" else "client").conn.closeSocket = False
    install_mutation(L.end(side).conn, target, desc, ctxm, applied)
    with Watchdog():
        with Mem() as m:
            try:
                L.run()
                if L.client.state == "done" and L.server.state == "done":
                    post_exchange(L)
            except MemoryError as e:    # pragma: no cover
                v = L.end("server" if side == "client" else "client")
                v.state, v.exc = "error", e
    return L, applied, m.peak


def message_level_descriptors(name, data, rng, thorough):
    out = []
    n = len(data) - 4
    lab_ = name

    def add(op, cls, **kw):
        d = {"op": op, "label": lab_, "cls": cls}
        d.update(kw)
        out.append(d)
    cuts = list(range(0, n)) if (n <= 48 or thorough and n <= 300) else \
        sorted(set(list(range(0, 12)) + [n - 1, n - 2, n - 3, n // 2] + [rng.randrange(n) for _ in range(10)]))
    for k in cuts:
        add("trunc_msg", "truncate", at=k)
    for k in (cuts if n <= 16 else [0, 1, n // 2, n - 1]):
        add("trunc_raw", "truncate-no-fixup", at=k)
    for t in ("00", "00" * 3, "ff" * 100):
        add("trail_msg", "trailing-bytes", data=t)
    add("dup_msg", "duplicate-message")
    add("drop_msg", "drop-message")
    for ct in (20, 21, 23, 24, 25, 0, 99, 255):
        add("wrong_ctype", "wrong-content-type", ctype=ct)
    for extra, nm in (("00000000", "hello_request"), ("0e000000", "server_hello_done"), ("18000001" + "00", "key_update"),
                      ("63000000", "unknown99"), ("ff000000", "unknown255"), ("01000000", "empty_client_hello"),
                      ("02000000", "empty_server_hello"), ("0b000000", "empty_certificate"), ("14000000", "empty_finished"),
                      ("04000000", "empty_nst"), ("08000000", "empty_ee"), ("19000000", "empty_compressed_cert"),
                      ("0d000000", "empty_cert_request"), ("0f000000", "empty_cert_verify"), ("10000000", "empty_cke"),
                      ("0c000000", "empty_ske"), ("05000000", "end_of_early_data"), ("fe000000", "message_hash"),
                      ("16000000", "empty_cert_status"), ("43000000", "empty_next_protocol")):
        add("insert_before", "extra-" + nm, data=extra)
    add("insert_before", "extra-warning-alert", data="0100", ctype=21)
    add("insert_before", "extra-fatal-alert", data="0228", ctype=21)
    add("insert_before", "extra-close-notify", data="0100"[:2] + "00", ctype=21)
    add("insert_before", "extra-short-alert", data="01", ctype=21)
    add("insert_before", "extra-appdata", data="41424344", ctype=23)
    add("insert_before", "extra-empty-appdata", data="", ctype=23)
    add("insert_before", "extra-ccs", data="01", ctype=20)
    add("insert_before", "extra-bad-ccs", data="02", ctype=20)
    add("insert_before", "extra-heartbeat", data="01000441424344" + "00" * 16, ctype=24)
    add("insert_before", "extra-heartbleed", data="01ffff41", ctype=24)
    add("insert_before", "extra-unknown-ctype", data="00", ctype=99)
    for pos in range(min(len(data), 6)):
        add("byte_set", "header-byte", pos=pos, value=rng.randrange(256))
    for _ in range(12 if thorough else 4):
        add("byte_set", "random-byte", pos=rng.randrange(len(data)), value=rng.choice([0, 1, 0x7f, 0x80, 0xff, rng.randrange(256)]))
    return out


def special_descriptors(root, rng):
    """value-level mutations chosen by field name (certificates, key shares, DH parameters, ...)"""
    out = []

    def add(path, cls, data):
        out.append({"path": list(path), "op": "set_bytes", "data": data, "label": M.node_label(root, path), "cls": cls})
    for path, n in root.walk():
        if n.kind != "v" or n.children is not None:
            continue
        c = n.content()
        if n.name == "cert_der" and len(c) > 20:
            for pos, val in ((0, 0x31), (0, 0x04), (0, 0x00), (1, 0x80), (1, 0x84), (1, 0xff), (2, 0xff), (4, 0x31), (5, 0x80)):
                b = bytearray(c)
                b[pos] = val
                add(path, "cert-wrong-tag", bytes(b).hex())
            for cut in (1, 2, 5, 10, len(c) // 2, len(c) - 1):
                add(path, "cert-truncated-der", c[:cut].hex())
            for _ in range(6):
                b = bytearray(c)
                b[rng.randrange(len(b))] ^= 1 << rng.randrange(8)
                add(path, "cert-bitflip", bytes(b).hex())
            add(path, "cert-garbage", "30820100" + "00" * 10)
            add(path, "cert-nested-bomb", "30" * 200)
            add(path, "cert-indefinite", "3080" + "3080" * 50 + "0000" * 51)
        if n.name in ("key_exchange", "point", "ec_point", "exchange_keys"):
            L = len(c)
            for l2 in sorted(set([0, 1, 2, 31, 32, 33, 56, 57, 64, 65, 66, 97, 133, L - 1, L + 1])):
                if l2 >= 0:
                    add(path, "keyshare-wrong-length", (b"\x04" + b"\x11" * 200)[:l2].hex())
            add(path, "keyshare-zero", "00" * L)
            add(path, "keyshare-ff", "ff" * L)
            add(path, "keyshare-point-not-on-curve", "04" + "00" * (L - 1) if L else "")
            add(path, "keyshare-point-not-on-curve", "04" + "12" * (L - 1) if L else "")
            add(path, "keyshare-compressed-point", "02" + "11" * 32)
            add(path, "keyshare-one", ("00" * (L - 1) + "01") if L else "")
        if n.name in ("dh_p", "dh_g", "dh_Ys", "srp_N", "srp_g", "srp_B", "srp_s"):
            L = len(c)
            for v in ("", "00", "01", "02", "ff" * L, "00" * L, "ff" * (L + 1), "04", "ff" * 2000):
                add(path, "dh-param-value", v)
            if L:
                b = bytearray(c)
                b[-1] ^= 1
                add(path, "dh-param-value", bytes(b).hex())
        if n.name in ("signature", "binder", "verify_data", "ticket", "nonce", "id", "host_name", "proto", "cookie"):
            for v in ("", "00", "ff" * 3, "00" * len(c), "c3" * 5, "80", "2e2e", "61" * 300):
                add(path, "value-" + n.name, v)
        if n.name == "compressed":
            for (cls, out_len, byte) in (("bomb-1MB", 1 << 20, 0), ("bomb-16MB", (1 << 24) - 1, 0), ("bomb-64MB", 64 << 20, 0),
                                         ("bomb-200MB", 200 << 20, 0x41)):
                add(path, "compressed-certificate-" + cls, M.zbomb(out_len, byte).hex())
            add(path, "compressed-garbage", "00" * 40)
            add(path, "compressed-truncated-stream", c[:len(c) // 2].hex())
            add(path, "compressed-empty-stream", zlib_empty())
    return out


def zlib_empty():
    import zlib
    return zlib.compress(b"").hex()


def descriptors_for(name, ctype, data, ctxm, rng, thorough):
    """all mutation descriptors for one captured message, grouped as (must, rest)"""
    must, rest = [], []
    if ctype == 22:
        try:
            root = M.parse_handshake(data, ctxm)
        except M.ParseFail:
            root = None
        if root is not None:
            for d in M.gen_ext_descriptors(root):
                (must if d["cls"] in ("dup-ext", "empty-ext") else rest).append(d)
            for d in M.gen_descriptors(root):
                d.setdefault("cls", d["op"])
                if d["op"] in ("randomize", "set_len_random"):
                    d["seed"] = rng.randrange(1 << 30)
                (must if d["op"] == "empty" else rest).append(d)
            for d in special_descriptors(root, rng):
                (must if d["cls"].startswith("compressed-certificate-bomb") else rest).append(d)
        rest.extend(message_level_descriptors(name, data, rng, thorough))
    elif ctype == 20:
        for v in ("", "00", "02", "0101", "ff", "01" * 100):
            rest.append({"op": "raw_replace", "data": v, "label": name, "cls": "ccs-value"})
        rest.append({"op": "drop_msg", "label": name, "cls": "drop-message"})
        rest.append({"op": "dup_msg", "label": name, "cls": "duplicate-message"})
        for ct in (21, 22, 23, 24, 99):
            rest.append({"op": "wrong_ctype", "ctype": ct, "label": name, "cls": "wrong-content-type"})
    for d in must + rest:
        d["pver"] = list(ctxm["version"]) if ctxm.get("version") else None
    return must, rest


def short_label(desc):
    import re
    lab_ = desc.get("label", "")
    lab_ = re.sub(r"\[\d+\]", "", lab_)
    parts = [p for p in lab_.split("/") if p]
    return "/".join(parts[-2:])


def handshake_sweep(ctx, J, scns, budget_cases):
    """mutate every message of every scenario; returns number of cases run"""
    from harness import lab
    rng = ctx.rng
    thorough = ctx.thorough()
    plans = []
    for scn in scns:
        try:
            base = Baseline(scn)
        except Exception as e:
            ctx.count("baseline-exception:%s:%s" % (scn.name, type(e).__name__))
            base = None
        if base is None or not base.ok:
            ctx.count("baseline-failed:" + scn.name)
            ctx.extra.setdefault("baseline_failed", []).append(scn.name)
            continue
        ctx.count("scenario:" + scn.name)
        for side in ("client", "server"):
            for i, (name, ctype, data, _) in enumerate(base.msgs[side]):
                if ctype not in (20, 22):
                    continue
                must, rest = descriptors_for(name, ctype, data, base.ctxm, rng, thorough)
                plans.append((scn, base, side, i, name, must, rest))
    total_must = sum(len(p[5]) for p in plans)
    total_rest = sum(len(p[6]) for p in plans)
    ctx.extra["handshake_descriptors"] = {"must": total_must, "rest": total_rest, "messages": len(plans)}
    # stratified sampling: every (scenario, message) gets its share of the budget
    cases = []
    per_msg_must = max(4, (budget_cases // 3) // max(1, len(plans)))
    per_msg_rest = max(6, (budget_cases - min(total_must, per_msg_must * len(plans))) // max(1, len(plans)))
    for (scn, base, side, i, name, must, rest) in plans:
        mm = must if len(must) <= per_msg_must else rng.sample(must, per_msg_must)
        rr = rest if len(rest) <= per_msg_rest else rng.sample(rest, per_msg_rest)
        for d in mm + rr:
            cases.append((scn, base, side, i, name, d))
    rng.shuffle(cases)
    n = 0
    slow = set()
    for (scn, base, side, i, name, d) in cases:
        if ctx.out_of_time(0.97):
            ctx.count("cut-by-budget:handshake-sweep")     # the random bulk: the only family behind the wall clock
            break
        if getattr(J, "hangs", 0) >= 8:
            ctx.count("sweep-stopped-after-repeated-hangs")
            break
        fld = (name.replace("handshake:", ""), short_label(d).split("/")[-1])
        if fld in slow and (d["op"] in ("grow", "repeat_item") or len(d.get("data", "")) > 2000):
            ctx.count("skipped-known-slow-field")
            continue
        out = one_handshake_case(ctx, J, scn, base.ctxm, side, i, name, d)
        if out and out.get("slow_field"):
            slow.add(out["slow_field"])
        n += 1
    return n


def one_handshake_case(ctx, J, scn, ctxm, side, i, name, d, named=None):
    from harness import lab
    victim = "server" if side == "client" else "client"

    keep_socket = (len(json.dumps(d, sort_keys=True)) + i) % 2 == 1 if "close_socket" not in d else not d["close_socket"]

    def fn():
        L, applied, peak = run_handshake_case(scn, side, i, d, ctxm, close_socket=not keep_socket)
        return L, peak, applied
    L, peak, applied = with_mem_confirm(ctx, victim, fn)
    if L is None or applied.get("inapplicable") or "orig" not in applied:
        ctx.count("inapplicable")
        return None
    mname = name.replace("handshake:", "")
    d = dict(d, close_socket=not keep_socket)
    replay = {"stage": "handshake", "scn": scn.name, "side": side, "target": i, "msg": mname, "desc": d,
              "cls": d.get("cls", d["op"]), "ctxm": ctxm, "sent": applied.get("sent", b"")[:4096],
              "orig": applied.get("orig", b"")[:4096]}
    label = "%s %s %s" % (mname, short_label(d), d.get("cls", d["op"]))
    out = judge(J, L, victim, label, replay, peak=peak, named=named)
    ctx.count("msg:" + mname)
    ctx.count("mut:" + d.get("cls", d["op"]).split("-")[0])
    ctx.count("outcome:" + out["cls"].split(":")[0])
    ctx.case(key=("hs", scn.name, side, i, json.dumps(d, sort_keys=True)), nontrivial=True,
             sample={"scenario": scn.name, "message": mname, "mutation": d.get("cls"), "field": short_label(d),
                     "victim": victim, "outcome": out["cls"]} if ctx.evaluations % 487 == 0 else None)
    return out


# ---------------------------------------------------------------------------------------------
# record-level cases: the victim alone against raw bytes (no cooperating peer needed)
def rec(t, body, ver=(3, 3), length=None):
    n = len(body) if length is None else length
    return bytes([t & 0xff, ver[0], ver[1], (n >> 8) & 0xff, n & 0xff]) + bytes(body)


def ssl2_client_hello(ciphers=b"\x00\x00\x2f\x00\x00\x35\x00\x00\x0a", sid=b"", challenge=b"\x42" * 32, ver=(3, 1),
                      pad3=False, lens=None):
    body = bytes([1, ver[0], ver[1]])
    cl, sl, chl = lens or (len(ciphers), len(sid), len(challenge))
    body += cl.to_bytes(2, "big") + sl.to_bytes(2, "big") + chl.to_bytes(2, "big") + ciphers + sid + challenge
    if pad3:
        return bytes([(len(body) >> 8) & 0x3f, len(body) & 0xff, 0]) + body
    return bytes([0x80 | (len(body) >> 8), len(body) & 0xff]) + body


def raw_inputs(rng, thorough, hello):
    """(cls, bytes, eof) raw byte strings for an endpoint that expects the peer's first flight;
    `hello` is a well-formed first handshake message of the peer (ClientHello / ServerHello)"""
    out = []

    def add(cls, data, eof=False):
        out.append((cls, bytes(data), eof))
    add("empty-eof", b"", True)
    add("garbage-http", b"GET / HTTP/1.1\r\nHost: example.com\r\n\r\n")
    add("garbage-zeros", b"\x00" * 64)
    add("garbage-ff", b"\xff" * 64)
    add("garbage-one-byte-eof", b"\x16", True)
    add("garbage-header-only-eof", b"\x16\x03\x03\x00\x10", True)
    for _ in range(40 if thorough else 10):
        add("garbage-random", bytes(rng.getrandbits(8) for _ in range(rng.choice([1, 2, 3, 5, 6, 20, 100, 600]))),
            rng.random() < 0.5)
    for t in list(range(0, 256)) if thorough else [0, 1, 19, 20, 21, 22, 23, 24, 25, 26, 64, 99, 127, 128, 200, 255]:
        add("content-type-%d" % t if t in (20, 21, 22, 23, 24) else "unknown-content-type", rec(t, b"\x01\x00\x00\x00"))
    for t in (20, 21, 22, 23, 24):
        add("empty-record-type-%d" % t, rec(t, b"") + (rec(22, hello) if t == 23 else b""))
    for n in (16384, 16385, 16384 + 2048, 16384 + 2049, 32767, 65535):
        add("oversized-record-declared", rec(22, b"", length=n))
        add("oversized-record-full", rec(22, b"\x00" * n, length=n))
        add("oversized-appdata-record", rec(23, b"A" * n, length=n))
    for ver in ((0, 0), (2, 0), (0, 2), (3, 0), (3, 5), (255, 255), (4, 0)):
        add("record-version", rec(22, hello, ver=ver))
    # fragmentation: the hello in 1-byte records, in 2 halves, with an alert / ccs / appdata between the halves
    add("fragmented-1-byte-records", b"".join(rec(22, hello[i:i + 1]) for i in range(len(hello))))
    h = len(hello) // 2
    add("fragmented-halves", rec(22, hello[:h]) + rec(22, hello[h:]))
    add("interleaved-alert", rec(22, hello[:h]) + rec(21, b"\x01\x00") + rec(22, hello[h:]))
    add("interleaved-appdata", rec(22, hello[:h]) + rec(23, b"data") + rec(22, hello[h:]))
    add("interleaved-ccs", rec(22, hello[:h]) + rec(20, b"\x01") + rec(22, hello[h:]))
    add("interleaved-heartbeat", rec(22, hello[:h]) + rec(24, b"\x01\x00\x01A" + b"\x00" * 16) + rec(22, hello[h:]))
    add("half-hello-eof", rec(22, hello[:h]), True)
    add("two-hellos-one-record", rec(22, hello + hello))
    add("hello-plus-garbage-record", rec(22, hello + b"\x00\x01\x02"))
    add("hello-then-garbage", rec(22, hello) + b"\xde\xad\xbe\xef" * 4)
    # spin candidates: many empty / ignorable records
    add("many-empty-appdata", rec(23, b"") * 2000 + rec(22, hello))
    add("many-warning-alerts", rec(21, b"\x01\x5a") * 500)
    add("many-ccs", rec(20, b"\x01") * 500 + rec(22, hello))
    add("many-heartbeats", rec(24, b"\x01\x00\x01A" + b"\x00" * 16) * 500)
    add("many-hello-requests", rec(22, b"\x00\x00\x00\x00") * 500 + rec(22, hello))
    add("many-empty-handshake-records", rec(22, b"") * 100)
    # alerts of every shape
    for lvl in (0, 1, 2, 3, 255):
        for d in (0, 10, 40, 90, 100, 255):
            add("alert-%d-%d" % (lvl, d) if lvl in (1, 2) else "alert-bad-level", rec(21, bytes([lvl, d])))
    add("alert-short", rec(21, b"\x02"))
    add("alert-short-eof", rec(21, b"\x02"), True)
    add("alert-long", rec(21, b"\x01\x00\x02\x28"))
    add("alert-three-bytes", rec(21, b"\x01\x00\x02"))
    # huge handshake message announced, little or much data delivered
    add("huge-handshake-announced", rec(22, b"\x01\xff\xff\xff" + b"\x00" * 100))
    add("huge-handshake-1MB-delivered", b"".join(rec(22, (b"\x01\xff\xff\xff" if i == 0 else b"") + b"\x00" * 16000)
                                                 for i in range(64)))
    add("handshake-header-split", rec(22, hello[:1]) + rec(22, hello[1:3]) + rec(22, hello[3:]))
    # SSLv2 style headers
    add("ssl2-client-hello", ssl2_client_hello())
    add("ssl2-client-hello-3byte-header", ssl2_client_hello(pad3=True))
    add("ssl2-bad-cipher-len", ssl2_client_hello(lens=(8, 0, 32), ciphers=b"\x00" * 8))
    add("ssl2-zero-ciphers", ssl2_client_hello(ciphers=b""))
    add("ssl2-session-id", ssl2_client_hello(sid=b"\x01" * 16))
    add("ssl2-bad-session-id-len", ssl2_client_hello(sid=b"\x01" * 5))
    for n in (0, 1, 15, 16, 31, 33, 64):
        add("ssl2-challenge-len", ssl2_client_hello(challenge=b"\x07" * n))
    add("ssl2-lengths-lie", ssl2_client_hello(lens=(9, 0, 3000)))
    add("ssl2-lengths-lie", ssl2_client_hello(lens=(65535, 65535, 65535)))
    add("ssl2-version-0002", ssl2_client_hello(ver=(0, 2)))
    add("ssl2-version-0304", ssl2_client_hello(ver=(3, 4)))
    add("ssl2-not-client-hello", b"\x80\x03\x04\x00\x01")
    add("ssl2-empty-record", b"\x80\x00")
    add("ssl2-huge-record", b"\xff\xff" + b"\x01" * 100)
    add("ssl2-padding-gt-length", b"\x00\x05\x09\x01\x03\x01\x00\x00")
    add("ssl2-padding-not-multiple", b"\x00\x0b\x03" + b"\x01\x03\x01" + b"\x00" * 8)
    add("ssl2-truncated-eof", ssl2_client_hello()[:20], True)
    return out


def run_raw_case(role, scn, data, eof, pre=None):
    """endpoint `role` of scenario `scn` alone; `data` arrives as the peer's first flight"""
    from harness import lab
    L = lab.Lab()
    L.max_steps = 20000
    scn.start(L)
    rx = "s2c" if role == "client" else "c2s"
    other = "server" if role == "client" else "client"
    L.end(other).state = "idle"
    with Watchdog():
        with Mem() as m:
            if role == "client":
                L.run(only=("client",))          # sends its ClientHello, then waits
                if L.client.state == "stall":
                    L.client.state = "running"
            L.link.inject(rx, data)
            if eof:
                L.link.closed[rx] = True
            L.run(only=(role,))
    return L, m.peak


def oversized_oracle(ctx, J, cls, data, out, replay, role):
    """RFC 5246 6.2.3 / RFC 8446 5.2: a record longer than 2^14 + 2048 is answered with record_overflow;
    the property names oversized records explicitly"""
    if not cls.startswith("oversized-") or len(data) < 5:
        return
    n = (data[3] << 8) | data[4]
    if n > 16384 + 2048 and data[0] in (20, 21, 22, 23, 24) and out["cls"] != "local_alert:22":
        J.report(("oversized-record", role), "c08:oversized-record-not-refused",
                 "a record declaring %d bytes (limit 2^14+2048) was not answered with record_overflow: %s [victim=%s]"
                 % (n, out["cls"], role), replay)


def raw_sweep(ctx, J, hellos):
    from harness import lab
    rng = ctx.rng
    scns = {s.name: s for s in all_scenarios()}
    plan = [("server", "tls12-ecdhe-rsa"), ("server", "tls13-x25519"), ("client", "tls12-ecdhe-rsa"), ("client", "tls13-x25519"),
            ("server", "ssl3-rsa"), ("client", "tls10-ecdhe")]
    if not ctx.thorough():
        plan = plan[:4]
    n = 0
    for role, sname in plan:
        scn = scns[sname]
        hello = hellos.get((sname, "client" if role == "server" else "server"))
        if hello is None:
            continue
        for cls, data, eof in raw_inputs(rng, ctx.thorough(), hello):
            if getattr(J, "hangs", 0) >= 8:
                return n
            L, peak = with_mem_confirm(ctx, role, lambda: run_raw_case(role, scn, data, eof))
            replay = {"stage": "raw", "scn": sname, "role": role, "data": data if len(data) <= 70000 else None,
                      "gen": cls, "eof": eof, "msg": "first-flight", "cls": cls}
            out = judge(J, L, role, "raw first flight %s" % cls, replay, peak=peak)
            oversized_oracle(ctx, J, cls, data, out, replay, role)
            n += 1
            ctx.count("raw:" + cls.split("-")[0])
            ctx.count("outcome:" + out["cls"].split(":")[0])
            ctx.case(key=("raw", sname, role, cls, data[:64], len(data), eof), nontrivial=True,
                     sample={"scenario": sname, "victim": role, "raw": cls, "bytes": len(data), "outcome": out["cls"]}
                     if n % 97 == 0 else None)
    return n


# ---------------------------------------------------------------------------------------------
# post-handshake cases: established connection, victim reads what a faulty peer / attacker sends
def post_messages(rng, thorough, ver13, nst=None):
    """(cls, [(ctype, bytes)], via) ; via='peer' -> sent (encrypted) by the cooperating peer,
    via='inject' -> raw records put on the wire by an attacker"""
    out = []

    def peer(cls, *msgs):
        out.append((cls, list(msgs), "peer"))

    def inject(cls, data):
        out.append((cls, data, "inject"))
    HB = 24
    peer("heartbeat-request", (HB, b"\x01\x00\x04ABCD" + b"\x00" * 16))
    peer("heartbeat-heartbleed", (HB, b"\x01\xff\xffA"))
    peer("heartbeat-short-padding", (HB, b"\x01\x00\x04ABCD" + b"\x00" * 15))
    peer("heartbeat-response-unsolicited", (HB, b"\x02\x00\x04ABCD" + b"\x00" * 16))
    peer("heartbeat-unknown-type", (HB, b"\x07\x00\x00" + b"\x00" * 16))
    peer("heartbeat-one-byte", (HB, b"\x01"))
    peer("heartbeat-empty", (HB, b""))
    peer("heartbeat-max", (HB, b"\x01\x3f\xec" + b"A" * 16364 + b"\x00" * 16))
    peer("many-heartbeats", *[(HB, b"\x01\x00\x01A" + b"\x00" * 16)] * 300)
    for lvl in (0, 1, 2, 3, 255):
        for d in (0, 10, 20, 40, 50, 90, 100, 120, 255):
            peer("alert-%s" % ("warning" if lvl == 1 else "fatal" if lvl == 2 else "bad-level"), (21, bytes([lvl, d])))
    peer("alert-short", (21, b"\x02"))
    peer("alert-long", (21, b"\x01\x5a\x01\x5a\x02\x28"))
    peer("alert-empty", (21, b""))
    peer("many-warning-alerts", *[(21, b"\x01\x5a")] * 50)
    peer("empty-appdata-then-data", *([(23, b"")] * 500 + [(23, b"data")]))
    peer("appdata-max", (23, b"A" * 16384))
    peer("ccs-after-handshake", (20, b"\x01"))
    peer("ccs-bad-after-handshake", (20, b"\x02"))
    peer("ccs-empty", (20, b""))
    peer("hello-request", (22, b"\x00\x00\x00\x00"))
    peer("many-hello-requests", *[(22, b"\x00\x00\x00\x00")] * 200)
    peer("client-hello-renegotiation", (22, b"\x01\x00\x00\x26\x03\x03" + b"\x11" * 32 + b"\x00\x00\x02\x00\x2f\x01\x00"))
    peer("handshake-unknown-type", (22, b"\x63\x00\x00\x00"))
    peer("handshake-truncated", (22, b"\x04\x00\x00"))
    peer("handshake-finished-unexpected", (22, b"\x14\x00\x00\x0c" + b"\x00" * 12))
    peer("handshake-server-hello-unexpected", (22, b"\x02\x00\x00\x00"))
    peer("handshake-certificate-unexpected", (22, b"\x0b\x00\x00\x03\x00\x00\x00"))
    peer("handshake-cert-request-unexpected", (22, b"\x0d\x00\x00\x05\x00\x00\x02\x00\x00"))
    peer("handshake-huge-announced", (22, b"\x04\xff\xff\xff" + b"\x00" * 50))
    peer("unknown-content-type", (99, b"\x00\x01"))
    for v in (b"", b"\x00", b"\x01", b"\x02", b"\xff", b"\x00\x00", b"\x01\x01"):
        peer("key-update-%s" % (v.hex() or "empty"), (22, b"\x18" + len(v).to_bytes(3, "big") + v))
    peer("key-update-not-aligned", (22, b"\x18\x00\x00\x01\x00" + b"\x18\x00\x00\x01\x00"))
    peer("key-update-split", (22, b"\x18\x00"), (22, b"\x00\x01\x00"))
    peer("key-update-interleaved-appdata", (22, b"\x18\x00"), (23, b"data"), (22, b"\x00\x01\x00"))
    peer("many-key-updates-requested", *[(22, b"\x18\x00\x00\x01\x01")] * 100)
    peer("many-key-updates", *[(22, b"\x18\x00\x00\x01\x00")] * 200)
    peer("end-of-early-data", (22, b"\x05\x00\x00\x00"))
    for body in (b"", b"\x00" * 4, b"\x00" * 8, b"\x00\x00\x00\x01" * 2 + b"\x00\x00\x00\x00\x00",
                 b"\x00\x00\x00\x01" * 2 + b"\x01\x41\x00\x01\x42\x00\x00",
                 b"\x00\x00\x00\x01" * 2 + b"\xff" + b"A" * 255 + b"\xff\xff" + b"B" * 65535 + b"\x00\x00",
                 b"\x00\x00\x00\x01" * 2 + b"\x01\x41\x00\x01\x42\x00\x08\x00\x2a\x00\x04\xff\xff\xff\xff",
                 b"\x00\x00\x00\x01" * 2 + b"\x01\x41\x00\x01\x42\x00\x10\x00\x2a\x00\x04\x00\x00\x00\x00\x00\x2a\x00\x04\x00\x00\x00\x00",
                 b"\xff\xff\xff\xff" + b"\x00" * 4 + b"\x00" + b"\x00\x01\x42\x00\x00"):
        peer("new-session-ticket-shapes", (22, b"\x04" + len(body).to_bytes(3, "big") + body))
    peer("many-session-tickets", *[(22, b"\x04\x00\x00\x0d" + b"\x00\x00\x00\x01" * 2 + b"\x01\x41\x00\x01\x42\x00\x00")] * 300)
    # attacker-injected raw records on an encrypted connection
    for n in (0, 1, 2, 7, 8, 15, 16, 17, 24, 31, 32, 33, 48, 64, 100, 16384, 16384 + 256, 16384 + 257, 16384 + 2048,
              16384 + 2049, 65535):
        inject("injected-appdata-len", rec(23, bytes(rng.getrandbits(8) for _ in range(min(n, 64))) + b"\x00" * max(0, n - 64)))
    for t in (20, 21, 22, 24, 99, 0, 255):
        inject("injected-type-%d" % t, rec(t, b"\x01\x00" + b"\x00" * 30))
    inject("injected-plain-alert", rec(21, b"\x02\x28"))
    inject("injected-plain-warning", rec(21, b"\x01\x00"))
    inject("injected-plain-ccs", rec(20, b"\x01"))
    inject("injected-garbage", b"\xde\xad\xbe\xef" * 10)
    inject("injected-ssl2-header", b"\x80\x05\x01\x03\x01\x00\x00")
    inject("injected-empty-records", rec(23, b"") * 100)
    inject("injected-header-only", rec(23, b"", length=100))
    return out


def run_post_case(scn, victim, cls, payload, via):
    from harness import lab
    st = scn.prep(scn) if scn.prep else None
    L = lab.Lab()
    L.max_steps = 50000
    scn.start(L, st)
    L.run()
    if L.client.state != "done" or L.server.state != "done":
        return None, None
    peer = "client" if victim == "server" else "server"
    rx = "s2c" if victim == "client" else "c2s"
    for e in (L.client, L.server):
        e.steps = 0
    with Watchdog():
        with Mem() as m:
            if via == "peer":
                pc = L.end(peer).conn

                def gen():
                    for ct, data in payload:
                        for r in pc._sendMsgThroughSocket(RawMessage(ct, data)):
                            yield r
                L.op(peer, gen(), pump_other=False)
            else:
                L.link.inject(rx, payload)
            # the victim reads until something happens: data, error, or nothing more to read
            for _ in range(4):
                r = L.read(victim, max=16384)
                if r[0] != "ok":
                    break
            v = L.end(victim)
            if v.state == "running":
                v.state = "done"
    return L, m.peak


def post_sweep(ctx, J):
    scns = {s.name: s for s in all_scenarios()}
    plan = [("tls12-ecdhe-rsa", "server"), ("tls13-x25519", "client"), ("tls13-x25519", "server"), ("tls12-ecdhe-rsa", "client"),
            ("tls10-ecdhe", "server"), ("ssl3-rsa", "client"), ("tls12-ecdsa-chacha", "client"), ("tls11-rsa-3des", "server"),
            ("tls13-clientauth", "server"), ("tls13-psk", "client")]
    if not ctx.thorough():
        plan = plan[:4]
    n = 0
    for sname, victim in plan:
        scn = scns[sname]
        cases = post_messages(ctx.rng, ctx.thorough(), scn.ver == (3, 4))
        if not ctx.thorough():
            cases = [c for i, c in enumerate(cases) if c[0].startswith(("many", "key-update", "heartbeat", "injected", "new-session"))
                     or ctx.rng.random() < 0.5]
        for cls, payload, via in cases:
            if getattr(J, "hangs", 0) >= 8:
                return n
            L, peak = with_mem_confirm(ctx, victim, lambda: run_post_case(scn, victim, cls, payload, via))
            if L is None:
                ctx.count("post-baseline-failed:" + sname)
                break
            replay = {"stage": "post", "scn": sname, "victim": victim, "cls": cls, "via": via, "msg": "post-handshake",
                      "payload": [[ct, bytes(d)[:70000]] for ct, d in payload] if via == "peer" else bytes(payload)[:70000]}
            v = L.end(victim)
            if v.state == "stall":
                v.state = "done"       # read with nothing (more) to read: waiting for input is fine
                if len(L.link.q["s2c" if victim == "client" else "c2s"]):
                    v.state = "stall"
            out = judge(J, L, victim, "post-handshake %s" % cls, replay, peak=peak)
            n += 1
            ctx.count("post:" + cls.split("-")[0])
            ctx.count("outcome:" + out["cls"].split(":")[0])
            ctx.case(key=("post", sname, victim, cls, repr(payload)[:200]), nontrivial=True,
                     sample={"scenario": sname, "victim": victim, "post": cls, "via": via, "outcome": out["cls"]}
                     if n % 61 == 0 else None)
    return n


# ---------------------------------------------------------------------------------------------
# cases that are always run (every seed): the deviations written down in DESIGN.md section 7 item 4 and
# their close relatives, so that they are reported again if they come back
def named_cases():
    bomb = M.zbomb(40 << 20).hex()
    small_bomb = M.zbomb(40 << 20, 0x41).hex()
    C = []

    def add(scn, side, msg, cls, steps, named=None):
        d = {"op": "multi", "steps": steps, "label": msg, "cls": cls}
        C.append((scn, side, msg, d, named))
    add("tls13-psk", "client", "client_hello", "empty-psk-identity",
        [{"find": ["ext:pre_shared_key", "identities", "id"], "op": "empty"}])
    add("tls13-psk", "client", "client_hello", "empty-psk-binder",
        [{"find": ["ext:pre_shared_key", "binders", "binder"], "op": "empty"}])
    add("tls13-resume", "client", "client_hello", "empty-psk-identity",
        [{"find": ["ext:pre_shared_key", "identities", "id"], "op": "empty"}])
    # fewer binders than identities, the identity the server knows behind the last binder
    add("tls13-psk", "client", "client_hello", "psk-fewer-binders-than-identities",
        [{"find": ["ext:pre_shared_key", "identities"], "op": "insert_raw_item", "i": 0,
          "data": "0005" + "6465636f79" + "00000000"}])
    add("tls13-resume", "client", "client_hello", "psk-fewer-binders-than-identities",
        [{"find": ["ext:pre_shared_key", "identities"], "op": "insert_raw_item", "i": 0,
          "data": "0005" + "6465636f79" + "00000000"}])
    for scn in ("tls12-ecdhe-rsa", "tls13-x25519"):
        add(scn, "client", "client_hello", "sni-no-hostname",
            [{"find": ["ext:server_name", "name_type"], "op": "set_uint", "value": 1}])
        add(scn, "client", "client_hello", "sni-two-names-first-not-hostname",
            [{"find": ["ext:server_name", "server_name_list"], "op": "dup_item", "i": 0},
             {"find": ["ext:server_name", "name_type"], "op": "set_uint", "value": 7}])
    for scn, side, msg in (("tls12-ecdhe-rsa", "client", "client_hello"), ("tls13-x25519", "client", "client_hello"),
                           ("tls12-ecdhe-rsa", "server", "server_hello"), ("tls13-x25519", "server", "server_hello"),
                           ("tls13-x25519", "server", "encrypted_extensions"), ("tls13-clientauth", "server", "certificate_request"),
                           ("tls13-hrr", "server", "server_hello"), ("ssl3-rsa", "client", "client_hello")):
        add(scn, side, msg, "dup-ext", [{"find": ["extensions"], "op": "dup_item", "i": 0}])
    for scn, side in (("tls13-x25519", "server"), ("tls13-clientauth", "client")):
        add(scn, side, "compressed_certificate", "compressed-certificate-bomb-declared-1000",
            [{"find": ["compressed"], "op": "set_bytes", "data": small_bomb},
             {"find": ["uncompressed_length"], "op": "set_uint", "value": 1000}])
        add(scn, side, "compressed_certificate", "compressed-certificate-bomb-declared-max",
            [{"find": ["compressed"], "op": "set_bytes", "data": bomb},
             {"find": ["uncompressed_length"], "op": "set_uint", "value": 0xffffff}])
        add(scn, side, "compressed_certificate", "compressed-certificate-bomb-declared-original",
            [{"find": ["compressed"], "op": "set_bytes", "data": bomb}])
        for n in (0, 1):
            add(scn, side, "compressed_certificate", "compressed-certificate-bomb-declared-%d" % n,
                [{"find": ["compressed"], "op": "set_bytes", "data": bomb},
                 {"find": ["uncompressed_length"], "op": "set_uint", "value": n}])
        add(scn, side, "compressed_certificate", "compressed-certificate-wrong-length-plus1",
            [{"find": ["uncompressed_length"], "op": "set_uint_delta", "delta": 1}])
        add(scn, side, "compressed_certificate", "compressed-certificate-wrong-length-minus1",
            [{"find": ["uncompressed_length"], "op": "set_uint_delta", "delta": -1}])
        add(scn, side, "compressed_certificate", "compressed-certificate-unknown-algorithm",
            [{"find": ["algorithm"], "op": "set_uint", "value": 0x7777}])
    return C


def run_named(ctx, J, bases):
    for sname, side, msg, d, named in named_cases():
        base = bases.get(sname)
        if base is None or not base.ok:
            ctx.count("named-skipped:" + sname)
            continue
        idx = [i for i, (n, ct, data, _) in enumerate(base.msgs[side]) if n == "handshake:" + msg]
        if not idx:
            ctx.count("named-skipped-nomsg:" + sname + ":" + msg)
            continue
        d = dict(d)
        d["pver"] = list(base.ctxm["version"])
        one_handshake_case(ctx, J, base.scn, base.ctxm, side, idx[0], "handshake:" + msg, d, named)
        ctx.count("named:" + d["cls"])


# ---------------------------------------------------------------------------------------------
def run(ctx):
    ctx.rule = ("handshake cases: (scenario, sender, message index, mutation descriptor) - field/length/type/value-level "
                "mutations generated from the parsed structure of the live message, stratified sample per message, plus the "
                "always-run named cases, half of them with closeSocket=False on the victim (the alert must reach the wire "
                "by the library's own write); certificate cases: (scenario, sender, SubjectPublicKeyInfo variant) - real test "
                "certificates re-encoded with an unusual public key, in Certificate and CompressedCertificate; raw cases: (role, scenario, first-flight byte string); post-handshake cases: "
                "(scenario, victim, message list or injected records); distinct = distinct tuple; all are non-trivial "
                "(each delivers at least one malformed or unexpected input to a live endpoint)")
    ctx.assumptions = ["memsock transport: recv returns what is queued, EWOULDBLOCK when empty (no partial-send faults here: C14/C17)",
                       "memory is measured with tracemalloc over both endpoints of the lab (upper bound for the victim)",
                       "a stall (generator yields, no input pending) is waiting, not hanging",
                       "the cooperating peer is a real TLSConnection whose outgoing message is replaced before encryption"]
    ctx.budget_s = ctx.pick(150, 1200)
    J = Judge(ctx)
    Mem.probe()
    ctx.extra["memory_oracle"] = "VmHWM screen + tracemalloc confirmation" if Mem.rss_ok else "unavailable"
    if True:
        scns = all_scenarios()
        bases = {}
        for s in scns:
            try:
                bases[s.name] = Baseline(s)
            except Exception as e:
                ctx.count("baseline-exception:%s:%s" % (s.name, type(e).__name__))
        bad = [n for n, b in bases.items() if not b.ok]
        if len(bad) > len(scns) // 2:
            from ..core import Infra
            raise Infra("most baseline handshakes fail: %s" % bad)
        run_named(ctx, J, bases)
        run_corpus(ctx, J)
        model_correspondence(ctx, J, bases)
        hellos = {}
        for n, b in bases.items():
            if b.ok:
                hellos[(n, "client")] = b.msgs["client"][0][2]
                hellos[(n, "server")] = b.msgs["server"][0][2]
        secs = ctx.extra.setdefault("stream_seconds", {})
        t0 = ctx.elapsed()
        n_raw = raw_sweep(ctx, J, hellos)
        secs["raw-sweep"] = round(ctx.elapsed() - t0, 1)
        t0 = ctx.elapsed()
        n_post = post_sweep(ctx, J)
        secs["post-sweep"] = round(ctx.elapsed() - t0, 1)
        t0 = ctx.elapsed()
        n_hs = handshake_sweep(ctx, J, scns, ctx.pick(2600, 30000))
        secs["handshake-sweep"] = round(ctx.elapsed() - t0, 1)
        ctx.extra["cases"] = {"raw": n_raw, "post": n_post, "handshake": n_hs}
    ctx.extra["partial"] = ("explored, not proved: unmodelled statements of tlsconnection.py, X.509/ASN.1, key exchange arithmetic, "
                            "allocation and wall clock")


def model_correspondence(ctx, J, bases):
    from . import c08_flights as FL
    secs = ctx.extra.setdefault("stream_seconds", {})

    def timed(name, fn, *a, **kw):
        t0 = ctx.elapsed()
        fn(*a, **kw)
        secs[name] = round(ctx.elapsed() - t0, 1)
    timed("loop", loop_correspondence, ctx, ctx.pick(1500, 20000))
    timed("error-table", error_table_correspondence, ctx, J)
    timed("decompress", decompress_correspondence, ctx, bases)
    timed("server-hello", sh_correspondence, ctx, J, bases)
    timed("client-hello", ch_correspondence, ctx, J, ctx.pick(500, 6000))
    timed("hrr", FL.hrr_stream, ctx, J, ctx.pick(500, 6000))
    timed("resume", FL.resume_stream, ctx, J, bases)
    timed("keyed-peer", FL.keyed_peer_stream, ctx, J, ctx.thorough())
    timed("early-data", FL.early_data_stream, ctx, J, ctx.thorough())
    timed("resumption-history", FL.resumption_history_stream, ctx, J, ctx.thorough())
    timed("flight", FL.flight_stream, ctx, J, bases, ctx.pick(25, 400))
    timed("certificate", FL.certificate_stream, ctx, J, bases, ctx.thorough())


def run_input(ctx, J, inp):
    """re-execute one recorded input (replay file or corpus entry) through the same oracle"""
    scns = {s.name: s for s in all_scenarios()}
    stage = inp.get("stage")
    if stage == "handshake":
        scn = scns[inp["scn"]]
        ctxm = dict(inp["ctxm"])
        ctxm["version"] = tuple(ctxm["version"])
        name = inp["msg"] if inp["msg"].startswith("change") else "handshake:" + inp["msg"]
        return one_handshake_case(ctx, J, scn, ctxm, inp["side"], inp["target"], name, inp["desc"])
    if stage == "raw":
        scn = scns[inp["scn"]]
        data = inp["data"]
        if data is None:
            b = Baseline(scn)
            hello = b.msgs["client" if inp["role"] == "server" else "server"][0][2]
            import random
            data = [d for c, d, e in raw_inputs(random.Random(1), True, hello) if c == inp["gen"]][0]
        else:
            data = bytes.fromhex(data)
        L, peak = with_mem_confirm(ctx, inp["role"], lambda: run_raw_case(inp["role"], scn, data, inp["eof"]))
        return judge(J, L, inp["role"], "raw first flight %s" % inp["cls"], inp, peak=peak)
    if stage == "post":
        scn = scns[inp["scn"]]
        payload = [(ct, bytes.fromhex(d)) for ct, d in inp["payload"]] if inp["via"] == "peer" else bytes.fromhex(inp["payload"])
        L, peak = with_mem_confirm(ctx, inp["victim"], lambda: run_post_case(scn, inp["victim"], inp["cls"], payload, inp["via"]))
        if L is None:
            return None
        v = L.end(inp["victim"])
        if v.state == "stall" and not len(L.link.q["s2c" if inp["victim"] == "client" else "c2s"]):
            v.state = "done"
        return judge(J, L, inp["victim"], "post-handshake %s" % inp["cls"], inp, peak=peak)
    if stage == "ch-features":
        impl, L = run_ch_features(inp["features"])
        return judge(J, L, "server", "client_hello features", inp)
    if stage == "flight":
        scn = scns[inp["scn"]]
        ctxm = dict(inp["ctxm"])
        ctxm["version"] = tuple(ctxm["version"])
        muts = {int(k): v for k, v in inp["muts"].items()}
        L, applied, peak = run_handshake_case(scn, inp["side"], muts, None, ctxm, close_socket=inp.get("close_socket", True))
        return judge(J, L, "server" if inp["side"] == "client" else "client", "flight " + inp.get("cls", ""), inp)
    if stage == "cert-spki":
        from . import c08_flights as FL
        FL.certificate_stream(ctx, J, None, True, only=(inp["scn"], inp["side"], inp["variant"]))
        return {"violations": [v["key"] for v in ctx.violations]}
    if stage == "keyed-record":
        from . import c08_flights as FL
        FL.keyed_peer_stream(ctx, J, True, only=(inp["scn"], inp["victim"], inp["craft"]))
        return {"violations": [v["key"] for v in ctx.violations]}
    if stage == "early-data":
        from . import c08_flights as FL
        sz = inp["sizes"]
        sizes = [sz["size"]] * sz["count"] if isinstance(sz, dict) else sz
        FL.early_data_stream(ctx, J, False, only=(inp["max_early"], inp["known_psk"], sizes))
        return {"violations": [v["key"] for v in ctx.violations]}
    if stage == "resumption-history":
        from . import c08_flights as FL
        FL.resumption_history_stream(ctx, J, False, only=(inp["scn"], inp["history"]))
        return {"violations": [v["key"] for v in ctx.violations]}
    if stage == "hrr":
        from . import c08_flights as FL
        f1 = inp["f1"]
        if isinstance(f1.get("_sid"), str):
            f1["_sid"] = bytes.fromhex(f1["_sid"])
        L, info = FL.run_hrr_case(f1, inp["second"])
        return judge(J, L, "server", "HelloRetryRequest flow", inp)
    return None


def run_corpus(ctx, J):
    """corpus/C08/*.json: one minimised input per defect found so far, always run first (every seed)"""
    import glob
    d = os.path.join(ctx.verif, "corpus", "C08")
    n = 0
    for f in sorted(glob.glob(os.path.join(d, "*.json"))):
        try:
            with open(f) as fh:
                inp = json.load(fh)["input"]
            out = run_input(ctx, J, inp)
            if out is not None:
                ctx.case(key=("corpus", os.path.basename(f)), sample=None)
                n += 1
        except Exception as e:      # a corpus entry that no longer applies is not an error of the check
            ctx.count("corpus-entry-inapplicable:%s:%s" % (os.path.basename(f), type(e).__name__))
    ctx.extra["corpus_entries_run"] = n


def replay(ctx, rep):
    from harness import lab
    inp = rep["input"]
    J = Judge(ctx)
    stage = inp.get("stage")
    Mem.mode = "trace"
    tracemalloc.start(1)
    try:
        out = run_input(ctx, J, inp)
        if out is None and stage not in ("handshake", "raw", "post", "ch-features", "flight", "hrr", "early-data", "resumption-history", "keyed-record", "cert-spki"):
            print("replay of stage %r: re-running the whole check" % stage)
            Mem.mode = "rss"
            run(ctx)
        else:
            print("outcome:", out)
    finally:
        Mem.mode = "rss"
        tracemalloc.stop()
    for v in ctx.violations:
        print("  still:", v["key"], "-", v["what"][:200])
    return bool(ctx.violations or ctx.disagreements)


# ---------------------------------------------------------------------------------------------
# correspondence: the Lean model (lean/TlsModel/ErrPath.lean through drv_c08) against the real code
def model_strings():
    """the alert messages the model carries (read from the model source, so the two cannot drift)"""
    import re
    p = os.path.join(os.path.dirname(os.path.dirname(os.path.dirname(os.path.abspath(__file__)))),
                     "lean", "TlsModel", "ErrPath.lean")
    src = open(p).read()
    src = re.sub(r'"\s*\n\s*"', "", src)
    return set(re.findall(r'd[A-Z][A-Za-z]+,?\s*\n?\s*"([^"]+)"', src))


def norm_msg(s):
    return " ".join(str(s).replace("_", " ").split())


def ext_bytes(t, body):
    return t.to_bytes(2, "big") + len(body).to_bytes(2, "big") + bytes(body)


def enc_opt_list(v, elem, lenw):
    """None -> empty body; list -> length-prefixed list"""
    if v is None:
        return b""
    body = b"".join(x.to_bytes(elem, "big") for x in v)
    return len(body).to_bytes(lenw, "big") + body


HOSTS = {"e": b"", "a": b"ex\xc3\xa4mple.com", "i": b"bad_host..name", "o": b"example.com"}


def KS_LEN(g):
    return {29: 32, 23: 65, 24: 97, 25: 133, 30: 56, 256: 256}.get(g, 8)


def KS_VAL(g):
    if g == 23:
        # a valid P-256 point (the generator)
        return bytes.fromhex("046b17d1f2e12c4247f8bce6e563a440f277037d812deb33a0f4a13945d898c296"
                             "4fe342e2fe1a7f9b8ee7eb4a7c0f9e162bce33576b315ececbb6406837bf51f5")
    return b"\x09" * KS_LEN(g)


def ch_feature_bytes(f):
    """abstract ClientHello features (a dict mirroring structure CH of the model) -> handshake message"""
    exts = []

    def val(key):
        v = f[key]
        return f["_dupval"][key] if v == "D" else v[1]

    def put(key, t, enc):
        v = f[key]
        if v == "-":
            return
        body = enc(val(key))
        exts.append((key, ext_bytes(t, body)))
        if v == "D":
            exts.append((key, ext_bytes(t, body)))
    put("ems", 23, lambda v: b"\x00" if v else b"")
    put("sa", 13, lambda v: b"" if v is None else enc_opt_list([0x0401, 0x0804, 0x0403, 0x0807][:v] + [0x0401] * max(0, v - 4), 2, 2))
    put("alpn", 16, lambda v: (lambda b: len(b).to_bytes(2, "big") + b)(b"".join(bytes([n]) + b"h" * n for n in v)))
    put("sv", 43, lambda v: enc_opt_list(v, 2, 1))
    put("ks", 51, lambda v: b"" if v is None else (lambda b: len(b).to_bytes(2, "big") + b)(
        b"".join(g.to_bytes(2, "big") + KS_LEN(g).to_bytes(2, "big") + KS_VAL(g) for g in v)))
    put("pm", 45, lambda v: enc_opt_list(v, 1, 1))
    put("ecpf", 11, lambda v: enc_opt_list(v, 1, 1))
    put("sg", 10, lambda v: enc_opt_list(v, 2, 2))
    put("hb", 15, lambda v: bytes([v]))
    put("rsl", 28, lambda v: b"" if v is None else v.to_bytes(2, "big"))
    put("ct", 9, lambda v: enc_opt_list(v, 1, 1))
    put("pha", 49, lambda v: b"\x00" if v else b"")
    put("ed", 42, lambda v: b"\x00" if v else b"")
    put("sni", 0, lambda v: b"" if v == "B" else (lambda b: len(b).to_bytes(2, "big") + b)(
        b"".join(bytes([t]) + len(HOSTS[k]).to_bytes(2, "big") + HOSTS[k] for t, k in v)))
    psk = f["psk"]
    if psk != "-":
        ids, bs, last = val("psk")
        if ids is None and bs is None:
            body = b""
        else:
            i_b = b"".join(n.to_bytes(2, "big") + b"i" * n + b"\x00\x00\x00\x00" for n in (ids or []))
            b_b = b"".join(bytes([n]) + b"b" * n for n in (bs or []))
            body = len(i_b).to_bytes(2, "big") + i_b + len(b_b).to_bytes(2, "big") + b_b
        e = ext_bytes(41, body)
        copies = 2 if psk == "D" else 1
        if last:
            exts = exts + [("psk", e)] * copies
        else:
            exts = [("psk", e)] * copies + exts
            if not [x for x in exts if x[0] != "psk"]:
                exts.append(("pad", ext_bytes(21, b"\x00")))
    suites = b"" if f["se"] else (b"\x13\x01\xc0\x2f\x00\x2f" if f.get("_suites_alt") else b"\x13\x01\xc0\x2f\x00\x2f\x00\x9c")
    comp = b"" if f["ce"] else (b"\x00" if f["nc"] else b"\x01")
    sid = f.get("_sid", b"")
    body = f["cv"].to_bytes(2, "big") + bytes([f.get("_random", 0x5a)]) * 32 + bytes([len(sid)]) + sid + \
        len(suites).to_bytes(2, "big") + suites + bytes([len(comp)]) + comp
    for (t, b, where) in f.get("_extra_exts", []):
        exts.insert(min(where, len(exts)) if where >= 0 else max(0, len(exts) + where), ("extra", ext_bytes(t, b)))
    eb = b"".join(e for _, e in exts)
    body += len(eb).to_bytes(2, "big") + eb
    if f["pe"]:
        body = body[:-1] if eb else body + b"\x00"
    return b"\x01" + len(body).to_bytes(3, "big") + body


def ch_feature_line(f):
    def ol(v):
        return "N" if v is None else "L" + ",".join(str(x) for x in v)

    def ext(key, enc):
        v = f[key]
        return v if v in ("-", "D") else enc(v[1])
    sni = ext("sni", lambda v: "B" if v == "B" else ("L" if not v else ",".join("%d.%s" % (t, k) for t, k in v)))
    psk = ext("psk", lambda v: "%s|%s|%d" % (ol(v[0]), ol(v[1]), 1 if v[2] else 0))
    return ("ch pe=%d cv=%d se=%d ce=%d nc=%d sv=%s sa=%s alpn=%s sni=%s ems=%s ecpf=%s pha=%s pm=%s psk=%s sg=%s ks=%s "
            "ed=%s hb=%s rsl=%s ct=%s min=%d max=%d vers=%s" % (
                f["pe"], f["cv"], f["se"], f["ce"], f["nc"], ext("sv", ol), ext("sa", lambda v: "N" if v is None else str(v)),
                ext("alpn", lambda v: "L" + ",".join(map(str, v))), sni, ext("ems", lambda v: str(int(v))), ext("ecpf", ol),
                ext("pha", lambda v: str(int(v))), ext("pm", ol), psk, ext("sg", ol), ext("ks", ol),
                ext("ed", lambda v: str(int(v))), ext("hb", str), ext("rsl", lambda v: "N" if v is None else str(v)),
                ext("ct", ol), f["_min"], 0x0304, ",".join(map(str, f["_vers"]))))


def gen_ch_features(rng, directed=None):
    """one abstract ClientHello: mostly sane, a few fields degenerate"""
    P = lambda v: ("P", v)
    tls13 = rng.random() < 0.6
    f = {"pe": 0, "cv": rng.choice([0x0303] * 6 + [0x0301, 0x0302, 0x0300, 0x0304, 0x0200]), "se": 0, "ce": 0, "nc": 1,
         "sv": P([0x0304, 0x0303]) if tls13 else "-", "sa": P(4), "alpn": "-", "sni": P([(0, "o")]), "ems": P(False),
         "ecpf": P([0]), "pha": "-", "pm": P([1]) if tls13 else "-", "psk": "-", "sg": P([29, 23]),
         "ks": P([29]) if tls13 else "-", "ed": "-", "hb": "-", "rsl": "-", "ct": "-",
         "_min": rng.choice([0x0301, 0x0301, 0x0303, 0x0300]), "_vers": None, "_dupval": {}}
    choices = {
        "sv": ["-", P(None), P([]), P([0x0304]), P([0x0303]), P([0x0304, 0x0303]), P([0x0301]), P([0x7f1c]), P([0x0305, 0x0304]),
               P([0x0302, 0x0304])],
        "sa": ["-", P(None), P(0), P(1), P(4)],
        "alpn": ["-", P([]), P([2]), P([2, 0]), P([0]), P([8, 2])],
        "sni": ["-", P("B"), P([]), P([(0, "o")]), P([(1, "o")]), P([(0, "e")]), P([(0, "a")]), P([(0, "i")]),
                P([(0, "o"), (0, "o")]), P([(1, "o"), (0, "o")]), P([(7, "e")]), P([(0, "o"), (1, "a")])],
        "ems": ["-", P(False), P(True)],
        "ecpf": ["-", P(None), P([]), P([0]), P([1]), P([1, 0]), P([2, 1])],
        "pha": ["-", P(False), P(True)],
        "pm": ["-", P(None), P([]), P([1]), P([0]), P([0, 1]), P([7])],
        "psk": ["-", P((None, None, True)), P(([], [], True)), P(([4], [32], True)), P(([4], [32], False)), P(([0], [32], True)),
                P(([4], [0], True)), P(([4, 5], [32], True)), P(([5, 4], [32], True)), P(([5, 6, 4], [32, 32], True)),
                P(([4], [32, 32], True)), P(([4, 0], [32, 32], True)),
                P(([], [32], True)), P(([4], [], True))],
        "sg": ["-", P(None), P([]), P([29, 23]), P([23]), P([24, 29]), P([1, 29]), P([19, 29, 23]), P([256, 29]), P([0xff01, 29])],
        "ks": ["-", P(None), P([]), P([29]), P([23]), P([29, 23]), P([23, 29]), P([29, 29]), P([24]), P([30]), P([256])],
        "ed": ["-", P(False), P(True)],
        "hb": ["-", P(1), P(2), P(0), P(3), P(255)],
        "rsl": ["-", P(None), P(0), P(63), P(64), P(16385), P(65535)],
        "ct": ["-", P(None), P([]), P([0]), P([1]), P([1, 0])],
    }
    keys = sorted(choices)
    k = rng.choice([0, 1, 1, 2, 2, 3, 5])
    for key in rng.sample(keys, k):
        f[key] = rng.choice(choices[key])
    if rng.random() < 0.12:
        key = rng.choice(keys)
        base = f[key] if f[key] != "-" else rng.choice([c for c in choices[key] if c != "-"])
        f["_dupval"][key] = base[1]
        f[key] = "D"
    r = rng.random()
    if r < 0.04:
        f["se"] = 1
    elif r < 0.08:
        f["ce"] = 1
    elif r < 0.12:
        f["nc"] = 0
    elif r < 0.16:
        f["pe"] = 1
    if directed:
        dv = dict(f["_dupval"])
        dv.update(directed.get("_dupval", {}))
        f.update(directed)
        f["_dupval"] = dv
    for key in list(f):
        if f[key] == "D" and key not in f["_dupval"]:
            f[key] = "-"
    return f


def server_versions(minv):
    # HandshakeSettings.versions of the server used below: with maxVersion (3, 4) validate() leaves the default
    # list untouched, whatever minVersion says
    return [0x0304, 0x0303, 0x0302, 0x0301]


def run_ch_features(f):
    """feed the hello to a real server; -> ('alert', desc, message) | ('escape', name, line) | ('other', text)"""
    from harness import lab
    from tlslite import errors
    L = lab.Lab()
    L.max_steps = 5000
    chain, key = lab.creds("rsa")
    minv = (f["_min"] >> 8, f["_min"] & 0xff)
    ss = lab.settings(minv=minv, maxv=(3, 4), eccCurves=["secp256r1", "x25519", "secp384r1"], pskConfigs=[(b"iiii", b"\x01" * 32)])
    L.start_server(lambda c: c.handshakeServerAsync(certChain=chain, privateKey=key, settings=ss))
    L.client.state = "idle"
    msg = ch_feature_bytes(f)
    L.link.inject("c2s", rec(22, msg, ver=(3, 1)))
    with Watchdog():
        L.run(only=("server",))
    v = L.server
    if v.state == "error":
        e = v.exc
        if isinstance(e, errors.TLSLocalAlert):
            return ("alert", e.description, norm_msg(e.message or "")), L
        if isinstance(e, errors.TLSError) or isinstance(e, errors.BaseTLSException):
            fn, line = exc_site(e)
            return ("tlserror", type(e).__name__, line), L
        fn, line = exc_site(e)
        return ("escape", type(e).__name__, line), L
    return ("other", v.state, ""), L


def ch_correspondence(ctx, J, n):
    lc = ctx.lean()
    rng = ctx.rng
    # messages of the modelled chain (the certificate-type test is modelled on its own, outside the chain;
    # the ServerHello messages cannot come from a server)
    msgs = set(norm_msg(m) for m in model_strings()) - {norm_msg("the client doesn't support my certificate type")}
    T13 = {"sv": ("P", [0x0304, 0x0303]), "pm": ("P", [1]), "ks": ("P", [29]), "cv": 0x0303, "sg": ("P", [29, 23]), "sa": ("P", 4)}
    directed = [{"psk": ("P", ([0], [32], True)), "sv": ("P", [0x0304, 0x0303]), "pm": ("P", [1]), "ks": ("P", [29])},
                # fewer binders than identities, the identity the server knows ("iiii") behind the last binder
                dict(T13, psk=("P", ([5, 4], [32], True))), dict(T13, psk=("P", ([5, 6, 4], [32, 32], True))),
                dict(T13, psk=("P", ([4, 5], [32], True))), dict(T13, psk=("P", ([4], [32, 32], True))),
                {"sni": ("P", [(1, "o")])}, {"sni": ("P", [(7, "e"), (1, "o")])}, {"sv": ("P", None)},
                {"sv": ("P", None), "cv": 0x0301}, {"ct": ("P", None)}, {"sa": "D", "_dupval": {"sa": 4}},
                {"sni": "D", "_dupval": {"sni": [(0, "o")]}}]
    feats = [gen_ch_features(rng, d) for d in directed] + [gen_ch_features(rng) for _ in range(n)]
    for f in feats:
        f["_vers"] = server_versions(f["_min"])
    lines = [ch_feature_line(f) for f in feats]
    outs = lc.batch(lines) if lc is not None else [None] * len(lines)
    for fi, (f, line, mo) in enumerate(zip(feats, lines, outs)):
        if fi >= len(directed) + 150 and ctx.out_of_time(0.5):
            ctx.count("cut-by-budget:client-hello-random")
            break
        impl, L = run_ch_features(f)
        case = {"features": {k: v for k, v in f.items()}, "line": line}
        ctx.case(key=("ch", line), nontrivial=True,
                 sample={"client_hello_features": line, "model": mo, "impl": list(impl)} if ctx.evaluations % 211 == 0 else None)
        # oracle on the real code for this input as well
        replay = {"stage": "ch-features", "features": f, "msg": "client_hello", "cls": "feature-combination", "scn": "features"}
        judge(J, L, "server", "client_hello features", replay)
        if mo is None:
            continue
        if mo == "bad-op":
            ctx.disagree("ch-driver", case, mo, impl)
            continue
        ctx.compared()
        ctx.count("ch-model:" + mo.split(":")[0])
        parts = mo.split(":", 2)
        ok = True
        if parts[0] == "alert":
            d, m = int(parts[1]), norm_msg(parts[2])
            if m.startswith("parse"):
                # answered by `_getMsg` from a parser's exception: the description only, no modelled message
                ok = impl[0] == "alert" and impl[1] == d and not any(impl[2].startswith(x) for x in msgs)
            else:
                ok = impl[0] == "alert" and impl[1] == d and impl[2].startswith(m)
        elif parts[0] == "pass":
            # past the modelled checks: whatever happens is not one of the modelled answers
            ok = not (impl[0] == "alert" and any(impl[2].startswith(x) for x in msgs if not x.startswith("parse")) and impl[2] != "")
            if impl[0] == "tlserror" and impl[1] == "TLSInternalError" and "Multiple extensions" in impl[2]:
                ok = False
        elif parts[0] == "escape":
            if parts[1] == "dup":
                ok = impl[0] == "tlserror" and impl[1] == "TLSInternalError"
            elif parts[1] == "py":
                ok = impl[0] == "escape" and impl[1] == parts[2].split(":")[0]
            else:
                ok = impl[0] == "tlserror"
        if not ok:
            ctx.disagree("clienthello-checks", case, mo, impl)
    # the certificate-type test after cipher suite selection, on otherwise plain hellos
    if lc is None:
        return
    for tls13 in (False, True):
        for ct in ("-", ("P", None), ("P", []), ("P", [0]), ("P", [1]), ("P", [1, 0]), "D"):
            f = gen_ch_features(rng, {"cv": 0x0303, "sv": ("P", [0x0304, 0x0303]) if tls13 else "-", "sa": ("P", 4), "alpn": "-",
                                      "sni": ("P", [(0, "o")]), "ems": ("P", False), "ecpf": ("P", [0]), "pha": "-",
                                      "pm": ("P", [1]) if tls13 else "-", "psk": "-", "sg": ("P", [29, 23]),
                                      "ks": ("P", [29]) if tls13 else "-", "ed": "-", "hb": "-", "rsl": "-", "ct": ct,
                                      "pe": 0, "se": 0, "ce": 0, "nc": 1, "_min": 0x0301, "_dupval": {"ct": [0]}})
            f["_vers"] = server_versions(f["_min"])
            # the chain first; the certificate-type test only for hellos the chain lets pass
            mo = lc.ask(ch_feature_line(f))
            if mo == "pass":
                mo = lc.ask(ch_feature_line(f).replace("ch ", "ctchk ", 1))
            impl, L = run_ch_features(f)
            ctx.compared()
            ctx.case(key=("ctchk", tls13, repr(ct)), sample=None)
            judge(J, L, "server", "client_hello cert_type", {"stage": "ch-features", "features": f, "msg": "client_hello",
                                                            "cls": "cert-type", "scn": "features"})
            parts = mo.split(":", 2)
            if parts[0] == "alert" and parts[2].startswith("parse"):
                ok = impl[0] == "alert" and impl[1] == int(parts[1])
            elif parts[0] == "alert":
                ok = impl[0] == "alert" and impl[1] == int(parts[1]) and impl[2].startswith(norm_msg(parts[2]))
            elif parts[0] == "pass":
                ok = impl == ("other", "stall", "")
            elif parts[1] == "dup":
                ok = impl[0] == "tlserror" and impl[1] == "TLSInternalError"
            else:
                ok = impl[0] == "escape" and impl[1] == parts[2].split(":")[0]
            if not ok:
                ctx.disagree("clienthello-cert-type-check", {"tls13": tls13, "ct": repr(ct)}, mo, impl)


# ---- (i) the _getMsg / _getNextRecord loops ---------------------------------------------------
def gen_loop_case(rng):
    v13 = rng.random() < 0.5
    client = rng.random() < 0.5
    exp = rng.choice([[22], [22], [23], [23, 22], [21, 23], [20], [22, 20]])
    sec = [24] if v13 else rng.choice([[14], [14, 4], [14, 1]])
    cfg = {"v13": v13, "exp": exp, "sec": sec, "client": client, "open": rng.random() < 0.5, "mbox": rng.random() < 0.8,
           "hbs": rng.random() < 0.5, "hbr": rng.random() < 0.7}

    def hs(t):
        body = {14: b"", 24: bytes([rng.choice([0, 1])]), 4: b"\x00\x00\x01\x00\x00\x03abc", 0: b"", 1: b"\x03\x03" + b"\x00" * 40,
                20: b"\x00" * 12, 11: b"\x00\x00\x00", 99: b"zz"}[t]
        return bytes([t]) + len(body).to_bytes(3, "big") + body
    items = []
    n = rng.choice([1, 2, 3, 4, 6, 10])
    for _ in range(n):
        r = rng.random()
        if r < 0.40:
            t = rng.choice(sec + sec + [0, 1, 14, 24, 20, 99])
            m = hs(t)
            if rng.random() < 0.35 and len(m) > 1:
                k = rng.randrange(1, len(m))
                items.append(("r", 22, m[:k], 0))
                if rng.random() < 0.25:
                    items.append(rng.choice([("r", 23, b"x", 0), ("r", 21, b"\x01\x5a", 0), ("r", 24, b"\x01\x00\x01A" + b"\x00" * 16, 0)]))
                items.append(("r", 22, m[k:], 0))
            elif rng.random() < 0.3:
                items.append(("r", 22, m + hs(rng.choice(sec + [14, 24])), 0))
            else:
                items.append(("r", 22, m, 0))
        elif r < 0.55:
            items.append(("r", 23, rng.choice([b"", b"", b"data", b"x" * 40]), 0))
        elif r < 0.67:
            items.append(("r", 21, rng.choice([b"\x01\x00", b"\x02\x28", b"\x01\x5a", b"\x02\x00", b"\x00\x0a", b"\x01", b"\x01\x5a\x02\x28", b"\x03\x14"]), 0))
        elif r < 0.77:
            items.append(("r", 24, rng.choice([b"\x01\x00\x01A" + b"\x00" * 16, b"\x01\x00\x01A" + b"\x00" * 3, b"\x02\x00\x00" + b"\x00" * 16,
                                               b"\x01\xff\xffA", b"\x01", b"\x07\x00\x00" + b"\x00" * 16]), 0))
        elif r < 0.87:
            items.append(("r", 20, rng.choice([b"\x01", b"\x02", b"\x01\x01", b"\x00"]), 0))
        elif r < 0.92:
            items.append(("r", rng.choice([20, 21, 22, 24]), b"", 0))
        elif r < 0.96:
            items.append(("b", rng.choice(["recRecordOverflow", "recIllegalParameter"])))
        else:
            items.append(("r", 22, bytes([rng.choice([1, 1, 2, 4])]) + b"\x03\x01" + b"\x00" * 8, 1))
    d = {"ccs": b"", "alert": b"", "hs": b""}
    if rng.random() < 0.2:
        d["hs"] = hs(rng.choice(sec + [14]))[:rng.choice([1, 2, 3, 4, 5])]
    if rng.random() < 0.1:
        d["alert"] = rng.choice([b"\x01", b"\x01\x00", b"\x02\x28\x01"])
    if rng.random() < 0.05 and not v13:
        d["ccs"] = b"\x01"
    return cfg, d, items


def item_bytes(it, ver):
    if it[0] == "b":
        if it[1] == "recRecordOverflow":
            return rec(22, b"", ver=ver, length=16384 + 2049)
        return b"\x00\x05\x09"
    _, t, data, ssl2 = it
    if ssl2:
        return bytes([0x80 | (len(data) >> 8), len(data) & 0xff]) + data
    return rec(t, data, ver=ver)


def loop_line(cfg, d, items):
    from ..leanclient import hx
    ins = ";".join(("r:%d:%s:%d" % (i[1], hx(i[2]), i[3])) if i[0] == "r" else "b:" + i[1] for i in items) or "-"
    b = lambda x: "1" if x else "0"
    return "getmsg v13=%s exp=%s sec=%s client=%s open=%s mbox=%s hbs=%s hbr=%s dccs=%s dalert=%s dhs=%s in=%s" % (
        b(cfg["v13"]), ",".join(map(str, cfg["exp"])), ",".join(map(str, cfg["sec"])), b(cfg["client"]), b(cfg["open"]),
        b(cfg["mbox"]), b(cfg["hbs"]), b(cfg["hbr"]), hx(d["ccs"]), hx(d["alert"]), hx(d["hs"]), ins)


def real_getmsg(cfg, d, items, session_closed_variant):
    """the real `_getMsg` on a plaintext TLSConnection fed with the records; returns an observation dict"""
    from harness import memsock, lab
    from tlslite.tlsconnection import TLSConnection
    from tlslite.session import Session
    from tlslite import errors
    link, cs, ss = memsock.pair()
    conn = TLSConnection(ss)
    ver = (3, 4) if cfg["v13"] else (3, 3)
    conn.version = ver
    conn._client = cfg["client"]
    if cfg["open"]:
        conn.session = Session()
        conn.session.resumable = True
        conn.closed = False
    elif session_closed_variant:
        conn.session = Session()
        conn.session.resumable = True
        conn.closed = True
    else:
        conn.session = None
        conn.closed = False
    conn._middlebox_compat_mode = cfg["mbox"]
    conn.heartbeat_supported = cfg["hbs"]
    conn.heartbeat_can_receive = cfg["hbr"]
    for t, k in ((20, "ccs"), (21, "alert"), (22, "hs")):
        if d[k]:
            conn._defragmenter.add_data(t, bytearray(d[k]))
    sizes = [len(item_bytes(i, (3, 3))) for i in items]
    for i in items:
        link.inject("c2s", item_bytes(i, (3, 3)))
    cnt = {"iters": 0, "extracts": 0}
    orig_next = conn._getNextRecord
    orig_get = conn._defragmenter.get_message

    def next_rec():
        cnt["iters"] += 1
        return orig_next()

    def get_message():
        r = orig_get()
        if r is not None:
            cnt["extracts"] += 1
        return r
    conn._getNextRecord = next_rec
    conn._defragmenter.get_message = get_message
    exp = tuple(cfg["exp"]) if len(cfg["exp"]) > 1 else cfg["exp"][0]
    sec = tuple(cfg["sec"]) if len(cfg["sec"]) > 1 else cfg["sec"][0]
    gen = conn._getMsg(exp, sec)
    obs = {}
    steps = 0
    try:
        with Watchdog(6):
            while True:
                r = next(gen)
                steps += 1
                if r == 0:
                    if not link.q["c2s"]:
                        obs["outcome"] = "blocked"
                        break
                    if steps > 10000:
                        obs["outcome"] = "spin"
                        break
                    continue
                if r == 1:
                    continue
                obs["outcome"] = "delivered"
                ct = r.contentType
                if ct == 21:
                    payload = bytes([r.level, r.description])
                elif ct == 20:
                    payload = bytes([r.type])
                else:
                    payload = bytes(r.write())
                obs["delivered"] = (ct, payload)
                break
    except StopIteration:
        obs["outcome"] = "stop"
    except BaseException as e:
        if isinstance(e, (KeyboardInterrupt, SystemExit)):
            raise
        obs["outcome"] = "spin" if isinstance(e, Hang) else "failed"
        obs["exc"] = lab.exc_class(e)
        if isinstance(e, errors.TLSRemoteAlert):
            obs["exc"] = "remote_alert:%d:%d" % (e.level, e.description)
    left = len(link.q["c2s"]) + len(conn.sock._read_buffer)     # BufferedSocket reads ahead
    k = 0
    while left > 0 and k < len(sizes):
        k += 1
        left -= sizes[-k]
    obs["rest"] = k if left == 0 else -1
    obs.update(cnt)
    recs = link.records("s2c")
    obs["warnings"] = sum(1 for t, v, b in recs if t == 21 and bytes(b) == b"\x01\x64")
    obs["wire"] = [(b[0], b[1]) for t, v, b in recs if t == 21 and len(b) == 2 and bytes(b) != b"\x01\x64"]
    obs["closed"] = conn.closed
    obs["session"] = None if conn.session is None else bool(conn.session.resumable)
    df = conn._defragmenter.buffers
    obs["buf"] = "%d.%d.%d" % (len(df[20]), len(df[21]), len(df[22]))
    return obs


def loop_correspondence(ctx, n):
    from ..leanclient import unhx
    lc = ctx.lean()
    rng = ctx.rng
    cases = [gen_loop_case(rng) for _ in range(n)]
    lines = [loop_line(*c) for c in cases]
    outs = lc.batch(lines) if lc is not None else [None] * len(lines)
    spins = 0
    for (cfg, d, items), line, mo in zip(cases, lines, outs):
        variant = rng.random() < 0.5
        obs = real_getmsg(cfg, d, items, variant)
        ctx.case(key=("loop", line), nontrivial=True,
                 sample={"getMsg_inputs": line[:300], "model": mo, "impl": dict(obs)} if ctx.evaluations % 331 == 0 else None)
        # the no-spin / linear-work oracle on the real loop, from the property text
        work_bound = 2 * (len(items) + sum(len(i[2]) for i in items if i[0] == "r") + len(d["hs"]) + len(d["alert"]) + len(d["ccs"])) + 2
        if obs["outcome"] == "spin":
            spins += 1
            if spins > 2:
                ctx.count("loop-correspondence-stopped-after-repeated-spins")
                break
        if obs["outcome"] == "spin" or obs["iters"] > work_bound:
            ctx.violation("c08:getMsg-loop-spins", "the _getMsg loop made %d passes over %d records without finishing (outcome %s)"
                          % (obs["iters"], len(items), obs["outcome"]), {"stage": "loop", "line": line})
        if obs["outcome"] == "failed" and obs.get("exc", "").startswith("python:"):
            ctx.violation("c08:getMsg-%s" % obs["exc"].split(":")[1], "_getMsg raised %s on a record sequence" % obs["exc"],
                          {"stage": "loop", "line": line})
        if mo is None:
            continue
        ctx.compared()
        if mo == "bad-op":
            ctx.disagree("getmsg-driver", line, mo, obs)
            continue
        parts = mo.split(" ")
        head = parts[0]
        m = dict(p.split("=") for p in parts[1:])
        ctx.count("loop-model:" + head.split(":")[0])
        ok = True
        why = ""
        if head == "blocked":
            ok = obs["outcome"] == "blocked"
        elif head.startswith("delivered:"):
            _, t, hexd = head.split(":")
            ok = obs["outcome"] == "delivered" and obs["delivered"] == (int(t), unhx(hexd))
            if not ok and obs["outcome"] == "delivered" and int(t) == 22 and obs["delivered"][0] == 22 and \
                    unhx(hexd)[:1] == b"\x01" and obs["delivered"][1][:1] == b"\x01":
                ok = True      # a ClientHello object re-serialises differently (SSLv2 form, defaults): same message type
            if not ok and int(t) in (20, 22) and obs["outcome"] == "failed" and obs.get("exc") in ("local_alert:50", "local_alert:47") \
                    and obs["wire"] == [(2, int(obs["exc"].split(":")[1]))] and obs["closed"]:
                # the model hands the bytes to the (unmodelled) message parser; the parser rejected them and the
                # SyntaxError / TLSIllegalParameterException mapping of _getMsg answered: the error-table rows
                # msgSyntaxError / msgIllegalParameter, compared in the error-table stream
                ok = True
                ctx.count("loop-delivered-then-parser-rejected")
        elif head.startswith("failed:"):
            kind = head[len("failed:"):]
            kp = kind.split(":")
            q = "err kind=%s a=%s b=%s closed=%d session=%s handler=inner" % (
                kp[0], kp[1] if len(kp) > 1 else "0", kp[2] if len(kp) > 2 else "0",
                0 if (cfg["open"] or not variant) else 1, "-" if (not cfg["open"] and not variant) else "1")
            eff = dict(p.split("=") for p in lc.ask(q).split(" "))
            wire = [] if eff["wire"] == "-" else [tuple(int(x) for x in w.split(".")) for w in eff["wire"].split(",")]
            ok = (obs["outcome"] == "failed" and obs.get("exc") == eff["exc"]
                  and obs["wire"] == wire and obs["closed"] == (eff["closed"] == "1")
                  and obs["session"] == (None if eff["session"] == "-" else eff["session"] == "1"))
            why = "effects " + str(eff)
        else:
            ok = False
        if ok:
            ok = (obs["iters"] == int(m["iters"]) and obs["extracts"] == int(m["extracts"]) and obs["warnings"] == int(m["warnings"])
                  and obs["rest"] == int(m["rest"]) and obs["buf"] == m["buf"])
        if not ok:
            ctx.disagree("getmsg-loop", {"line": line, "why": why}, mo, obs)


# ---- (ii) the error table and the shutdown discipline ---------------------------------------
def observe_effects(L, victim, recs_before, peer_reads=True):
    """what the model's Effects talk about, read off a finished lab case"""
    from harness import lab
    from tlslite import errors
    v = L.end(victim)
    peer = L.end("client" if victim == "server" else "server")
    tx = "c2s" if victim == "client" else "s2c"
    recs = L.link.records(tx)[recs_before:]
    wire = []
    for t, ver, b in recs:
        if t == 21 and len(b) == 2:
            wire.append((b[0], b[1]))
        else:
            wire.append(("enc", t))
    if wire and wire[-1][0] == "enc" and peer_reads:
        # decrypt through the peer
        for _ in range(4):
            r = L.read(peer.name, max=16384)
            if r[0] == "error" and isinstance(r[1], errors.TLSRemoteAlert):
                wire[-1] = (r[1].level, r[1].description)
                break
            if r[0] == "ok" and peer.conn.closed:
                wire[-1] = (1, 0)
                break
            if r[0] != "ok":
                break
    e = v.exc if v.state == "error" else None
    if e is None:
        exc = "none"
    elif isinstance(e, errors.TLSRemoteAlert):
        exc = "remote_alert:%d:%d" % (e.level, e.description)
    else:
        exc = lab.exc_class(e)
        if exc.startswith("tls_error:") or (exc.startswith("python:") and isinstance(e, errors.BaseTLSException)):
            exc = "internal"
        elif exc.startswith("python:"):
            exc = "python:" + type(e).__name__
    sess = v.conn.session
    return {"wire": wire, "closed": bool(v.conn.closed), "session": None if sess is None else bool(sess.resumable), "exc": exc}


def error_table_correspondence(ctx, J):
    from harness import lab
    lc = ctx.lean()
    if lc is None:
        return
    scns = {s.name: s for s in all_scenarios()}
    rows = []

    # --- established connections, the victim reads (handler rd, session resumable)
    def established(sname, victim, act, kind, a=0, b=0):
        scn = scns[sname]
        L = lab.Lab()
        scn.start(L)
        L.run()
        if L.client.state != "done" or L.server.state != "done":
            ctx.count("error-table-baseline-failed:" + sname)
            return
        post_exchange(L)
        v = L.end(victim)
        peer = "client" if victim == "server" else "server"
        rx = "s2c" if victim == "client" else "c2s"
        tx = "c2s" if victim == "client" else "s2c"
        for _ in range(3):          # drain what the ping-pong left behind (1/n-1 split records)
            if L.read(victim, max=16384)[0] != "ok":
                break
        v.state = "idle"
        before = len(L.link.records(tx))
        had_session = v.conn.session is not None and v.conn.session.resumable
        act(L, victim, peer, rx)
        for _ in range(4):
            if L.read(victim, max=16384)[0] != "ok":
                break
        if v.state == "stall":
            v.state = "done"
        obs = observe_effects(L, victim, before)
        rows.append((kind, a, b, "rd", False, True if had_session else None, obs, "%s/%s" % (sname, victim), None))

    def send(ct, data):
        def act(L, victim, peer, rx):
            pc = L.end(peer).conn
            L.op(peer, pc._sendMsgThroughSocket(RawMessage(ct, data)), pump_other=False)
        return act

    def inject(data):
        return lambda L, victim, peer, rx: L.link.inject(rx, data)

    def eof(L, victim, peer, rx):
        L.link.closed[rx] = True

    def reset(L, victim, peer, rx):
        s = L.end(victim).sock
        s.faults[("recv", s.recv_calls)] = "reset"
    established("tls12-ecdhe-rsa", "server", inject(rec(23, b"\x17" * 64)), "recBadRecordMac")
    established("tls13-x25519", "client", inject(rec(23, b"\x17" * 64, ver=(3, 3))), "recBadRecordMac")
    established("tls10-rsa-aes-noetm", "server", inject(rec(23, b"\x17" * 17, ver=(3, 1))), "recDecryptionFailed")
    established("tls10-rsa-aes-noetm", "client", inject(rec(23, b"\x17" * 64, ver=(3, 1))), "recBadRecordMac")
    established("tls11-rsa-3des", "server", inject(rec(23, b"\x17" * 48, ver=(3, 2))), "recBadRecordMac")
    established("tls12-ecdhe-rsa", "client", inject(rec(23, b"", length=16384 + 2049)), "recRecordOverflow")
    established("tls13-x25519", "server", inject(rec(23, b"", length=16384 + 257, ver=(3, 3))), "recRecordOverflow")
    established("tls13-x25519", "server", send(0, b"\x00\x00\x00"), "recUnexpectedMessage")
    established("tls13-x25519", "client", send(99, b"xx"), "recUnknownContentType")
    established("tls12-ecdhe-rsa", "server", send(22, b""), "recEmptyNonAppData")
    established("tls13-x25519", "server", send(21, b""), "recEmptyNonAppData")
    established("tls12-ecdhe-rsa", "server", send(21, b"\x02\x28"), "remoteAlert", 2, 40)
    established("tls12-ecdhe-rsa", "client", send(21, b"\x01\x5a"), "remoteAlert", 1, 90)
    established("tls13-x25519", "client", send(21, b"\x02\x50"), "remoteAlert", 2, 80)
    established("tls12-ecdhe-rsa", "server", send(21, b"\x03\x14"), "remoteAlert", 3, 20)
    established("tls12-ecdhe-rsa", "server", send(21, b"\x01\x00"), "remoteAlert", 1, 0)
    established("tls13-x25519", "server", send(21, b"\x02\x00"), "remoteAlert", 2, 0)
    established("tls12-ecdhe-rsa", "server", eof, "abruptClose")
    established("tls13-x25519", "client", eof, "abruptClose")
    established("tls12-ecdhe-rsa", "server", reset, "socketError")
    established("tls13-x25519", "server", send(22, b"\x18\x00\x00\x02\x00\x00"), "msgSyntaxError")
    established("tls12-ecdhe-rsa", "server", send(20, b"\x01"), "unexpectedRecordType")
    established("tls12-ecdhe-rsa", "server", send(22, b"\x14\x00\x00\x0c" + b"\x00" * 12), "unexpectedRecordType")
    established("tls13-x25519", "client", send(22, b"\x14\x00\x00\x20" + b"\x00" * 32), "unexpectedHandshakeType")
    established("tls13-x25519", "client", send(22, b"\x18\x00\x00\x01\x00" + b"\x18\x00\x00\x01\x00"), "notAligned13")

    # --- during the handshake (handler hs, no session yet): through mutations of real flights
    def during(sname, side, msgname, steps, kind, a=0, b=0, py=None):
        scn = scns[sname]
        base = Baseline(scn)
        if not base.ok:
            return
        idx = [i for i, (n, ct, data, _) in enumerate(base.msgs[side]) if n == msgname]
        if not idx:
            return
        d = {"op": "multi", "steps": steps, "label": msgname, "cls": "error-table", "pver": list(base.ctxm["version"])} \
            if isinstance(steps, list) else dict(steps, label=msgname, cls="error-table", pver=list(base.ctxm["version"]))
        victim = "server" if side == "client" else "client"
        for close_socket in (True, False):
            # closeSocket=False: the application keeps the socket, the alert must go out by the library's own write
            L, applied, peak = run_handshake_case(scn, side, idx[0], d, base.ctxm, close_socket=close_socket)
            obs = observe_effects(L, victim, 0, peer_reads=False)
            if kind in ("msgIllegalParameter", "msgBadCertificate") and sname.startswith("tls13"):
                # encrypted flight: the alert is read by the peer
                pe = L.end(side).exc
                obs["wire"] = [(pe.level, pe.description)] if getattr(pe, "description", None) is not None else obs["wire"]
            else:
                obs["wire"] = [w for w in obs["wire"] if w[0] in (1, 2)]
            rows.append((kind, a, b, "hs", True, None, obs,
                         "%s/%s/%s%s" % (sname, victim, msgname, "" if close_socket else "/closeSocket=False"), py))
    during("tls12-ecdhe-rsa", "client", "handshake:client_hello", {"op": "trunc_msg", "at": 20}, "msgSyntaxError")
    during("tls12-ecdhe-rsa", "server", "handshake:server_hello", {"op": "trunc_msg", "at": 10}, "msgSyntaxError")
    during("tls13-x25519", "server", "handshake:compressed_certificate",
           [{"find": ["algorithm"], "op": "set_uint", "value": 0x7777}], "msgIllegalParameter")
    during("tls13-x25519", "server", "handshake:compressed_certificate",
           [{"find": ["uncompressed_length"], "op": "set_uint_delta", "delta": 1}], "msgBadCertificate")
    during("tls12-ecdhe-rsa", "client", "handshake:client_hello",
           [{"find": ["compression_methods", "method"], "op": "set_uint", "value": 1}], "semantic", 47)
    during("tls12-ecdhe-rsa", "client", "handshake:client_hello", [{"find": ["cipher_suites"], "op": "empty"}], "semantic", 50)
    during("tls12-ecdhe-rsa", "client", "handshake:client_hello", {"op": "insert_before", "data": "0228", "ctype": 21},
           "remoteAlert", 2, 40)
    during("tls12-ecdhe-rsa", "server", "handshake:server_hello", {"op": "insert_before", "data": "0100", "ctype": 21},
           "remoteAlert", 1, 0)
    during("tls12-ecdhe-rsa", "server", "handshake:certificate", {"op": "wrong_ctype", "ctype": 23}, "unexpectedRecordType")
    during("tls12-ecdhe-rsa", "server", "handshake:certificate", {"op": "byte_set", "pos": 0, "value": 12}, "unexpectedHandshakeType")
    during("tls13-x25519", "server", "change_cipher_spec", {"op": "raw_replace", "data": "02"}, "invalidCcs13")
    during("tls12-ecdhe-rsa", "client", "handshake:client_hello", [{"find": ["extensions"], "op": "dup_item", "i": 0}],
           "msgIllegalParameter")
    during("tls13-x25519", "client", "handshake:client_hello", [{"find": ["ext:supported_versions", "ext_data"], "op": "empty"}],
           "semantic", 50)
    for (kind, a, b, handler, closed0, sess0, obs, where, py) in rows:
        q = "err kind=%s a=%d b=%d closed=%d session=%s handler=%s%s" % (
            kind, a, b, 1 if closed0 else 0, "-" if sess0 is None else ("1" if sess0 else "0"), handler,
            (" py=" + py) if py else "")
        mo = lc.ask(q)
        ctx.compared()
        ctx.case(key=("errtab", q, where), sample={"error_kind": q, "where": where, "model": mo, "impl": obs}
                 if kind in ("recBadRecordMac", "internalNoAlert") else None)
        if mo == "bad-op":
            ctx.disagree("error-table-driver", q, mo, obs)
            continue
        eff = dict(p.split("=") for p in mo.split(" "))
        wire = [] if eff["wire"] == "-" else [tuple(int(x) for x in w.split(".")) for w in eff["wire"].split(",")]
        want_exc = eff["exc"]
        ok_exc = obs["exc"] == want_exc
        if handler == "rd" and want_exc.startswith("remote_alert:") and want_exc.endswith(":0"):
            ok_exc = obs["exc"] == "none"           # readAsync swallows the peer's close_notify and returns
        ok = (ok_exc and [tuple(w) for w in obs["wire"]] == wire and obs["closed"] == (eff["closed"] == "1")
              and obs["session"] == (None if eff["session"] == "-" else eff["session"] == "1"))
        ctx.count("error-table:" + kind)
        if not ok:
            ctx.disagree("error-table", {"query": q, "where": where}, mo, obs)


# ---- (iv) CompressedCertificate accept rule --------------------------------------------------
def decompress_correspondence(ctx, bases):
    import zlib
    from tlslite.messages import CompressedCertificate
    from tlslite.utils.codec import Parser, BadCertificateError
    from tlslite import errors
    lc = ctx.lean()
    base = bases.get("tls13-x25519")
    if lc is None or base is None or not base.ok:
        return
    msg = [d for n, ct, d, _ in base.msgs["server"] if n == "handshake:compressed_certificate"]
    if not msg:
        return
    body = msg[0][4:]
    declared0 = int.from_bytes(body[2:5], "big")
    stream0 = bytes(body[8:])
    payload = zlib.decompress(stream0)
    rng = ctx.rng
    streams = [("ok", stream0), ("truncated-8", stream0[:-8]), ("truncated-half", stream0[:len(stream0) // 2]),
               ("one-byte", stream0[:1]), ("garbage", b"\x00" * 40), ("bomb", zlib.compress(payload + b"\x00" * 3000000, 9)),
               ("longer", zlib.compress(payload + b"\x00")), ("shorter", zlib.compress(payload[:-1])),
               ("empty-stream", zlib.compress(b"")), ("trailing", stream0 + b"\x00\x00"), ("empty", b"")]
    for _ in range(6):
        b = bytearray(stream0)
        b[rng.randrange(2, len(b))] ^= 1 << rng.randrange(8)
        streams.append(("bitflip", bytes(b)))
    lines, want = [], []
    for sname, st in streams:
        for declared in sorted(set([declared0, declared0 - 1, declared0 + 1, 0, 1, 1000, 0xffffff, len(payload) + 1, len(payload) - 1])):
            for algo in (1, 0x7777):
                # abstraction of the stream, computed with zlib directly
                corrupt, avail, complete = False, 0, False
                try:
                    d = zlib.decompressobj(15)
                    out = d.decompress(st, declared + 1)
                    avail, complete = len(out), d.eof
                    if len(out) == declared + 1:
                        complete = True        # irrelevant once more than `declared` bytes came out
                        avail = declared + 1 + (0 if d.eof else 1)
                except zlib.error:
                    corrupt = True
                mb = algo.to_bytes(2, "big") + declared.to_bytes(3, "big") + len(st).to_bytes(3, "big") + st
                mb = len(mb).to_bytes(3, "big") + mb
                try:
                    if sname in ("longer", "shorter", "empty-stream"):
                        # another payload: the accept rule is `_decompress` (what follows is the Certificate parser)
                        obj = CompressedCertificate(0, (3, 4))
                        obj.compression_algo = algo
                        obj._decompress(bytearray(st), declared)
                    else:
                        CompressedCertificate(0, (3, 4)).parse(Parser(bytearray(mb)))
                    impl = ("1", "-")
                except errors.TLSIllegalParameterException:
                    impl = ("0", "47")
                except BadCertificateError:
                    impl = ("0", "42")
                except SyntaxError:
                    impl = ("0", "50")
                except Exception as e:
                    impl = ("exception", type(e).__name__)
                lines.append("decomp declared=%d clen=%d known=%d avail=%d complete=%d corrupt=%d"
                             % (declared, len(st), 1 if algo == 1 else 0, avail, 1 if complete else 0, 1 if corrupt else 0))
                want.append((impl, sname, declared, algo))
    outs = lc.batch(lines)
    for line, mo, (impl, sname, declared, algo) in zip(lines, outs, want):
        ctx.compared()
        ctx.case(key=("decomp", line, sname), sample=None)
        ctx.count("decomp:" + sname)
        m = dict(p.split("=") for p in mo.split(" ")) if mo != "bad-op" else {}
        if not m or (m["accepted"], m["alert"]) != impl:
            ctx.disagree("compressed-certificate-accept", {"line": line, "stream": sname}, mo, impl)
        if impl[0] == "exception":
            ctx.violation("c08:compressed-certificate-%s-%s" % (sname, impl[1]),
                          "CompressedCertificate.parse raised %s for stream %s declared %d" % (impl[1], sname, declared),
                          {"stage": "decomp", "line": line})
        real_len = {"longer": len(payload) + 1, "shorter": len(payload) - 1, "empty-stream": 0}.get(sname, len(payload))
        if impl[0] == "1" and not (sname in ("ok", "trailing", "longer", "shorter", "empty-stream") and declared == real_len
                                   and algo == 1):
            ctx.violation("c08:compressed-certificate-accepted-wrong-length",
                          "CompressedCertificate accepted stream %s with declared length %d (real %d)" % (sname, declared, real_len),
                          {"stage": "decomp", "line": line})


# ---- (iii) ServerHello checks -------------------------------------------------------------------
def sh_correspondence(ctx, J, bases):
    from harness import lab
    from tlslite import errors
    lc = ctx.lean()
    if lc is None:
        return
    msgs = set(norm_msg(m) for m in model_strings())
    B13 = dict(pe=0, v=771, sv="772", al=1, hrr=0, sid=1, co=1, cto=1, cn=1, tack=0, npn=0, ems="-", alpn="-", afo=1, hb="-",
               ecpf="-", rsl="-",
               ks="29", psk="-", cmin=772, cmax=772, cvers="772,771,770,769", rems=0, stack=0, snpn=0, salpn=1, uhb=1, hbcb=0,
               shares="L23,29", pskn="N")
    BPSK = dict(B13, psk="0", pskn="1", salpn=0)
    E = lambda name, steps, **over: (name, steps, over)
    X = lambda t, body: (t.to_bytes(2, "big") + (len(body) // 2).to_bytes(2, "big") + bytes.fromhex(body)).hex()
    ins = lambda t, body: {"find": ["extensions"], "op": "insert_raw_item", "i": 9999, "data": X(t, body)}
    cases13 = [
        E("plain", []),
        E("no-key-share", [{"find": ["extensions"], "op": "del_named", "name": "ext:key_share"}], ks="-"),
        E("empty-key-share", [{"find": ["ext:key_share", "ext_data"], "op": "empty"}], ks="N"),
        E("other-group", [{"find": ["ext:key_share", "group"], "op": "set_uint", "value": 24}], ks="24"),
        E("dup-key-share", [{"find": ["extensions"], "op": "dup_named", "name": "ext:key_share"}], ks="D"),
        E("dup-supported-versions", [{"find": ["extensions"], "op": "dup_named", "name": "ext:supported_versions"}], sv="D"),
        E("psk-unsolicited", [ins(41, "0000")], psk="0"),
        E("psk-unsolicited-empty", [ins(41, "")], psk="N"),
        E("session-id", [{"find": ["session_id"], "op": "set_bytes", "data": "aa" * 32}], sid=0),
        E("cipher", [{"find": ["cipher_suite"], "op": "set_uint", "value": 0x00ff}], co=0),
        E("compression", [{"find": ["compression_method"], "op": "set_uint", "value": 1}], cn=0),
        E("version-1.4", [{"find": ["ext:supported_versions", "version"], "op": "set_uint", "value": 0x0305}], sv="773"),
        E("version-1.1", [{"find": ["ext:supported_versions", "version"], "op": "set_uint", "value": 0x0302}], sv="770"),
        E("alpn-in-sh", [ins(16, "0003026832")], alpn="L2"),
        E("alpn-two", [ins(16, "000602683202" + "6833")], alpn="L2,2"),
        E("alpn-empty-list", [ins(16, "0000")], alpn="L"),
        E("alpn-not-offered", [ins(16, "0003027a7a")], alpn="L2", afo=0),
        E("heartbeat-3", [ins(15, "03")], hb="3"),
        E("heartbeat-1", [ins(15, "01")], hb="1"),
        E("rsl-empty", [ins(28, "")], rsl="N"),
        E("rsl-63", [ins(28, "003f")], rsl="63"),
        E("rsl-16385", [ins(28, "4001")], rsl="16385"),
        E("rsl-ok", [ins(28, "4000")], rsl="16384"),
        E("ems-dup", [ins(23, ""), ins(23, "")], ems="D"),
        E("npn-unsolicited", [ins(13172, "")], npn=0),
        E("not-aligned", {"op": "append_msg", "data": "08000002" + "0000"}, al=0),
    ]
    casespsk = [
        E("plain", []),
        E("psk-empty-body", [{"find": ["ext:pre_shared_key", "ext_data"], "op": "empty"}], psk="N"),
        E("psk-out-of-range", [{"find": ["ext:pre_shared_key", "selected"], "op": "set_uint", "value": 1}], psk="1"),
        E("psk-far", [{"find": ["ext:pre_shared_key", "selected"], "op": "set_uint", "value": 65535}], psk="65535"),
        E("psk-dup", [{"find": ["extensions"], "op": "dup_named", "name": "ext:pre_shared_key"}], psk="D"),
        E("no-key-share-psk-only", [{"find": ["extensions"], "op": "del_named", "name": "ext:key_share"}], ks="-"),
        # extensions the client did not send (this client offers no ALPN)
        E("alpn-unsolicited", [ins(16, "0003026832")], alpn="L2"),
        E("alpn-unsolicited-two", [ins(16, "000602683202" + "6833")], alpn="L2,2"),
        E("alpn-unsolicited-empty", [ins(16, "0000")], alpn="L"),
        E("npn-unsolicited-protos", [ins(13172, "026832")], npn=1),
    ]
    # TLS 1.2: the extensions of the real ServerHello of the scenario give the base features
    B12 = dict(B13, sv="-", ks="-", cmin=771, cmax=771, cvers="771,770,769", ems="1", alpn="L8", hb="1", ecpf="L0", rsl="16384")
    cases12 = [
        E("plain", []),
        E("ecpf-no-payload", [{"find": ["ext:ec_point_formats", "ext_data"], "op": "empty"}], ecpf="N"),
        E("ecpf-empty-list", [{"find": ["ext:ec_point_formats", "ext_data"], "op": "set_bytes", "data": "00"}], ecpf="L"),
        E("ecpf-dup", [{"find": ["extensions"], "op": "dup_named", "name": "ext:ec_point_formats"}], ecpf="D"),
        E("alpn-dup", [{"find": ["extensions"], "op": "dup_named", "name": "ext:alpn"}], alpn="D"),
        E("rsl-empty", [{"find": ["ext:record_size_limit", "ext_data"], "op": "empty"}], rsl="N"),
        E("rsl-63", [{"find": ["ext:record_size_limit", "limit"], "op": "set_uint", "value": 63}], rsl="63"),
        E("heartbeat-3", [{"find": ["ext:heartbeat", "mode"], "op": "set_uint", "value": 3}], hb="3"),
        E("compression", [{"find": ["compression_method"], "op": "set_uint", "value": 1}], cn=0),
        E("version-1.1", [{"find": ["server_version"], "op": "set_uint", "value": 0x0302}], v=770),
    ]
    plan = [("tls13-x25519", B13, cases13), ("tls13-psk", BPSK, casespsk), ("tls12-ecdhe-rsa", B12, cases12)]
    for sname, basef, cases in plan:
        base = bases.get(sname)
        if base is None or not base.ok:
            continue
        idx = [i for i, (n, ct, data, _) in enumerate(base.msgs["server"]) if n == "handshake:server_hello"][0]
        for name, steps, over in cases:
            pv = list(base.ctxm["version"])
            d = {"op": "multi", "steps": steps, "label": "server_hello", "cls": "sh-feature-" + name, "pver": pv} \
                if isinstance(steps, list) else dict(steps, label="server_hello", cls="sh-feature-" + name, pver=pv)
            L, applied, peak = run_handshake_case(base.scn, "server", idx, d, base.ctxm)
            if L is None or applied.get("inapplicable"):
                ctx.count("sh-inapplicable:" + name)
                continue
            f = dict(basef, **over)
            line = "sh " + " ".join("%s=%s" % (k, v) for k, v in f.items())
            mo = lc.ask(line)
            v = L.client
            e = v.exc if v.state == "error" else None
            if e is None:
                impl = ("other", v.state, "")
            elif isinstance(e, errors.TLSLocalAlert):
                impl = ("alert", e.description, norm_msg(e.message or ""))
            elif isinstance(e, errors.BaseTLSException) and not isinstance(e, (errors.TLSRemoteAlert, errors.TLSAbruptCloseError)):
                impl = ("tlserror", type(e).__name__, norm_msg(str(e)))
            elif isinstance(e, (errors.TLSRemoteAlert, errors.TLSAbruptCloseError)):
                impl = ("other", "peer", "")
            else:
                impl = ("escape", type(e).__name__, exc_site(e)[1])
            ctx.compared()
            ctx.case(key=("sh", sname, name), sample={"server_hello_features": line, "model": mo, "impl": list(impl)}
                     if name in ("empty-key-share", "psk-out-of-range") else None)
            replay = {"stage": "handshake", "scn": sname, "side": "server", "target": idx, "msg": "server_hello", "desc": d,
                      "cls": d["cls"], "ctxm": base.ctxm}
            judge(J, L, "client", "server_hello " + name, replay)
            parts = mo.split(":", 2)
            if parts[0] == "alert":
                ok = impl[0] == "alert" and impl[1] == int(parts[1]) and (impl[2].startswith(norm_msg(parts[2])) or
                                                                           parts[2].startswith("parse"))
            elif parts[0] == "pass":
                ok = not (impl[0] == "alert" and impl[2] and any(impl[2].startswith(x) for x in msgs)) and impl[0] != "escape" \
                    and not (impl[0] == "tlserror" and impl[1] in ("TLSInternalError",))
            elif parts[0] == "escape" and parts[1] == "dup":
                ok = impl[0] == "tlserror" and impl[1] == "TLSInternalError"
            elif parts[0] == "escape" and parts[1] == "proto":
                ok = impl[0] == "tlserror" and impl[2].startswith(norm_msg(parts[2]))
            elif parts[0] == "escape":
                ok = impl[0] == "escape" and impl[1] == parts[2].split(":")[0]
            else:
                ok = False
            if not ok:
                ctx.disagree("serverhello-checks", {"scenario": sname, "case": name, "line": line}, mo, impl)
