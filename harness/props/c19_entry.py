"""C19, second half, further entry points and boundary values.

* SRP (handshakeClientSRP vs a verifierDB server, with and without a server certificate) and anonymous
  (EC)DH (handshakeClientAnonymous vs anon=True), with the client's minKeySize / maxKeySize at, just
  below and just above the real size of the SRP group / DH parameters;
* certificate handshakes with the key-size limits at the exact size of the server's RSA / DSA key and of
  the finite-field group (RFC 7919 group, or the server's own dhParams when the client names none);
* TLS 1.3 servers holding SEVERAL external PSKs of different hashes, clients offering subsets in
  different orders with cipherNames restricted to one PRF hash, with and without a server certificate.

Expectations are written from the documentation of HandshakeSettings (limits are inclusive: "smaller
than" / "larger than" is refused), RFC 5054, RFC 7919, RFC 8446 4.2.9/4.2.11 and the IANA suite names.
"""
from . import c19_pairs as P

V30, V31, V32, V33, V34 = P.V30, P.V31, P.V32, P.V33, P.V34
GOOD_GROUP_BITS = [1024, 1536, 2048, 3072, 4096, 6144, 8192]     # RFC 5054 appendix A


# ---------------------------------------------------------------------------------------------
# name table for the non-certificate families
# ---------------------------------------------------------------------------------------------
def parse_other(name):
    if not name.startswith("TLS_") or "_WITH_" not in name:
        return None
    kx, rest = name[4:].split("_WITH_", 1)
    kex = {"SRP_SHA": "srp_sha", "SRP_SHA_RSA": "srp_sha_rsa", "DH_ANON": "dh_anon", "ECDH_ANON": "ecdh_anon",
           "DH_anon": "dh_anon", "ECDH_anon": "ecdh_anon"}.get(kx)
    if kex is None:
        return None
    p = P.parse_suite("TLS_RSA_WITH_" + rest)      # same cipher / MAC naming
    if p is None:
        return None
    return {"kex": kex, "cipher": p["cipher"], "mac": p["mac"], "tls13": False, "name": name}


def other_table():
    from tlslite.constants import CipherSuite
    res = {}
    for sid, name in CipherSuite.ietfNames.items():
        p = parse_other(name)
        if p is not None:
            res[sid] = p
    return res


def family_suites(table, st, v, kexes):
    res = set()
    for sid, p in table.items():
        if p["kex"] in kexes and P.suite_ok_at(p, v) and p["cipher"] in st["cipherNames"] and \
                p["mac"] in st["macNames"] and p["kex"] in st["keyExchangeNames"]:
            res.add(sid)
    return res


def within(cs, bits):
    """documented meaning of the limits: parameters smaller than minKeySize or larger than maxKeySize
    are refused — the limits themselves are allowed"""
    return cs["minKeySize"] <= bits <= cs["maxKeySize"]


def entry_expectation(table, spec, cs, ss):
    """(True|False|None, why, version) for an SRP / anonymous pair"""
    # there are no SRP or anonymous suites in TLS 1.3 (RFC 8446 B.4): these entry points can only speak
    # TLS 1.2 and earlier, whatever else the client's settings enable
    if cs["minVersion"] > V33:
        return False, "client-settings-allow-only-tls13", None
    cs = dict(cs, maxVersion=min(cs["maxVersion"], V33), versions=[w for w in cs["versions"] if w <= V33])
    com = P.common_versions(cs, ss)
    if not com:
        return False, "no-common-version", None
    v = max(com)
    if v == V30:
        return None, "sslv3", v
    if (cs["requireExtendedMasterSecret"] and not ss["useExtendedMasterSecret"]) or \
            (ss["requireExtendedMasterSecret"] and not cs["useExtendedMasterSecret"]):
        return False, "extended-master-secret-required-but-not-offered", v
    if spec["entry"] == "srp":
        kexes = ["srp_sha"] + (["srp_sha_rsa"] if spec.get("cred") else [])
        both = family_suites(table, cs, v, kexes) & family_suites(table, ss, v, kexes)
        if not both:
            return False, "no-common-suite", v
        if not within(cs, spec["srp_bits"]):
            return False, "srp-group-size-outside-client-limits", v
        with_cert = [s for s in both if table[s]["kex"] == "srp_sha_rsa"]
        plain = [s for s in both if table[s]["kex"] == "srp_sha"]
        if not with_cert:
            # RFC 5054: the suites without server authentication do not use the certificate at all
            return True, "ok-plain-srp-only" if spec.get("cred") else "ok", v
        cert_ok, cert_why = True, "ok"
        if not within(cs, P.CRED_FACTS[spec["cred"]][1]):
            cert_ok, cert_why = False, "server-key-size-outside-client-limits"
        elif v == V33 and not (P.sig_schemes(cs, v) & P.sig_schemes(ss, v) & P.cred_schemes(spec["cred"], v)):
            cert_ok, cert_why = None, "srp-rsa-without-common-signature-scheme"
        if cert_ok is True:
            return True, "ok", v
        if plain:
            return None, "srp-suite-choice-decides:" + cert_why, v
        return cert_ok, cert_why, v
    # anonymous
    both = family_suites(table, cs, v, ["dh_anon", "ecdh_anon"]) & family_suites(table, ss, v, ["dh_anon", "ecdh_anon"])
    if not both:
        return False, "no-common-suite", v
    verdicts = []
    for kex in sorted(set(table[s]["kex"] for s in both)):
        if kex == "ecdh_anon":
            curves = [g for g in cs["eccCurves"] if g in ss["eccCurves"] and g not in P.TLS13_ONLY_GROUPS]
            verdicts.append((True, "ok") if curves else (False, "no-common-group"))
        else:
            verdicts.append(dh_verdict(cs, ss))
    if all(x[0] is True for x in verdicts):
        return True, "ok", v
    if all(x[0] is False for x in verdicts):
        return False, verdicts[0][1], v
    return None, "anon-suite-choice-decides:" + ",".join(x[1] for x in verdicts), v


def dh_verdict(cs, ss):
    """finite-field DH below TLS 1.3: RFC 7919 group if both name one, else the server's own parameters"""
    if cs["dhGroups"]:
        groups = [g for g in cs["dhGroups"] if g in ss["dhGroups"]]
        if not groups:
            return None, "dhe-no-common-named-group"
        inside = [g for g in groups if within(cs, P.FFDHE_BITS[g])]
        if len(inside) == len(groups):
            return True, "ok"
        if not inside:
            return False, "dh-group-size-outside-client-limits"
        return None, "dhe-some-group-outside-client-limits"
    bits = ss.get("dhParamsBits")
    if bits is None:
        return None, "dhe-server-default-parameters"
    return (True, "ok") if within(cs, bits) else (False, "dh-group-size-outside-client-limits")


# ---------------------------------------------------------------------------------------------
# running
# ---------------------------------------------------------------------------------------------
def good_params(bits):
    from tlslite.mathtls import goodGroupParameters
    from tlslite.utils.cryptomath import numBits
    for g, p in goodGroupParameters[:7]:
        if numBits(p) == bits:
            return (g, p)
    raise KeyError(bits)


_VERIFIERS = {}


def verifier_db(bits):
    from tlslite.verifierdb import VerifierDB
    if bits not in _VERIFIERS:
        db = VerifierDB()
        db.create()
        db[b"alice"] = VerifierDB.makeVerifier(b"alice", bytearray(b"correct horse"), bits)
        _VERIFIERS[bits] = db
    return _VERIFIERS[bits]


def sdict(s):
    from tlslite.utils.cryptomath import numBits
    d = P.settings_dict(s)
    d["dhParamsBits"] = numBits(s.dhParams[1]) if s.dhParams else None
    return d


def run_entry_pair(spec):
    from harness import lab
    try:
        c = P.mk_settings(spec["client"])
        s = P.mk_settings(spec["server"])
        if spec.get("server_dh_bits"):
            s.dhParams = good_params(spec["server_dh_bits"])
        cset, sset = c.validate(), s.validate()
    except ValueError as e:
        return {"outcome": "invalid", "why": str(e)[:120]}
    from .c19_use import Watch
    watch = Watch({"client": c, "client.validated": cset, "server": s, "server.validated": sset})
    ref = {"cset": sdict(cset), "sset": sdict(sset)}
    L = lab.Lab()
    if spec["entry"] == "srp":
        skw = {"verifierDB": verifier_db(spec["srp_bits"])}
        if spec.get("cred"):
            chain, key = lab.creds(spec["cred"])
            skw.update(certChain=chain, privateKey=key)
        L.start_client(lambda conn: conn.handshakeClientSRP(bytearray(b"alice"), bytearray(b"correct horse"),
                                                            settings=cset, async_=True))
        L.start_server(lambda conn: conn.handshakeServerAsync(settings=sset, **skw))
    elif spec["entry"] == "anon":
        L.start_client(lambda conn: conn.handshakeClientAnonymous(settings=cset, async_=True))
        L.start_server(lambda conn: conn.handshakeServerAsync(settings=sset, anon=True))
    else:
        raise KeyError(spec["entry"])
    L.run()
    res = {"cset": ref["cset"], "sset": ref["sset"], "client": L.client.state, "server": L.server.state,
           "client_exc": lab.exc_class(L.client.exc), "server_exc": lab.exc_class(L.server.exc)}
    if L.client.state == "done" and L.server.state == "done":
        res["outcome"] = "complete" if P._exchange(L) else "complete-but-no-data"
        res["version"] = tuple(L.client.conn.version)
        res["suite"] = L.client.conn.session.cipherSuite
        res["dhGroupSize"] = L.client.conn.dhGroupSize
    else:
        res["outcome"] = "fail"
    res["settings_mutated"] = watch.changed()
    return res


# ---------------------------------------------------------------------------------------------
# generation
# ---------------------------------------------------------------------------------------------
def limits_around(bits):
    """(minKeySize, maxKeySize, inside?) with one limit exactly at, just below, just above `bits`"""
    lo, hi = 512, 16384
    out = []
    for m in (bits - 1, bits, bits + 1):
        if 512 <= m <= 16384:
            out.append((m, hi, m <= bits))
            out.append((lo, m, bits <= m))
    out.append((bits, bits, True))
    return out


def base(lo, hi, **kw):
    d = {"minVersion": list(lo), "maxVersion": list(hi), "versions": P.vrange(lo, hi)[::-1]}
    d.update(kw)
    return d


def entry_pairs(rng, n_random):
    """yield (label, spec) for SRP and anonymous handshakes"""
    # ---- SRP: every limit boundary x group size
    for bits in (1024, 1536, 2048):
        for (mn, mx, _) in limits_around(bits):
            for (lo, hi) in ((V31, V33), (V33, V33)) if bits == 2048 else ((V31, V33),):
                yield ("entry:srp:limits", {"entry": "srp", "srp_bits": bits,
                                            "client": base(lo, hi, minKeySize=mn, maxKeySize=mx), "server": base(V31, V33)})
    for (mn, mx, _) in limits_around(2048):
        yield ("entry:srp-rsa:limits", {"entry": "srp", "srp_bits": 1536, "cred": "rsa",
                                        "client": base(V31, V33, minKeySize=mn, maxKeySize=mx, keyExchangeNames=["srp_sha_rsa"]),
                                        "server": base(V31, V33)})
    for ciph in (["aes128"], ["aes256"], ["3des"]):
        for kex in (["srp_sha"], ["srp_sha_rsa"], ["srp_sha", "srp_sha_rsa"]):
            for cred in (None, "rsa"):
                yield ("entry:srp:one-suite", {"entry": "srp", "srp_bits": 1024, "cred": cred,
                                               "client": base(V31, V33, cipherNames=ciph, keyExchangeNames=kex),
                                               "server": base(V32, V33)})
    yield ("entry:srp:default-settings", {"entry": "srp", "srp_bits": 2048, "client": {}, "server": {}})
    # ---- anonymous: RFC 7919 group, or the server's own parameters, at the limit boundaries
    for g, bits in (("ffdhe2048", 2048), ("ffdhe3072", 3072)):
        for (mn, mx, _) in limits_around(bits):
            yield ("entry:anon:ffdhe-limits", {"entry": "anon",
                                               "client": base(V31, V33, minKeySize=mn, maxKeySize=mx, dhGroups=[g],
                                                              keyExchangeNames=["dh_anon"]),
                                               "server": base(V31, V33, dhGroups=[g, "ffdhe4096"])})
    for bits in (1024, 1536, 2048):
        for (mn, mx, _) in limits_around(bits):
            yield ("entry:anon:dhparams-limits", {"entry": "anon", "server_dh_bits": bits,
                                                  "client": base(V31, V33, minKeySize=mn, maxKeySize=mx, dhGroups=[],
                                                                 keyExchangeNames=["dh_anon"]),
                                                  "server": base(V31, V33)})
    for kex in (["ecdh_anon"], ["dh_anon"], ["ecdh_anon", "dh_anon"]):
        for curves in ((["x25519"], ["secp256r1", "x25519"]), (["secp384r1"], ["secp256r1"]), (["secp256r1", "x448"], ["x448"])):
            for (lo, hi) in ((V31, V31), (V33, V33), (V31, V33)):
                yield ("entry:anon:one-group", {"entry": "anon",
                                                "client": base(lo, hi, keyExchangeNames=kex, eccCurves=curves[0],
                                                               dhGroups=["ffdhe2048"], keyShares=[]),
                                                "server": base(V31, V33, eccCurves=curves[1], dhGroups=["ffdhe2048", "ffdhe3072"],
                                                               keyShares=[])})
    yield ("entry:anon:default-settings", {"entry": "anon", "client": {}, "server": {}})
    # ---- random
    for _ in range(n_random):
        lo, hi = rng.choice([(V31, V33), (V33, V33), (V31, V32), (V32, V33), (V31, V34)])
        slo, shi = rng.choice([(V31, V33), (V33, V33), (V31, V32), (V31, V34)])
        if rng.random() < 0.5:
            bits = rng.choice([1024, 1024, 1536, 2048, 2048, 3072])
            mn, mx, _ = rng.choice(limits_around(bits) + [(1023, 8193, True)])
            c = base(lo, hi, minKeySize=mn, maxKeySize=mx)
            s = base(slo, shi)
            if rng.random() < 0.4:
                c["cipherNames"], s["cipherNames"], _ = P.one_common(rng, ["aes128", "aes256", "3des", "aes128gcm"])
            cred = rng.choice([None, None, "rsa"])
            if rng.random() < 0.3:
                c["keyExchangeNames"] = rng.choice([["srp_sha"], ["srp_sha_rsa"], ["srp_sha_rsa", "srp_sha"], ["rsa", "srp_sha"]])
            if rng.random() < 0.2:
                for d in (c, s):
                    use = rng.random() < 0.6
                    d["useExtendedMasterSecret"], d["requireExtendedMasterSecret"] = use, use and rng.random() < 0.5
            yield ("entry:srp:random", {"entry": "srp", "srp_bits": bits, "cred": cred, "client": c, "server": s})
        else:
            spec = {"entry": "anon"}
            c = base(lo, hi)
            s = base(slo, shi)
            mode = rng.choice(["ffdhe", "dhparams", "ec", "mixed"])
            if mode == "ffdhe":
                a, b, g = P.one_common(rng, ["ffdhe2048", "ffdhe3072", "ffdhe4096"])
                mn, mx, _ = rng.choice(limits_around(P.FFDHE_BITS[g]))
                c.update(dhGroups=a, minKeySize=mn, maxKeySize=mx, keyExchangeNames=["dh_anon"])
                s.update(dhGroups=b)
            elif mode == "dhparams":
                bits = rng.choice([1024, 1536, 2048])
                mn, mx, _ = rng.choice(limits_around(bits))
                spec["server_dh_bits"] = bits
                c.update(dhGroups=[], minKeySize=mn, maxKeySize=mx, keyExchangeNames=["dh_anon"])
            elif mode == "ec":
                a, b, _ = P.one_common(rng, P.CURVES_COMMON)
                c.update(eccCurves=a, keyExchangeNames=["ecdh_anon"])
                s.update(eccCurves=b)
            else:
                a, b, _ = P.one_common(rng, P.CURVES_COMMON)
                c.update(eccCurves=a, dhGroups=["ffdhe2048"])
                s.update(eccCurves=b)
                if rng.random() < 0.5:
                    c["cipherNames"], s["cipherNames"], _ = P.one_common(rng, ["aes128", "aes256", "3des", "aes128gcm"])
            for d in (c, s):
                own = d.get("eccCurves", ["x25519", "secp256r1"]) + d.get("dhGroups", ["ffdhe2048"])
                d["keyShares"] = own[:1] if rng.random() < 0.5 else []
            spec.update(client=c, server=s)
            yield ("entry:anon:random", spec)


def cert_boundary_pairs():
    """certificate handshakes (the main stream's runner) with the limits at the exact sizes;
    yields (kind, client spec, server spec, cred, alpn, server_dh_bits)"""
    for cred in ("rsa", "rsapss", "dsa"):
        for (mn, mx, _) in limits_around(2048):
            for (lo, hi) in ((V33, V33), (V34, V34), (V31, V31)):
                if hi == V34 and cred == "dsa" or hi == V31 and cred == "rsapss":
                    continue
                c = base(lo, hi, minKeySize=mn, maxKeySize=mx)
                s = base(lo, hi)
                if lo == V34:
                    c["eccCurves"] = s["eccCurves"] = list(P.CURVES_COMMON)
                    c["dhGroups"] = s["dhGroups"] = []
                    c["keyShares"] = s["keyShares"] = ["x25519"]
                elif cred == "dsa":
                    c["dhGroups"] = s["dhGroups"] = ["ffdhe2048"]     # same size as the key
                else:
                    c["keyExchangeNames"] = ["ecdhe_rsa"] + (["rsa"] if cred == "rsa" else [])
                yield ("sys:key-size-limit:cert", c, s, cred, None, None)
    # finite-field group exactly at the limit: TLS 1.2 DHE with an RFC 7919 group, TLS 1.3 with an ffdhe share
    for g, bits in (("ffdhe2048", 2048), ("ffdhe3072", 3072)):
        for (mn, mx, _) in limits_around(bits):
            mn2, mx2 = min(mn, 2048), max(mx, 2048)        # keep the 2048-bit RSA key acceptable
            yield ("sys:key-size-limit:dhe12", base(V33, V33, minKeySize=mn2, maxKeySize=mx2, dhGroups=[g], keyExchangeNames=["dhe_rsa"]),
                   base(V31, V33, dhGroups=[g]), "ecdsa" if False else "rsa", None, None)
            yield ("sys:key-size-limit:ffdhe13", dict(base(V34, V34, minKeySize=mn, maxKeySize=mx, dhGroups=[g], eccCurves=[], keyShares=[g])),
                   dict(base(V34, V34, dhGroups=[g], eccCurves=[], keyShares=[g])), "ecdsa", None, None)
    # the server's own DH parameters when the client names no group
    for bits in (1024, 1536, 2048):
        for (mn, mx, _) in limits_around(bits):
            mn2, mx2 = min(mn, 2048), max(mx, 2048)
            yield ("sys:key-size-limit:dhparams12", base(V31, V33, minKeySize=mn2, maxKeySize=mx2, dhGroups=[], keyExchangeNames=["dhe_rsa"]),
                   base(V31, V33), "rsa", None, bits)


# ---------------------------------------------------------------------------------------------
# several PSKs of different hashes
# ---------------------------------------------------------------------------------------------
def multipsk_expectation(table, spec, cs, ss):
    """(must_complete, acceptable indices of the selected identity | 'none' | None, why)"""
    com = P.common_versions(cs, ss)
    if not com or max(com) != V34:
        return None, None, "not-tls13"
    both = P.enabled_suites(table, cs, V34) & P.enabled_suites(table, ss, V34)
    if not both:
        return False, None, "no-common-suite"
    prfs = set("sha384" if table[sid]["name"].endswith("_SHA384") else "sha256" for sid in both)
    if not [m for m in spec["client"].get("psk_modes", ["psk_dhe_ke", "psk_ke"])
            if m in spec["server"].get("psk_modes", ["psk_dhe_ke", "psk_ke"])]:
        return None, None, "no-common-psk-mode"
    srv = dict((p["identity"], p) for p in spec["server_psks"])
    usable = [i for i, p in enumerate(spec["client_psks"])
              if p["identity"] in srv and srv[p["identity"]] == p and (p.get("hash") or "sha256") in prfs]
    if usable:
        if len(prfs) > 1:
            # the suite the server prefers decides which of the PSKs fit
            return True, None, "ok-suite-choice-decides-psk"
        return True, usable, "ok"
    known = [p for p in spec["client_psks"] if p["identity"] in srv]
    if spec.get("cred"):
        ok, why, _ = P.compatible(table, cs, ss, spec["cred"])
        if ok is not True:
            return ok, None, why
        if known:
            # the client offers an identity the server knows, but with a hash that fits none of the common
            # suites: the pair still shares suite, group and signature scheme for the certificate, and
            # RFC 8446 4.2.11 has the server perform a non-PSK handshake
            return True, "none", "certificate-fallback-for-unfitting-psk"
        return True, "none", "certificate-instead-of-psk"
    return False, None, "no-psk-fits-and-no-certificate"


def run_multipsk_pair(spec):
    from harness import lab
    try:
        c = P.mk_settings(spec["client"])
        s = P.mk_settings(spec["server"])
        c.pskConfigs = [P._psk_tuple(p) for p in spec["client_psks"]]
        s.pskConfigs = [P._psk_tuple(p) for p in spec["server_psks"]]
        cset, sset = c.validate(), s.validate()
    except ValueError as e:
        return {"outcome": "invalid", "why": str(e)[:120]}
    from .c19_use import Watch
    watch = Watch({"client": c, "client.validated": cset, "server": s, "server.validated": sset})
    ref = {"cset": P.settings_dict(cset), "sset": P.settings_dict(sset)}
    L = lab.Lab()
    log = []
    skw = {}
    if spec.get("cred"):
        chain, key = lab.creds(spec["cred"])
        skw.update(certChain=chain, privateKey=key)
    L.start_client(lambda conn: conn.handshakeClientCert(settings=cset, async_=True))
    L.start_server(lambda conn: conn.handshakeServerAsync(settings=sset, **skw))

    def fn(kind, msg):
        if type(msg).__name__ == "ServerHello":
            try:
                from tlslite.constants import TLS_1_3_HRR
                if bytes(msg.random) == bytes(TLS_1_3_HRR):
                    log.append(("HelloRetryRequest", None))
                else:
                    e = msg.getExtension(41)
                    log.append(("ServerHello", None if e is None else e.selected))
            except Exception:
                log.append(("ServerHello", "?"))
        else:
            log.append((type(msg).__name__, None))
        return [msg]
    lab.hook_messages(L.server.conn, fn)
    L.run()
    res = {"cset": ref["cset"], "sset": ref["sset"], "client": L.client.state, "server": L.server.state,
           "client_exc": lab.exc_class(L.client.exc), "server_exc": lab.exc_class(L.server.exc),
           "hrr": any(n == "HelloRetryRequest" for n, _ in log),
           "server_sent_certificate": any(n == "Certificate" for n, _ in log)}
    hellos = [x for n, x in log if n == "ServerHello"]
    res["selected_identity"] = hellos[-1] if hellos else None
    if L.client.state == "done" and L.server.state == "done":
        res["outcome"] = "complete" if P._exchange(L) else "complete-but-no-data"
        res["suite"] = L.client.conn.session.cipherSuite
    else:
        res["outcome"] = "fail"
    res["settings_mutated"] = watch.changed()
    return res


def multipsk_pairs(rng, n_random):
    psk256 = {"identity": "psk-sha256", "secret_len": 32, "hash": "sha256", "seed": 11}
    psk256d = {"identity": "psk-default", "secret_len": 32, "hash": None, "seed": 12}
    psk384 = {"identity": "psk-sha384", "secret_len": 48, "hash": "sha384", "seed": 13}
    psk384b = {"identity": "psk-sha384-b", "secret_len": 32, "hash": "sha384", "seed": 14}
    unknown = {"identity": "not-on-server", "secret_len": 32, "hash": "sha256", "seed": 15}
    one_prf = {"sha384": [["aes256gcm"]], "sha256": [["aes128gcm"], ["chacha20-poly1305"], ["aes128ccm", "chacha20-poly1305"]]}

    def sbase(**kw):
        d = base(V34, V34, eccCurves=list(P.CURVES_COMMON))
        d.update(kw)
        return d
    server_sets = [[psk256, psk384], [psk384, psk256], [psk256d, psk384, psk384b], [psk384b, psk256d, psk256, psk384]]
    client_sets = [[psk256, psk384], [psk384, psk256], [psk384], [psk256], [psk256d, psk384b], [unknown, psk384, psk256],
                   [psk256, unknown, psk384b], [psk384b, psk384]]
    for si, sp in enumerate(server_sets):
        for ci, cp in enumerate(client_sets):
            for prf in ("sha384", "sha256"):
                for modes in ((["psk_dhe_ke"], ["psk_dhe_ke", "psk_ke"]), (["psk_ke"], ["psk_ke", "psk_dhe_ke"])):
                    if (si + ci) % 2 and modes[0] == ["psk_ke"]:
                        continue
                    cred = [None, "rsa", "ecdsa", None][(si + ci) % 4]
                    ciph = one_prf[prf][(si + ci) % len(one_prf[prf])]
                    shares = [["x25519"], [], ["secp521r1"]][(si + ci) % 3]
                    yield ("psk:multi:" + prf, {"client": sbase(cipherNames=ciph, psk_modes=modes[0], keyShares=shares),
                                                "server": sbase(psk_modes=modes[1], eccCurves=["x25519", "secp256r1"], keyShares=["x25519"]),
                                                "client_psks": cp, "server_psks": sp, "cred": cred})
    for _ in range(n_random):
        sp = rng.sample([psk256, psk256d, psk384, psk384b], rng.randrange(2, 5))
        pool = sp + [unknown]
        cp = rng.sample(pool, rng.randrange(1, len(pool) + 1))
        prf = rng.choice(["sha256", "sha384", "both"])
        ciph = rng.choice(one_prf[prf]) if prf != "both" else ["aes256gcm", "aes128gcm"]
        clo = rng.choice([V33, V34])
        c = base(clo, V34, eccCurves=list(P.CURVES_COMMON), cipherNames=ciph + (["aes128"] if clo < V34 else []),
                 keyShares=rng.choice([["x25519"], [], ["x448"], ["secp384r1", "x25519"]]),
                 psk_modes=rng.choice([["psk_dhe_ke"], ["psk_ke"], ["psk_dhe_ke", "psk_ke"], ["psk_ke", "psk_dhe_ke"]]))
        s = base(rng.choice([V33, V34]), V34, eccCurves=["x25519", "secp256r1"], keyShares=["x25519"],
                 psk_modes=rng.choice([["psk_dhe_ke", "psk_ke"], ["psk_ke", "psk_dhe_ke"]]))
        yield ("psk:multi:random", {"client": c, "server": s, "client_psks": cp, "server_psks": sp,
                                    "cred": rng.choice([None, "rsa", "ecdsa", "ed25519"])})
