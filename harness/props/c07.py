"""C07 — tlslite-ng interoperates with an independent TLS implementation (OpenSSL via stdlib ssl).

PARTIAL by construction: OpenSSL cannot be modelled.  What Lean carries (lean/TlsModel/Interop.lean,
lean/Props/C07.lean) is the *expectation* for a pair of capability records: which version, which
set of suites, which set of groups a conforming pair must end up with, or that no common
parameters exist.  This module
  * builds an in-process OpenSSL endpoint (ssl.SSLObject over ssl.MemoryBIO) and a live tlslite
    TLSConnection generator on the two ends of a harness.memsock.Link,
  * enumerates combinations (role, version, suite, group, server key type, client auth, ALPN,
    resumption mechanism, payload sizes, who is restricted),
  * computes both capability records from the *configurations* (tlslite: HandshakeSettings fields,
    OpenSSL: SSLContext configuration; the OpenSSL record is validated in the same run against the
    ClientHello an OpenSSL client with that configuration really emits and by an OpenSSL<->OpenSSL
    control handshake of the same combination),
  * asks the Lean driver for expectedOutcome and diffs it against what really happened
    (ctx.disagree), and applies the direct oracle of the property text (ctx.violation):
    expected-compatible pairs complete on both sides, report the same version / suite / ALPN /
    resumption status (also equal to what is visible on the wire), and move application data
    intact both ways; failures only where the expectation says "no common parameters".
OpenSSL's behaviour is OBSERVED, never proved.
"""
import os
import sys

TRANSLATORS = []

MANIFEST = {
    "text": "Partial. Lean model Tls.Interop: capability records (versions, suites, groups, signature schemes) of two endpoints, "
            "server credentials, and expectedOutcome = (highest common version, set of suites admissible for it and usable with "
            "the server key, set of usable groups) or 'no common parameters'. Proved over the model: expectedOutcome succeeds iff "
            "the two records share a version and, for the highest shared one, a suite with a usable group and signature scheme "
            "(compatible_iff_expected_success); every expected parameter lies in both records (expected_params_in_both); the "
            "expected version is the highest shared one (expected_version_highest); failure only if disjoint "
            "(failure_only_if_disjoint, with reason-specific forms failure_noCommonVersion / _noCommonSuite / _noUsableSuite); "
            "ALPN choice lies in both lists; client-certificate, client-signature and resumption expectations. Tie: every combination is executed "
            "between a live tlslite-ng TLSConnection and an in-process OpenSSL 3.0 SSLObject (memory BIOs), both role "
            "assignments; outcome, version, suite, group (from the wire), ALPN, resumption status and payloads are compared with "
            "the Lean expectation and with each other. The OpenSSL capability record is validated in the same run (ClientHello "
            "probe, OpenSSL<->OpenSSL control handshake). Leading-zero cases of every key exchange are steered rather than left "
            "to chance (tlslite's random private value is redrawn until its FFDHE public value / the (EC)DHE shared secret on each "
            "curve / the RSA ciphertext starts with 0x00, OpenSSL as peer). SRP, which the stdlib cannot reach, is run against an "
            "independent RFC 5054 reference peer (validated against RFC 5054 appendix B in every run) in both roles with A, B, u "
            "and the premaster secret steered to leading zero bytes.",
    "note": "OpenSSL's behaviour is OBSERVED, not proved: no model of OpenSSL exists; the theorems are about the expectation "
            "function only. Not reachable through the stdlib ssl module and therefore not covered: SSLv3, 3DES/RC4/NULL "
            "(not in this OpenSSL build's cipher list), SRP against OpenSSL (reference peer instead), TLS <= 1.2 PSK suites (tlslite has none) "
            "and TLS 1.3 external PSK (no stdlib API before Python 3.13), TLS 1.3 CCM suites (stdlib cannot enable them), record_size_limit "
            "(OpenSSL 3.0 does not implement RFC 8449; added in 3.2), 0-RTT, post-handshake auth, renegotiation, KeyUpdate.",
    "technique": "Lean 4 theorems over an expectation model; live differential interop against OpenSSL with control handshakes",
}

# --------------------------------------------------------------------------------------------
# tables written from the IANA registries (not from tlslite)
SUITES = [
    (0x002F, "TLS_RSA_WITH_AES_128_CBC_SHA"),
    (0x0032, "TLS_DHE_DSS_WITH_AES_128_CBC_SHA"),
    (0x0033, "TLS_DHE_RSA_WITH_AES_128_CBC_SHA"),
    (0x0034, "TLS_DH_anon_WITH_AES_128_CBC_SHA"),
    (0x0035, "TLS_RSA_WITH_AES_256_CBC_SHA"),
    (0x0038, "TLS_DHE_DSS_WITH_AES_256_CBC_SHA"),
    (0x0039, "TLS_DHE_RSA_WITH_AES_256_CBC_SHA"),
    (0x003A, "TLS_DH_anon_WITH_AES_256_CBC_SHA"),
    (0x003C, "TLS_RSA_WITH_AES_128_CBC_SHA256"),
    (0x003D, "TLS_RSA_WITH_AES_256_CBC_SHA256"),
    (0x0067, "TLS_DHE_RSA_WITH_AES_128_CBC_SHA256"),
    (0x006B, "TLS_DHE_RSA_WITH_AES_256_CBC_SHA256"),
    (0x006C, "TLS_DH_anon_WITH_AES_128_CBC_SHA256"),
    (0x006D, "TLS_DH_anon_WITH_AES_256_CBC_SHA256"),
    (0x009C, "TLS_RSA_WITH_AES_128_GCM_SHA256"),
    (0x009D, "TLS_RSA_WITH_AES_256_GCM_SHA384"),
    (0x009E, "TLS_DHE_RSA_WITH_AES_128_GCM_SHA256"),
    (0x009F, "TLS_DHE_RSA_WITH_AES_256_GCM_SHA384"),
    (0x00A2, "TLS_DHE_DSS_WITH_AES_128_GCM_SHA256"),
    (0x00A3, "TLS_DHE_DSS_WITH_AES_256_GCM_SHA384"),
    (0x00A6, "TLS_DH_anon_WITH_AES_128_GCM_SHA256"),
    (0x00A7, "TLS_DH_anon_WITH_AES_256_GCM_SHA384"),
    (0x1301, "TLS_AES_128_GCM_SHA256"),
    (0x1302, "TLS_AES_256_GCM_SHA384"),
    (0x1303, "TLS_CHACHA20_POLY1305_SHA256"),
    (0xC009, "TLS_ECDHE_ECDSA_WITH_AES_128_CBC_SHA"),
    (0xC00A, "TLS_ECDHE_ECDSA_WITH_AES_256_CBC_SHA"),
    (0xC013, "TLS_ECDHE_RSA_WITH_AES_128_CBC_SHA"),
    (0xC014, "TLS_ECDHE_RSA_WITH_AES_256_CBC_SHA"),
    (0xC018, "TLS_ECDH_anon_WITH_AES_128_CBC_SHA"),
    (0xC019, "TLS_ECDH_anon_WITH_AES_256_CBC_SHA"),
    (0xC023, "TLS_ECDHE_ECDSA_WITH_AES_128_CBC_SHA256"),
    (0xC024, "TLS_ECDHE_ECDSA_WITH_AES_256_CBC_SHA384"),
    (0xC027, "TLS_ECDHE_RSA_WITH_AES_128_CBC_SHA256"),
    (0xC028, "TLS_ECDHE_RSA_WITH_AES_256_CBC_SHA384"),
    (0xC02B, "TLS_ECDHE_ECDSA_WITH_AES_128_GCM_SHA256"),
    (0xC02C, "TLS_ECDHE_ECDSA_WITH_AES_256_GCM_SHA384"),
    (0xC02F, "TLS_ECDHE_RSA_WITH_AES_128_GCM_SHA256"),
    (0xC030, "TLS_ECDHE_RSA_WITH_AES_256_GCM_SHA384"),
    (0xC09C, "TLS_RSA_WITH_AES_128_CCM"),
    (0xC09D, "TLS_RSA_WITH_AES_256_CCM"),
    (0xC09E, "TLS_DHE_RSA_WITH_AES_128_CCM"),
    (0xC09F, "TLS_DHE_RSA_WITH_AES_256_CCM"),
    (0xC0A0, "TLS_RSA_WITH_AES_128_CCM_8"),
    (0xC0A1, "TLS_RSA_WITH_AES_256_CCM_8"),
    (0xC0A2, "TLS_DHE_RSA_WITH_AES_128_CCM_8"),
    (0xC0A3, "TLS_DHE_RSA_WITH_AES_256_CCM_8"),
    (0xC0AC, "TLS_ECDHE_ECDSA_WITH_AES_128_CCM"),
    (0xC0AD, "TLS_ECDHE_ECDSA_WITH_AES_256_CCM"),
    (0xC0AE, "TLS_ECDHE_ECDSA_WITH_AES_128_CCM_8"),
    (0xC0AF, "TLS_ECDHE_ECDSA_WITH_AES_256_CCM_8"),
    (0xCCA8, "TLS_ECDHE_RSA_WITH_CHACHA20_POLY1305_SHA256"),
    (0xCCA9, "TLS_ECDHE_ECDSA_WITH_CHACHA20_POLY1305_SHA256"),
    (0xCCAA, "TLS_DHE_RSA_WITH_CHACHA20_POLY1305_SHA256"),
]
SUITE_NAME = dict(SUITES)
SUITE_ID = {n: i for i, n in SUITES}

GROUPS = {"secp256r1": 23, "secp384r1": 24, "secp521r1": 25, "brainpoolP256r1": 26, "brainpoolP384r1": 27,
          "brainpoolP512r1": 28, "x25519": 29, "x448": 30,
          "ffdhe2048": 256, "ffdhe3072": 257, "ffdhe4096": 258, "ffdhe6144": 259, "ffdhe8192": 260,
          "brainpoolP256r1tls13": 31, "brainpoolP384r1tls13": 32, "brainpoolP512r1tls13": 33}
GROUP_NAME = {v: k for k, v in GROUPS.items()}
# the names OpenSSL's OBJ_sn2nid knows (SSLContext.set_ecdh_curve takes one short name)
OSSL_GROUP_SN = {"secp256r1": "prime256v1", "secp384r1": "secp384r1", "secp521r1": "secp521r1",
                 "x25519": "X25519", "x448": "X448", "brainpoolP256r1": "brainpoolP256r1",
                 "brainpoolP384r1": "brainpoolP384r1", "brainpoolP512r1": "brainpoolP512r1",
                 "ffdhe2048": "ffdhe2048", "ffdhe3072": "ffdhe3072", "ffdhe4096": "ffdhe4096",
                 "ffdhe6144": "ffdhe6144", "ffdhe8192": "ffdhe8192"}

VERS = {(3, 1): 0x0301, (3, 2): 0x0302, (3, 3): 0x0303, (3, 4): 0x0304}
VER_OSSL_NAME = {0x0301: "TLSv1", 0x0302: "TLSv1.1", 0x0303: "TLSv1.2", 0x0304: "TLSv1.3"}

# IANA SignatureScheme registry
SIG = {"rsa_pkcs1_sha1": 0x0201, "dsa_sha1": 0x0202, "ecdsa_sha1": 0x0203,
       "rsa_pkcs1_sha224": 0x0301, "dsa_sha224": 0x0302, "ecdsa_sha224": 0x0303,
       "rsa_pkcs1_sha256": 0x0401, "dsa_sha256": 0x0402, "ecdsa_secp256r1_sha256": 0x0403,
       "rsa_pkcs1_sha384": 0x0501, "dsa_sha384": 0x0502, "ecdsa_secp384r1_sha384": 0x0503,
       "rsa_pkcs1_sha512": 0x0601, "dsa_sha512": 0x0602, "ecdsa_secp521r1_sha512": 0x0603,
       "rsa_pss_rsae_sha256": 0x0804, "rsa_pss_rsae_sha384": 0x0805, "rsa_pss_rsae_sha512": 0x0806,
       "ed25519": 0x0807, "ed448": 0x0808,
       "rsa_pss_pss_sha256": 0x0809, "rsa_pss_pss_sha384": 0x080A, "rsa_pss_pss_sha512": 0x080B,
       "ecdsa_brainpoolP256r1tls13_sha256": 0x081A, "ecdsa_brainpoolP384r1tls13_sha384": 0x081B,
       "ecdsa_brainpoolP512r1tls13_sha512": 0x081C}
HASH_CODE = {"md5": 1, "sha1": 2, "sha224": 3, "sha256": 4, "sha384": 5, "sha512": 6}

# server credentials: kind -> (cert file, key file, key type for the model, curve group or 0)
CREDS = {
    "rsa": ("serverX509Cert.pem", "serverX509Key.pem", "rsa", 0),
    "rsapss": ("serverRSAPSSCert.pem", "serverRSAPSSKey.pem", "rsapss", 0),
    "ecdsa": ("serverECCert.pem", "serverECKey.pem", "ecdsa", 23),
    "ecdsa384": ("serverP384ECCert.pem", "serverP384ECKey.pem", "ecdsa", 24),
    "ecdsa521": ("serverP521ECCert.pem", "serverP521ECKey.pem", "ecdsa", 25),
    "ed25519": ("serverEd25519Cert.pem", "serverEd25519Key.pem", "ed25519", 0),
    "ed448": ("serverEd448Cert.pem", "serverEd448Key.pem", "ed448", 0),
    "dsa": ("serverDSACert.pem", "serverDSAKey.pem", "dsa", 0),
    "none": (None, None, "none", 0),
}
# client credentials usable against an OpenSSL server that verifies (must be inside their validity period)
CLIENT_CREDS = {
    "client_rsa": ("clientX509Cert.pem", "clientX509Key.pem"),        # RSA 1024
    "client_ecdsa": ("clientECCert.pem", "clientECKey.pem"),          # P-256
    # the following are expired or server certificates: usable only towards a tlslite server (which does not
    # validate the chain) and, in the OpenSSL<->OpenSSL control, with X509_V_FLAG_NO_CHECK_TIME
    "client_rsa2048": ("serverX509Cert.pem", "serverX509Key.pem"),
    "client_rsapss": ("serverRSAPSSCert.pem", "serverRSAPSSKey.pem"),
    "client_ecdsa384": ("serverP384ECCert.pem", "serverP384ECKey.pem"),
    "client_ecdsa521": ("serverP521ECCert.pem", "serverP521ECKey.pem"),
    "client_ed25519": ("clientEd25519Cert.pem", "clientEd25519Key.pem"),
}
X509_V_FLAG_NO_CHECK_TIME = 0x200000


def parse_iana(name):
    """IANA suite name -> dict(kx, auth, cipher, mac, tls12only, tls13); the naming convention only"""
    assert name.startswith("TLS_")
    if "_WITH_" not in name:
        body = name[4:]
        ciph, h = body.rsplit("_", 1)
        return {"kx": "tls13", "auth": "any", "cipher": ciph, "mac": "AEAD", "prf": h, "tls12only": False, "tls13": True}
    kxs, rest = name[4:].split("_WITH_")
    kx, auth = {"RSA": ("rsa", "rsa"), "DHE_RSA": ("dhe", "rsa"), "DHE_DSS": ("dhe", "dss"),
                "DH_anon": ("dhanon", "anon"), "ECDHE_RSA": ("ecdhe", "rsa"), "ECDHE_ECDSA": ("ecdhe", "ecdsa"),
                "ECDH_anon": ("ecdhanon", "anon")}[kxs]
    aead = ("GCM" in rest) or ("CCM" in rest) or ("POLY1305" in rest)
    if aead:
        if rest.endswith(("_SHA256", "_SHA384")):
            ciph, prf = rest.rsplit("_", 1)
        else:
            ciph, prf = rest, "SHA256"      # CCM suites: no suffix, PRF is SHA-256 (RFC 6655 / 7251)
        mac = "AEAD"
    else:
        ciph, mac = rest.rsplit("_", 1)
        prf = mac
    return {"kx": kx, "auth": auth, "cipher": ciph, "mac": mac, "prf": prf,
            "tls12only": aead or mac in ("SHA256", "SHA384"), "tls13": False}


# tlslite setting names for the IANA components (documented meaning of the HandshakeSettings lists)
TL_CIPHER = {"AES_128_CBC": "aes128", "AES_256_CBC": "aes256", "AES_128_GCM": "aes128gcm", "AES_256_GCM": "aes256gcm",
             "AES_128_CCM": "aes128ccm", "AES_256_CCM": "aes256ccm", "AES_128_CCM_8": "aes128ccm_8",
             "AES_256_CCM_8": "aes256ccm_8", "CHACHA20_POLY1305": "chacha20-poly1305"}
TL_MAC = {"SHA": "sha", "SHA256": "sha256", "SHA384": "sha384", "AEAD": "aead"}
TL_KX = {("rsa", "rsa"): "rsa", ("dhe", "rsa"): "dhe_rsa", ("dhe", "dss"): "dhe_dsa", ("dhanon", "anon"): "dh_anon",
         ("ecdhe", "rsa"): "ecdhe_rsa", ("ecdhe", "ecdsa"): "ecdhe_ecdsa", ("ecdhanon", "anon"): "ecdh_anon"}


def suite_versions(name):
    p = parse_iana(name)
    if p["tls13"]:
        return [0x0304]
    if p["tls12only"]:
        return [0x0303]
    return [0x0301, 0x0302, 0x0303]


# --------------------------------------------------------------------------------------------
# wire parsing (independent, from RFC 5246 / 8446 presentation language)
def _u(b, i, n):
    return int.from_bytes(b[i:i + n], "big")


def handshake_stream(records, stop_at_ccs=True):
    """concatenate plaintext handshake records (type 22) until the first CCS / application data"""
    out = bytearray()
    for (t, v, body) in records:
        if t == 22:
            out += body
        elif t in (20, 23) and stop_at_ccs:
            break
    return bytes(out)


def split_handshake(stream):
    msgs = []
    i = 0
    while i + 4 <= len(stream):
        ln = _u(stream, i + 1, 3)
        if i + 4 + ln > len(stream):
            break
        msgs.append((stream[i], stream[i + 4:i + 4 + ln]))
        i += 4 + ln
    return msgs


def parse_extensions(b):
    exts = {}
    order = []
    i = 0
    while i + 4 <= len(b):
        t = _u(b, i, 2)
        ln = _u(b, i + 2, 2)
        exts[t] = b[i + 4:i + 4 + ln]
        order.append(t)
        i += 4 + ln
    return exts, order


def parse_client_hello(body):
    r = {"legacy_version": _u(body, 0, 2)}
    i = 2 + 32
    sl = body[i]
    r["session_id"] = body[i + 1:i + 1 + sl]
    i += 1 + sl
    cl = _u(body, i, 2)
    r["suites"] = [_u(body, i + 2 + 2 * k, 2) for k in range(cl // 2)]
    i += 2 + cl
    ml = body[i]
    i += 1 + ml
    exts = {}
    if i + 2 <= len(body):
        el = _u(body, i, 2)
        exts, order = parse_extensions(body[i + 2:i + 2 + el])
    r["ext"] = exts
    if 43 in exts:
        e = exts[43]
        r["versions"] = [_u(e, 1 + 2 * k, 2) for k in range(e[0] // 2)]
    else:
        r["versions"] = None
    if 10 in exts:
        e = exts[10]
        r["groups"] = [_u(e, 2 + 2 * k, 2) for k in range(_u(e, 0, 2) // 2)]
    else:
        r["groups"] = None
    if 13 in exts:
        e = exts[13]
        r["sigs"] = [_u(e, 2 + 2 * k, 2) for k in range(_u(e, 0, 2) // 2)]
    else:
        r["sigs"] = None
    if 16 in exts:
        e = exts[16]
        ps = []
        j = 2
        while j < len(e):
            ps.append(bytes(e[j + 1:j + 1 + e[j]]))
            j += 1 + e[j]
        r["alpn"] = ps
    else:
        r["alpn"] = None
    if 51 in exts:
        e = exts[51]
        ks = []
        j = 2
        while j + 4 <= len(e):
            ks.append(_u(e, j, 2))
            j += 4 + _u(e, j + 2, 2)
        r["key_shares"] = ks
    else:
        r["key_shares"] = None
    r["has_psk"] = 41 in exts
    r["psk_ages"] = []
    if 41 in exts:
        e = exts[41]
        il = _u(e, 0, 2)
        j = 2
        while j < 2 + il:
            n = _u(e, j, 2)
            r["psk_ages"].append(_u(e, j + 2 + n, 4))
            j += 2 + n + 4
    r["has_ticket_ext"] = 35 in exts
    r["ticket_len"] = len(exts[35]) if 35 in exts else None
    return r


HRR_RANDOM = bytes.fromhex("CF21AD74E59A6111BE1D8C021E65B891C2A211167ABB8C5E079E09E2C8A8339C")


def parse_server_hello(body):
    r = {"legacy_version": _u(body, 0, 2), "hrr": body[2:34] == HRR_RANDOM}
    i = 34
    sl = body[i]
    r["session_id"] = body[i + 1:i + 1 + sl]
    i += 1 + sl
    r["suite"] = _u(body, i, 2)
    i += 3
    exts = {}
    if i + 2 <= len(body):
        el = _u(body, i, 2)
        exts, order = parse_extensions(body[i + 2:i + 2 + el])
    r["ext"] = exts
    r["version"] = _u(exts[43], 0, 2) if 43 in exts else r["legacy_version"]
    r["group"] = _u(exts[51], 0, 2) if 51 in exts else None
    r["psk"] = 41 in exts
    r["ems"] = 23 in exts
    r["etm"] = 22 in exts
    if 16 in exts:
        e = exts[16]
        r["alpn"] = bytes(e[3:3 + e[2]])
    else:
        r["alpn"] = None
    return r


def server_plain_handshake(records):
    """plaintext server handshake messages: records of type 22 up to the first CCS that is not the
    TLS 1.3 compatibility CCS following a HelloRetryRequest, or the first application-data record"""
    out = bytearray()
    for (t, v, body) in records:
        if t == 22:
            out += body
        elif t == 20:
            msgs = split_handshake(bytes(out))
            if len(msgs) == 1 and msgs[0][0] == 2 and msgs[0][1][2:34] == HRR_RANDOM:
                continue
            break
        elif t == 23:
            break
    return split_handshake(bytes(out))


def wire_view(link):
    """what a passive observer reads off the wire: ClientHello fields, ServerHello fields, group"""
    w = {"client_hello": None, "server_hello": None, "group": None, "hrr": False, "abbreviated": None,
         "server_msgs": []}
    try:
        cms = split_handshake(handshake_stream(link.records("c2s")))
        if cms and cms[0][0] == 1:
            w["client_hello"] = parse_client_hello(cms[0][1])
        sms = server_plain_handshake(link.records("s2c"))
        shs = [parse_server_hello(b) for t, b in sms if t == 2]
        w["hrr"] = any(s["hrr"] for s in shs)
        shs = [s for s in shs if not s["hrr"]]
        if shs:
            sh = shs[-1]
            w["server_hello"] = sh
            w["server_msgs"] = [t for t, _ in sms]
            if sh["version"] == 0x0304:
                w["group"] = sh["group"]
            else:
                kx = parse_iana(SUITE_NAME[sh["suite"]])["kx"] if sh["suite"] in SUITE_NAME else None
                for t, b in sms:
                    if t == 12:       # ServerKeyExchange
                        if kx in ("ecdhe", "ecdhanon") and b[0] == 3:    # ECParameters: named_curve
                            w["group"] = _u(b, 1, 2)
                        elif kx in ("dhe", "dhanon"):                    # ServerDHParams: dh_p
                            pl = _u(b, 0, 2)
                            w["dh_p"] = int.from_bytes(b[2:2 + pl], "big")
                # abbreviated handshake: no Certificate / ServerKeyExchange / ServerHelloDone before CCS
                w["abbreviated"] = not any(t in (11, 12, 14) for t, _ in sms)
    except Exception as e:   # a passive parser must never take the run down
        w["parse_error"] = type(e).__name__ + ": " + str(e)
    return w


# --------------------------------------------------------------------------------------------
# OpenSSL endpoint
class OsslCfg(object):
    """plain description of an SSLContext configuration (hashable, replayable)"""
    FIELDS = ("server", "minv", "maxv", "ciphers", "group", "cred", "client_cred", "req_cert", "alpn",
              "no_ticket", "dh")

    def __init__(self, server, minv=0x0301, maxv=0x0304, ciphers=None, group=None, cred=None,
                 client_cred=None, req_cert=False, alpn=None, no_ticket=False, dh=None):
        self.server = server
        self.minv = minv
        self.maxv = maxv
        self.ciphers = ciphers          # list of suite ids (TLS <= 1.2) or None = ALL
        self.group = group              # one group name or None = library default
        self.cred = cred                # server credential kind
        self.client_cred = client_cred  # client credential kind (client side) / expected (server side)
        self.req_cert = req_cert
        self.alpn = alpn
        self.no_ticket = no_ticket
        self.dh = dh                    # ffdhe group name whose parameters the server uses for DHE (<=1.2)

    def key(self):
        return tuple((f, tuple(getattr(self, f)) if isinstance(getattr(self, f), list) else getattr(self, f))
                     for f in self.FIELDS)

    def as_dict(self):
        return {f: getattr(self, f) for f in self.FIELDS}

    @staticmethod
    def from_dict(d):
        return OsslCfg(**d)


_OSSL_NAMES = {}


def ossl_names():
    """suite id -> OpenSSL's own cipher name, as this OpenSSL build reports it"""
    if not _OSSL_NAMES:
        import ssl
        c = ssl.SSLContext(ssl.PROTOCOL_TLS_CLIENT)
        c.set_ciphers("ALL:COMPLEMENTOFALL:@SECLEVEL=0")
        for x in c.get_ciphers():
            _OSSL_NAMES[x["id"] & 0xffff] = x["name"]
    return _OSSL_NAMES


def tests_dir():
    from ..core import REPO
    return os.path.join(REPO, "tests")


def der_len(n):
    if n < 128:
        return bytes([n])
    b = n.to_bytes((n.bit_length() + 7) // 8, "big")
    return bytes([0x80 | len(b)]) + b


def der_int(x):
    b = x.to_bytes(x.bit_length() // 8 + 1, "big")
    return b"\x02" + der_len(len(b)) + b


_DH_FILES = {}


def dh_params_file(name):
    """PEM 'DH PARAMETERS' file for an RFC 7919 group (p, g taken from the RFC via tlslite's table of
    constants is avoided: the primes are recomputed from the RFC 7919 formula)"""
    if name not in _DH_FILES:
        import base64
        import tempfile
        p, g = rfc7919_prime(int(name[5:])), 2
        body = der_int(p) + der_int(g)
        der = b"\x30" + der_len(len(body)) + body
        pem = b"-----BEGIN DH PARAMETERS-----\n" + base64.encodebytes(der) + b"-----END DH PARAMETERS-----\n"
        import atexit
        import shutil
        d = tempfile.mkdtemp(prefix="c07dh")
        atexit.register(shutil.rmtree, d, True)
        path = os.path.join(d, name + ".pem")
        with open(path, "wb") as f:
            f.write(pem)
        _DH_FILES[name] = path
    return _DH_FILES[name]


def _e_floor(bits):
    """floor(e * 2^bits) by the series sum 1/k! in integer arithmetic"""
    prec = bits + 64
    one = 1 << prec
    s = 0
    term = one
    k = 0
    while term:
        s += term
        k += 1
        term //= k
    return s >> 64


def rfc7919_prime(bits):
    """p = 2^b - 2^(b-64) + {[2^(b-130) e] + X} * 2^64 - 1 (RFC 7919 appendix A)"""
    X = {2048: 560316, 3072: 2625351, 4096: 5736041, 6144: 15705020, 8192: 10965728}[bits]
    return (1 << bits) - (1 << (bits - 64)) + ((_e_floor(bits - 130) + X) << 64) - 1


def make_ossl_ctx(cfg):
    import ssl
    import warnings
    with warnings.catch_warnings():
        warnings.simplefilter("ignore")
        c = ssl.SSLContext(ssl.PROTOCOL_TLS_SERVER if cfg.server else ssl.PROTOCOL_TLS_CLIENT)
        tv = {0x0301: ssl.TLSVersion.TLSv1, 0x0302: ssl.TLSVersion.TLSv1_1, 0x0303: ssl.TLSVersion.TLSv1_2,
              0x0304: ssl.TLSVersion.TLSv1_3}
        c.minimum_version = tv[cfg.minv]
        c.maximum_version = tv[cfg.maxv]
    names = ossl_names()
    if cfg.ciphers is None:
        c.set_ciphers("ALL:@SECLEVEL=0")
    else:
        old = [names[i] for i in cfg.ciphers if i < 0x1300 or i > 0x13ff]
        # TLS 1.3 suites cannot be configured through the stdlib; the three defaults stay enabled
        c.set_ciphers((":".join(old) if old else "AES128-SHA") + ":@SECLEVEL=0")
    if cfg.group is not None:
        c.set_ecdh_curve(OSSL_GROUP_SN[cfg.group])
    if cfg.alpn is not None:
        c.set_alpn_protocols([a.decode() if isinstance(a, bytes) else a for a in cfg.alpn])
    if cfg.no_ticket:
        c.options |= ssl.OP_NO_TICKET
    d = tests_dir()
    if cfg.server:
        if cfg.cred and cfg.cred != "none":
            cf, kf = CREDS[cfg.cred][0], CREDS[cfg.cred][1]
            c.load_cert_chain(os.path.join(d, cf), os.path.join(d, kf))
        if cfg.dh:
            c.load_dh_params(dh_params_file(cfg.dh))
        if cfg.req_cert:
            c.verify_mode = ssl.CERT_REQUIRED
            c.load_verify_locations(os.path.join(d, CLIENT_CREDS[cfg.client_cred][0]))
    else:
        c.check_hostname = False
        c.verify_mode = ssl.CERT_NONE
        if cfg.client_cred:
            cf, kf = CLIENT_CREDS[cfg.client_cred]
            c.load_cert_chain(os.path.join(d, cf), os.path.join(d, kf))
    return c


class OsslEnd(object):
    def __init__(self, sslctx, link, role, session=None):
        import ssl
        self.ssl = ssl
        self.inb = ssl.MemoryBIO()
        self.outb = ssl.MemoryBIO()
        self.link = link
        self.role = role
        self.tx = "c2s" if role == "client" else "s2c"
        self.rx = "s2c" if role == "client" else "c2s"
        kw = {}
        if session is not None:
            kw["session"] = session
        self.obj = sslctx.wrap_bio(self.inb, self.outb, server_side=(role == "server"), **kw)
        self.state = "running"        # running / done / error
        self.exc = None
        self.eof_sent = False

    def pump(self):
        moved = False
        q = self.link.q[self.rx]
        if q:
            self.inb.write(bytes(q))
            del q[:]
            moved = True
        if self.link.closed[self.rx] and not self.eof_sent:
            self.inb.write_eof()
            self.eof_sent = True
            moved = True
        d = self.outb.read()
        if d:
            self.link.push(self.tx, d)
            moved = True
        return moved

    def step_handshake(self):
        if self.state != "running":
            return
        try:
            self.obj.do_handshake()
            self.state = "done"
        except self.ssl.SSLWantReadError:
            pass
        except (self.ssl.SSLError, OSError, ValueError) as e:
            self.state = "error"
            self.exc = e

    def write(self, data):
        try:
            n = self.obj.write(data) if data else 0
            self.pump()
            return ("ok", n)
        except (self.ssl.SSLError, OSError, ValueError) as e:
            self.pump()
            return ("error", e)

    def read_available(self, limit=1 << 20):
        """read whatever application data is decodable now; ('ok', bytes) / ('eof', bytes) / ('error', exc)"""
        out = bytearray()
        while len(out) < limit:
            self.pump()
            try:
                d = self.obj.read(65536)
            except self.ssl.SSLWantReadError:
                self.pump()
                return ("ok", bytes(out))
            except self.ssl.SSLZeroReturnError:
                self.pump()
                return ("eof", bytes(out))
            except (self.ssl.SSLError, OSError, ValueError) as e:
                self.pump()
                return ("error", e)
            if not d:
                self.pump()
                return ("eof", bytes(out))
            out += d
        return ("ok", bytes(out))


def ossl_exc_class(e):
    if e is None:
        return "none"
    r = getattr(e, "reason", None)
    return "ossl:" + (r if r else type(e).__name__)


# --------------------------------------------------------------------------------------------
# the pair driver
class Pair(object):
    """one tlslite endpoint + one OpenSSL endpoint on a fresh link"""

    def __init__(self, tl_role, sslctx, ossl_session=None):
        from .. import memsock, lab
        from tlslite.tlsconnection import TLSConnection
        self.link, cs, ss = memsock.pair()
        self.tl_role = tl_role
        sock = cs if tl_role == "client" else ss
        self.tl = lab.End(tl_role, TLSConnection(sock), sock)
        self.os = OsslEnd(sslctx, self.link, "server" if tl_role == "client" else "client", session=ossl_session)

    def run_handshake(self, max_rounds=20000):
        idle = 0
        for _ in range(max_rounds):
            before = self.link.activity
            if self.tl.state == "running":
                self.tl.step()
            m1 = self.os.pump()
            self.os.step_handshake()
            m2 = self.os.pump()
            if self.tl.state != "running" and self.os.state != "running":
                break
            if self.link.activity == before and not (m1 or m2):
                idle += 1
                if idle >= 4:
                    if self.tl.state == "running":
                        self.tl.state = "stall"
                    if self.os.state == "running":
                        self.os.state = "stall"
                    break
            else:
                idle = 0
        self.os.pump()

    def tl_op(self, gen, max_steps=200000):
        """drive a tlslite generator (write/read/close) while pumping the OpenSSL BIOs"""
        e = self.tl
        e.start(gen)
        idle = 0
        steps = 0
        while e.state == "running":
            before = self.link.activity
            e.step()
            m = self.os.pump()
            steps += 1
            if steps > max_steps:
                e.state = "stall"
                break
            if self.link.activity == before and not m:
                idle += 1
                if idle >= 4:
                    e.state = "stall"
                    break
            else:
                idle = 0
        if e.state == "done":
            return ("ok", e.result)
        if e.state == "error":
            return ("error", e.exc)
        return ("stall", e.result)

    def tl_write(self, data):
        return self.tl_op(self.tl.conn.writeAsync(bytearray(data)))

    def tl_read(self, n):
        """read exactly n bytes (or fewer when the stream dries up)"""
        out = bytearray()
        while len(out) < n:
            st, r = self.tl_op(self.tl.conn.readAsync(max=n - len(out), min=1))
            if st == "ok" and r:
                out += bytes(r)
                continue
            if st == "stall" or (st == "ok" and not r):
                return ("short" if st == "stall" else "eof", bytes(out))
            return ("error", r)
        return ("ok", bytes(out))


# --------------------------------------------------------------------------------------------
# tlslite endpoint configuration (plain dict -> HandshakeSettings + handshake keyword arguments)
TL_DEFAULT_CURVES = ["x25519", "x448", "secp384r1", "secp256r1", "secp521r1"]
TL_DEFAULT_DHGROUPS = ["ffdhe2048", "ffdhe3072", "ffdhe4096", "ffdhe6144", "ffdhe8192"]


def tl_cfg(role, minv=(3, 1), maxv=(3, 4), ciphers=None, macs=None, kx=None, curves=None, dhgroups=None,
           keyshares=None, cred=None, client_cred=None, req_cert=False, alpn=None, tickets=False, cache=False,
           anon=False, ecdsa_hashes=None, rsa_hashes=None, rsa_schemes=None, more_sigs=None):
    return {"ecdsa_hashes": ecdsa_hashes, "rsa_hashes": rsa_hashes, "rsa_schemes": rsa_schemes, "more_sigs": more_sigs,
            "role": role, "minv": list(minv), "maxv": list(maxv), "ciphers": ciphers, "macs": macs, "kx": kx,
            "curves": curves, "dhgroups": dhgroups, "keyshares": keyshares, "cred": cred,
            "client_cred": client_cred, "req_cert": req_cert, "alpn": alpn, "tickets": tickets, "cache": cache,
            "anon": anon}


def tl_settings(cfg, ticket_keys=None):
    from tlslite.handshakesettings import HandshakeSettings
    s = HandshakeSettings()
    s.minVersion = tuple(cfg["minv"])
    s.maxVersion = tuple(cfg["maxv"])
    if cfg["ciphers"] is not None:
        s.cipherNames = list(cfg["ciphers"])
    else:
        s.cipherNames = ["chacha20-poly1305", "aes256gcm", "aes128gcm", "aes256ccm", "aes128ccm",
                         "aes256ccm_8", "aes128ccm_8", "aes256", "aes128"]
    if cfg["macs"] is not None:
        s.macNames = list(cfg["macs"])
    if cfg["kx"] is not None:
        s.keyExchangeNames = list(cfg["kx"])
    else:
        s.keyExchangeNames = ["ecdhe_ecdsa", "rsa", "dhe_rsa", "ecdhe_rsa", "dhe_dsa"] + \
            (["ecdh_anon", "dh_anon"] if cfg["anon"] else [])
    s.eccCurves = list(cfg["curves"]) if cfg["curves"] is not None else list(TL_DEFAULT_CURVES)
    s.dhGroups = list(cfg["dhgroups"]) if cfg["dhgroups"] is not None else list(TL_DEFAULT_DHGROUPS)
    if cfg["keyshares"] is not None:
        s.keyShares = list(cfg["keyshares"])
    else:
        # a key share for the first configured group so that the common case needs no HelloRetryRequest
        s.keyShares = [(s.eccCurves + s.dhGroups)[0]] if (s.eccCurves + s.dhGroups) else []
    if cfg.get("ecdsa_hashes") is not None:
        s.ecdsaSigHashes = list(cfg["ecdsa_hashes"])
    if cfg.get("rsa_hashes") is not None:
        s.rsaSigHashes = list(cfg["rsa_hashes"])
    if cfg.get("rsa_schemes") is not None:
        s.rsaSchemes = list(cfg["rsa_schemes"])
    if cfg.get("more_sigs") is not None:
        s.more_sig_schemes = list(cfg["more_sigs"])
    if cfg["tickets"] and ticket_keys is not None:
        s.ticketKeys = [bytearray(ticket_keys)]
    if not cfg["tickets"]:
        s.ticket_count = 0
    return s


def tl_start(pair, cfg, settings, session=None, session_cache=None):
    """start the tlslite handshake generator on pair.tl"""
    from .. import lab
    conn = pair.tl.conn
    alpn = [bytearray(a) for a in cfg["alpn"]] if cfg["alpn"] is not None else None
    if cfg["role"] == "client":
        if cfg["anon"]:
            gen = conn.handshakeClientAnonymous(session=session, settings=settings, async_=True)
        else:
            kw = {}
            if cfg["client_cred"]:
                chain, key = lab.creds(cfg["client_cred"])
                kw["certChain"] = chain
                kw["privateKey"] = key
            gen = conn.handshakeClientCert(session=session, settings=settings, async_=True, alpn=alpn, **kw)
    else:
        kw = {}
        if cfg["cred"] and cfg["cred"] != "none":
            chain, key = lab.creds(cfg["cred"])
            kw["certChain"] = chain
            kw["privateKey"] = key
        gen = conn.handshakeServerAsync(settings=settings, reqCert=cfg["req_cert"], alpn=alpn,
                                        sessionCache=session_cache, anon=cfg["anon"], **kw)
    pair.tl.start(gen)


# --------------------------------------------------------------------------------------------
# capability records, computed from the CONFIGURATIONS (never from what the code negotiates)
TL_DEFAULT_CIPHERS = ["chacha20-poly1305", "aes256gcm", "aes128gcm", "aes256ccm", "aes128ccm",
                      "aes256ccm_8", "aes128ccm_8", "aes256", "aes128"]
TL_DEFAULT_MACS = ["sha", "sha256", "sha384", "aead"]
TL_DEFAULT_KX = ["ecdhe_ecdsa", "rsa", "dhe_rsa", "ecdhe_rsa", "dhe_dsa"]
# default signature schemes of HandshakeSettings (rsaSigHashes x rsaSchemes, ecdsaSigHashes, dsaSigHashes,
# more_sig_schemes), as documented in handshakesettings.py
TL_DEFAULT_SIGS = sorted(
    [SIG["rsa_pkcs1_" + h] for h in ("sha1", "sha224", "sha256", "sha384", "sha512")] +
    [SIG["rsa_pss_rsae_" + h] for h in ("sha256", "sha384", "sha512")] +
    [SIG["rsa_pss_pss_" + h] for h in ("sha256", "sha384", "sha512")] +
    [SIG["ecdsa_sha1"], SIG["ecdsa_sha224"], SIG["ecdsa_secp256r1_sha256"], SIG["ecdsa_secp384r1_sha384"],
     SIG["ecdsa_secp521r1_sha512"]] +
    [SIG["dsa_" + h] for h in ("sha1", "sha224", "sha256", "sha384", "sha512")] +
    [SIG["ed25519"], SIG["ed448"]])
TL13_EXTRA_SIGS = [SIG["ecdsa_brainpoolP256r1tls13_sha256"], SIG["ecdsa_brainpoolP384r1tls13_sha384"],
                   SIG["ecdsa_brainpoolP512r1tls13_sha512"]]


ECDSA_BY_HASH = {"sha1": 0x0203, "sha224": 0x0303, "sha256": 0x0403, "sha384": 0x0503, "sha512": 0x0603}


def tl_sigs(cfg):
    """signature schemes a tlslite endpoint lists (signature_algorithms / CertificateRequest), from the documented
    meaning of rsaSigHashes x rsaSchemes, ecdsaSigHashes, dsaSigHashes (default), more_sig_schemes"""
    allh = ["sha512", "sha384", "sha256", "sha224", "sha1"]
    rh = cfg.get("rsa_hashes") if cfg.get("rsa_hashes") is not None else allh
    rs = cfg.get("rsa_schemes") if cfg.get("rsa_schemes") is not None else ["pss", "pkcs1"]
    eh = cfg.get("ecdsa_hashes") if cfg.get("ecdsa_hashes") is not None else allh
    ms = cfg.get("more_sigs") if cfg.get("more_sigs") is not None else ["Ed25519", "Ed448"]
    out = []
    for h in rh:
        if "pkcs1" in rs:
            out.append(SIG["rsa_pkcs1_" + h])
        if "pss" in rs and h in ("sha256", "sha384", "sha512"):
            out += [SIG["rsa_pss_rsae_" + h], SIG["rsa_pss_pss_" + h]]
    out += [ECDSA_BY_HASH[h] for h in eh]
    out += [SIG["dsa_" + h] for h in allh]
    out += [SIG[m.lower()] for m in ms if m.lower() in SIG]
    return sorted(out)


def tl_caps(cfg):
    """what a tlslite endpoint with this configuration is documented to offer / accept"""
    vs = [code for v, code in sorted(VERS.items()) if tuple(cfg["minv"]) <= v <= tuple(cfg["maxv"])]
    if cfg["anon"] and cfg["role"] == "client":
        # handshakeClientAnonymous: anonymous key exchange does not exist in TLS 1.3, the client does not offer it
        vs = [v for v in vs if v <= 0x0303]
    ciphers = cfg["ciphers"] if cfg["ciphers"] is not None else TL_DEFAULT_CIPHERS
    macs = cfg["macs"] if cfg["macs"] is not None else TL_DEFAULT_MACS
    kxs = cfg["kx"] if cfg["kx"] is not None else (TL_DEFAULT_KX + (["ecdh_anon", "dh_anon"] if cfg["anon"] else []))
    suites = []
    for sid, name in SUITES:
        p = parse_iana(name)
        if TL_CIPHER[p["cipher"]] not in ciphers:
            continue
        if TL_MAC[p["mac"]] not in macs:
            continue
        if p["tls13"]:
            if not cfg["anon"] or cfg["role"] == "server":
                suites.append(sid)
            continue
        if TL_KX[(p["kx"], p["auth"])] not in kxs:
            continue
        is_anon = p["auth"] == "anon"
        if cfg["role"] == "client":
            # handshakeClientAnonymous offers anonymous suites only, handshakeClientCert never offers them
            if is_anon != bool(cfg["anon"]):
                continue
        else:
            if is_anon and not cfg["anon"]:
                continue
        suites.append(sid)
    curves = cfg["curves"] if cfg["curves"] is not None else TL_DEFAULT_CURVES
    dhg = cfg["dhgroups"] if cfg["dhgroups"] is not None else TL_DEFAULT_DHGROUPS
    groups = [GROUPS[g] for g in curves] + [GROUPS[g] for g in dhg]
    return {"versions": vs, "suites": suites, "groups": groups, "sigs": tl_sigs(cfg)}


# OpenSSL 3.0 defaults (ssl/t1_lib.c: supported_groups_default, tls12_sigalgs), as shipped in this image
OSSL_DEFAULT_EC = [29, 23, 30, 25, 24]
OSSL_DEFAULT_FF = [256, 257, 258, 259, 260]
OSSL_SIGS_ALL = [0x0403, 0x0503, 0x0603, 0x0807, 0x0808, 0x0809, 0x080A, 0x080B, 0x0804, 0x0805, 0x0806,
                 0x0401, 0x0501, 0x0601, 0x0303, 0x0203, 0x0301, 0x0201, 0x0302, 0x0202, 0x0402, 0x0502, 0x0602]
OSSL_SIGS_13ONLY = [0x0403, 0x0503, 0x0603, 0x0807, 0x0808, 0x0809, 0x080A, 0x080B, 0x0804, 0x0805, 0x0806,
                    0x0401, 0x0501, 0x0601]


def ossl_caps(cfg):
    """hand-written capability record of this OpenSSL build under an OsslCfg (SECLEVEL=0, 'ALL')"""
    vs = [v for v in (0x0301, 0x0302, 0x0303, 0x0304) if cfg.minv <= v <= cfg.maxv]
    if cfg.ciphers is None:
        old = [sid for sid, _ in SUITES if not (0x1300 <= sid <= 0x13ff)]
    else:
        old = [sid for sid in cfg.ciphers if not (0x1300 <= sid <= 0x13ff)]
    suites = list(old) + [0x1301, 0x1302, 0x1303]      # the stdlib cannot touch the TLS 1.3 list
    if cfg.server and not cfg.dh:
        # no DH parameters loaded: the server cannot do (anonymous or signed) finite-field DHE in TLS <= 1.2
        suites = [s for s in suites if parse_iana(SUITE_NAME[s])["kx"] not in ("dhe", "dhanon")]
    if cfg.group is not None:
        groups = [GROUPS[cfg.group]]
    else:
        groups = list(OSSL_DEFAULT_EC) + (list(OSSL_DEFAULT_FF) if cfg.maxv >= 0x0304 else [])
    dh_legacy = [GROUPS[cfg.dh]] if (cfg.server and cfg.dh) else []
    if cfg.maxv < 0x0303:
        sigs = []
    elif cfg.minv >= 0x0304:
        sigs = list(OSSL_SIGS_13ONLY)
    else:
        sigs = list(OSSL_SIGS_ALL)
    return {"versions": vs, "suites": suites, "groups": groups, "sigs": sigs, "dh_legacy": dh_legacy}


def offered_suites(caps):
    """the suites of a record that are defined for at least one of its versions (what a ClientHello lists)"""
    return sorted(s for s in caps["suites"] if s in SUITE_NAME and
                  any(v in caps["versions"] for v in suite_versions(SUITE_NAME[s])))


def nats(l):
    return ",".join(str(x) for x in l) if l else "-"


def expect_args(ccaps, scaps, cred):
    kt, kc = CREDS[cred][2], CREDS[cred][3]
    return "%s %s %s %s %s %s %s %s %s %s %d" % (
        nats(ccaps["versions"]), nats(ccaps["suites"]), nats(ccaps["groups"]), nats(ccaps["sigs"]),
        nats(scaps["versions"]), nats(scaps["suites"]), nats(scaps["groups"]), nats(scaps["sigs"]),
        nats(scaps.get("dh_legacy", [])), kt, kc)


def parse_expect(reply):
    """'ok v s:g,g;s:-' -> ('ok', v, {suite: [groups]}) ; 'fail r' -> ('fail', r, None)"""
    t = reply.split()
    if t[0] == "fail":
        return ("fail", t[1], None)
    if t[0] != "ok":
        return ("bad", reply, None)
    params = {}
    for item in t[2].split(";"):
        s, g = item.split(":")
        params[int(s)] = [] if g == "-" else [int(x) for x in g.split(",")]
    return ("ok", int(t[1]), params)


# --------------------------------------------------------------------------------------------
# OpenSSL <-> OpenSSL control pair (proves that a combination is supported by OpenSSL itself)
class OsslPair(object):
    def __init__(self, cctx, sctx, session=None):
        from .. import memsock
        self.link, _, _ = memsock.pair()
        self.c = OsslEnd(cctx, self.link, "client", session=session)
        self.s = OsslEnd(sctx, self.link, "server")

    def run_handshake(self):
        idle = 0
        for _ in range(2000):
            self.c.step_handshake()
            m1 = self.c.pump()
            self.s.pump()
            self.s.step_handshake()
            m2 = self.s.pump()
            self.c.pump()
            if self.c.state != "running" and self.s.state != "running":
                break
            if not (m1 or m2):
                idle += 1
                if idle >= 4:
                    break
            else:
                idle = 0
        return self.c.state == "done" and self.s.state == "done"

    def roundtrip(self, data=b"control"):
        self.c.write(data)
        self.s.pump()
        st, got = self.s.read_available()
        self.s.write(data)
        self.c.pump()
        st2, got2 = self.c.read_available()
        return got == data and got2 == data

    def close(self):
        for a, b in ((self.c, self.s), (self.s, self.c)):
            try:
                a.obj.unwrap()
            except Exception:
                pass
            a.pump()
            b.pump()
            b.read_available()
        for a in (self.c, self.s):
            try:
                a.obj.unwrap()
            except Exception:
                pass
            a.pump()


def mirror_cfg(tlc, caps):
    """an OpenSSL configuration playing tlslite's part with (as far as the stdlib allows) the same
    capabilities: same version range, same TLS <= 1.2 suites, the same single group if tlslite lists one"""
    server = tlc["role"] == "server"
    vs = caps["versions"]
    old = [s for s in caps["suites"] if not (0x1300 <= s <= 0x13ff)]
    curves = tlc["curves"] if tlc["curves"] is not None else TL_DEFAULT_CURVES
    dhg = tlc["dhgroups"] if tlc["dhgroups"] is not None else TL_DEFAULT_DHGROUPS
    listed = list(curves) + (list(dhg) if max(vs) >= 0x0304 else [])
    group = listed[0] if len(listed) == 1 and listed[0] in OSSL_GROUP_SN else None
    return OsslCfg(server=server, minv=min(vs), maxv=max(vs), ciphers=old if old else None, group=group,
                   cred=tlc["cred"] if server else None, client_cred=tlc["client_cred"],
                   req_cert=bool(tlc["req_cert"]) and server and bool(tlc["client_cred"]), alpn=tlc["alpn"],
                   no_ticket=server and not tlc["tickets"],
                   dh=(dhg[0] if dhg else "ffdhe2048") if server else None)


_CTX_CACHE = {}


def cached_ctx(cfg, fresh=False):
    import ssl
    k = cfg.key()
    if fresh or k not in _CTX_CACHE:
        c = make_ossl_ctx(cfg)
        if cfg.server and cfg.req_cert:
            c.verify_flags |= ssl.VERIFY_X509_PARTIAL_CHAIN   # the test client certificates are leaf-only trust anchors
        if fresh:
            return c
        _CTX_CACHE[k] = c
    return _CTX_CACHE[k]


_PROBE_CACHE = {}


def probe_client_hello(cfg):
    """the ClientHello an OpenSSL client with cfg's version / cipher / group settings really emits"""
    k = (cfg.minv, cfg.maxv, tuple(cfg.ciphers) if cfg.ciphers is not None else None, cfg.group)
    if k not in _PROBE_CACHE:
        from .. import memsock
        c = make_ossl_ctx(OsslCfg(server=False, minv=cfg.minv, maxv=cfg.maxv, ciphers=cfg.ciphers, group=cfg.group))
        link, _, _ = memsock.pair()
        e = OsslEnd(c, link, "client")
        e.step_handshake()
        e.pump()
        _PROBE_CACHE[k] = wire_view(link)["client_hello"]
    return _PROBE_CACHE[k]


def client_hello_vs_caps(ch, caps, who):
    """differences between a ClientHello on the wire and a capability record (as a list of strings)"""
    diffs = []
    if ch is None:
        return ["no ClientHello on the wire"]
    if ch["versions"] is not None:
        known = sorted(v for v in ch["versions"] if v in VER_OSSL_NAME)
        if known != sorted(caps["versions"]):
            diffs.append("%s supported_versions %s, record says %s" % (who, known, sorted(caps["versions"])))
    else:
        if caps["versions"] and ch["legacy_version"] != max(caps["versions"]):
            diffs.append("%s client_version %#x, record max %#x" % (who, ch["legacy_version"], max(caps["versions"])))
    got = sorted(s for s in ch["suites"] if s in SUITE_NAME)
    want = offered_suites(caps)
    if got != want:
        diffs.append("%s suites only-on-wire %s only-in-record %s" % (
            who, [hex(x) for x in sorted(set(got) - set(want))], [hex(x) for x in sorted(set(want) - set(got))]))
    return diffs


# --------------------------------------------------------------------------------------------
# one combination = two configurations + resumption mechanism + payload plan
VER_LABEL = {0x0301: "tls10", 0x0302: "tls11", 0x0303: "tls12", 0x0304: "tls13"}
VER_TUPLE = {0x0301: (3, 1), 0x0302: (3, 2), 0x0303: (3, 3), 0x0304: (3, 4)}
SMALL = [1, 100]
ALL_SIZES = [0, 1, 100, 16384, 16385, 50000]


def cred_for_suite(sid, default="rsa"):
    p = parse_iana(SUITE_NAME[sid])
    return {"rsa": "rsa", "ecdsa": "ecdsa", "dss": "dsa", "anon": "none", "any": default}[p["auth"]]


def make_combo(role, ver, sid, restrict="both", cred=None, group=None, client_cred=None, alpn_tl=None,
               alpn_os=None, resume=None, payloads=None, tl_extra=None, os_extra=None, tag="", decline=False,
               pay_seed=0, steer=None):
    """role = tlslite's role; ver = version code to pin; sid = suite id to pin (or None);
    restrict: which side is pinned to (ver, sid, group): 'both' | 'tl' | 'os'"""
    name = SUITE_NAME[sid] if sid is not None else None
    p = parse_iana(name) if name else None
    if cred is None:
        cred = cred_for_suite(sid) if sid is not None else "rsa"
    anon = bool(p and p["auth"] == "anon")
    pin_tl = restrict in ("both", "tl")
    pin_os = restrict in ("both", "os")
    tkw = {"cred": cred if role == "server" else None, "anon": anon}
    if pin_tl:
        if ver is not None:
            tkw["minv"] = tkw["maxv"] = VER_TUPLE[ver]
        if p is not None:
            tkw["ciphers"] = [TL_CIPHER[p["cipher"]]]
            if not p["tls13"]:
                tkw["macs"] = [TL_MAC[p["mac"]]]
                tkw["kx"] = [TL_KX[(p["kx"], p["auth"])]]
        if group is not None:
            if group.startswith("ffdhe"):
                tkw["dhgroups"] = [group]
                if ver == 0x0304:
                    tkw["curves"] = []
            else:
                tkw["curves"] = [group]
                if ver == 0x0304:
                    tkw["dhgroups"] = []
    okw = {"server": role == "client", "cred": cred if role == "client" else None}
    if pin_os:
        if ver is not None:
            okw["minv"] = okw["maxv"] = ver
        if sid is not None and not p["tls13"]:
            okw["ciphers"] = [sid]
        if group is not None and not (group.startswith("ffdhe") and ver != 0x0304):
            okw["group"] = group
    if role == "client":
        # OpenSSL server: give it DH parameters whenever a finite-field DHE suite may be negotiated
        okw["dh"] = group if (group is not None and group.startswith("ffdhe") and ver != 0x0304) else "ffdhe2048"
    if client_cred:
        tkw["client_cred"] = client_cred if role == "client" else None
        tkw["req_cert"] = role == "server"
        okw["client_cred"] = client_cred
        okw["req_cert"] = role == "client"
    if alpn_tl is not None:
        tkw["alpn"] = list(alpn_tl)
    if alpn_os is not None:
        okw["alpn"] = list(alpn_os)
    if resume == "sid":
        tkw["cache"] = True
        tkw["tickets"] = False
        okw["no_ticket"] = True
    elif resume in ("ticket", "psk"):
        tkw["tickets"] = True
    if tl_extra:
        tkw.update(tl_extra)
    if os_extra:
        okw.update(os_extra)
    tl = tl_cfg(role, **tkw)
    osc = OsslCfg(**okw)
    return {"tag": tag, "role": role, "ver": ver, "suite": sid, "group": group, "restrict": restrict, "cred": cred,
            "tl": tl, "os": osc.as_dict(), "resume": resume, "decline": decline,
            "payloads": list(payloads if payloads is not None else SMALL), "pay_seed": pay_seed, "steer": steer}


def combo_label(cb):
    names = ossl_names()
    return "c07:%s:%s:%s" % (VER_LABEL.get(cb["ver"], "anyver"),
                             names.get(cb["suite"], "anysuite") if cb["suite"] is not None else (cb.get("tag") or "anysuite"),
                             cb["role"]) + ((":steered-" + cb["steer"]) if cb.get("steer") else "")


def payload(n, seed):
    import random
    return random.Random(seed * 1000003 + n).randbytes(n)


def pem_der(path):
    import base64
    lines = []
    on = False
    with open(path) as f:
        for ln in f:
            if ln.startswith("-----BEGIN CERTIFICATE"):
                on = True
                continue
            if ln.startswith("-----END CERTIFICATE"):
                break
            if on:
                lines.append(ln.strip())
    return base64.b64decode("".join(lines))


def observe_pair(pr):
    from tlslite.constants import CipherSuite
    from .. import lab
    o = {}
    names = ossl_names()
    rev = {v: k for k, v in names.items()}
    c = pr.tl.conn
    o["tl_state"] = pr.tl.state
    o["os_state"] = pr.os.state
    o["tl_exc"] = lab.exc_class(pr.tl.exc) if pr.tl.state == "error" else None
    o["os_exc"] = ossl_exc_class(pr.os.exc) if pr.os.state == "error" else None
    if pr.tl.state == "done":
        o["tl_version"] = VERS.get(tuple(c.version))
        s = c.session
        o["tl_suite"] = s.cipherSuite if s is not None else None
        o["tl_suite_name"] = CipherSuite.ietfNames.get(s.cipherSuite) if s is not None else None
        o["tl_resumed"] = bool(c.resumed)
        o["tl_alpn"] = bytes(s.appProto) if (s is not None and s.appProto) else None
        o["tl_curve"] = getattr(c, "ecdhCurve", None)
    if pr.os.state == "done":
        ov = pr.os.obj.version()
        o["os_version"] = {v: k for k, v in VER_OSSL_NAME.items()}.get(ov)
        ci = pr.os.obj.cipher()
        o["os_suite"] = rev.get(ci[0]) if ci else None
        o["os_suite_name"] = ci[0] if ci else None
        o["os_resumed"] = bool(pr.os.obj.session_reused)
        a = pr.os.obj.selected_alpn_protocol()
        o["os_alpn"] = a.encode() if a is not None else None
    w = wire_view(pr.link)
    o["wire"] = {"parse_error": w.get("parse_error"), "hrr": w["hrr"], "group": w["group"], "abbreviated": w["abbreviated"],
                 "dh_bits": w["dh_p"].bit_length() if "dh_p" in w else None}
    o["dh_p"] = w.get("dh_p")
    sh = w["server_hello"]
    if sh is not None:
        o["wire"].update({"version": sh["version"], "suite": sh["suite"], "psk": sh["psk"],
                          "alpn": sh["alpn"], "ems": sh["ems"], "etm": sh["etm"]})
    o["client_hello"] = w["client_hello"]
    return o


def strip_obs(o):
    return {k: v for k, v in o.items() if k not in ("client_hello", "dh_p")}


def exchange(pr, sizes, seed):
    """application data both ways; returns list of problems (strings)"""
    problems = []
    for n in sizes:
        d = payload(n, seed)
        st = pr.tl_write(d)
        if st[0] != "ok":
            problems.append("tlslite write of %d bytes: %s" % (n, st[0]))
            break
        got = bytearray()
        for _ in range(8):
            rs, chunk = pr.os.read_available()
            got += chunk if isinstance(chunk, (bytes, bytearray)) else b""
            if rs != "ok" or len(got) >= n:
                break
        if rs == "error":
            problems.append("OpenSSL read after tlslite wrote %d bytes: %s" % (n, ossl_exc_class(chunk)))
            break
        if bytes(got) != d:
            problems.append("tlslite -> OpenSSL %d bytes: received %d bytes, %s" % (
                n, len(got), "content differs" if len(got) == n else "length differs"))
            break
        ws = pr.os.write(d)
        if ws[0] != "ok":
            problems.append("OpenSSL write of %d bytes: %s" % (n, ossl_exc_class(ws[1])))
            break
        if n:
            rs2, got2 = pr.tl_read(n)
            if rs2 != "ok" or got2 != d:
                problems.append("OpenSSL -> tlslite %d bytes: %s, received %s bytes" % (
                    n, rs2, len(got2) if isinstance(got2, (bytes, bytearray)) else repr(got2)))
                break
    return problems


def close_pair(pr):
    """orderly shutdown from tlslite's side, answered by OpenSSL; returns list of problems"""
    problems = []
    st = pr.tl_op(pr.tl.conn.closeAsync())
    if st[0] != "ok":
        problems.append("tlslite close: " + st[0])
    rs, chunk = pr.os.read_available()
    if rs != "eof":
        problems.append("OpenSSL did not see a clean close_notify from tlslite: %s" % rs)
    try:
        pr.os.obj.unwrap()
    except Exception as e:   # noqa: B902
        problems.append("OpenSSL unwrap: " + ossl_exc_class(e))
    pr.os.pump()
    return problems


# --------------------------------------------------------------------------------------------
# the expectation again, in Python (oracle when the Lean driver is unavailable; also diffed
# against the Lean model so that neither is trusted alone)
EC_GROUPS = (23, 24, 25, 26, 27, 28, 29, 30)
TLS13_GROUPS = (23, 24, 25, 29, 30, 31, 32, 33, 256, 257, 258, 259, 260)
SIG12 = {"rsa": (0x0201, 0x0301, 0x0401, 0x0501, 0x0601, 0x0804, 0x0805, 0x0806),
         "rsapss": (0x0809, 0x080A, 0x080B), "ecdsa": (0x0203, 0x0303, 0x0403, 0x0503, 0x0603),
         "ed25519": (0x0807,), "ed448": (0x0808,), "dsa": (0x0202, 0x0302, 0x0402, 0x0502, 0x0602), "none": ()}
SIG13 = {"rsa": (0x0804, 0x0805, 0x0806), "rsapss": (0x0809, 0x080A, 0x080B), "ed25519": (0x0807,),
         "ed448": (0x0808,), "dsa": (), "none": ()}
ECDSA13 = {23: 0x0403, 24: 0x0503, 25: 0x0603}


def py_expected(cc, sc, cred):
    kt, kc = CREDS[cred][2], CREDS[cred][3]
    cv = [v for v in cc["versions"] if v in sc["versions"]]
    if not cv:
        return ("fail", "noCommonVersion", None)
    v = max(cv)
    adm = [s for s in cc["suites"] if s in sc["suites"] and s in SUITE_NAME and v in suite_versions(SUITE_NAME[s])]
    if not adm:
        return ("fail", "noCommonSuite", None)
    csig = [x for x in cc["sigs"] if x in sc["sigs"]]
    cgrp = [g for g in cc["groups"] if g in sc["groups"]]
    params = {}
    for s in adm:
        p = parse_iana(SUITE_NAME[s])
        # server key
        if p["auth"] == "rsa":
            ok = kt == "rsa" or (kt == "rsapss" and p["kx"] != "rsa" and v == 0x0303)
        elif p["auth"] == "ecdsa":
            ok = (kt == "ecdsa" and kc in cc["groups"]) or (kt in ("ed25519", "ed448") and v == 0x0303)
        elif p["auth"] == "dss":
            ok = kt == "dsa"
        elif p["auth"] == "anon":
            ok = True
        else:
            ok = kt not in ("dsa", "none")
        if not ok:
            continue
        # group
        if p["kx"] == "rsa":
            groups = []
        elif p["kx"] in ("ecdhe", "ecdhanon"):
            groups = [g for g in cgrp if g in EC_GROUPS]
            if not groups:
                continue
        elif p["kx"] in ("dhe", "dhanon"):
            sdh = list(sc["groups"]) + list(sc.get("dh_legacy", []))
            cff = [g for g in cc["groups"] if 256 <= g <= 260]
            sff = [g for g in sdh if 256 <= g <= 260]
            if not cff:
                if not sff:
                    continue
                groups = []
            else:
                groups = [g for g in cc["groups"] if g in sdh and 256 <= g <= 260]
                if not groups:
                    continue
        else:
            groups = [g for g in cgrp if g in TLS13_GROUPS]
            if not groups:
                continue
        # signature scheme
        if p["auth"] != "anon" and p["kx"] != "rsa":
            if v == 0x0304:
                fit = (ECDSA13.get(kc),) if kt == "ecdsa" else SIG13[kt]
                if not any(x in fit for x in csig):
                    continue
            elif v == 0x0303:
                if not any(x in SIG12[kt] for x in csig):
                    continue
            else:
                if kt not in ("rsa", "dsa", "ecdsa"):
                    continue
        params[s] = groups
    if not params:
        return ("fail", "noUsableSuite", None)
    return ("ok", v, params)


RSA_MODULUS_BYTES = {"rsa": 256}      # tests/serverX509Cert.pem: 2048-bit modulus


CLIENT_KEY = {"client_rsa": ("rsa", 0), "client_ecdsa": ("ecdsa", 23), "client_rsa2048": ("rsa", 0),
              "client_rsapss": ("rsapss", 0), "client_ecdsa384": ("ecdsa", 24), "client_ecdsa521": ("ecdsa", 25),
              "client_ed25519": ("ed25519", 0)}


def py_client_sig_ok(v, cc, sc, kt, curve):
    common = [x for x in cc["sigs"] if x in sc["sigs"]]
    if v == 0x0304:
        fit = (ECDSA13.get(curve),) if kt == "ecdsa" else SIG13[kt]
        return any(x in fit for x in common)
    if v == 0x0303:
        return any(x in SIG12[kt] for x in common)
    return kt in ("rsa", "dsa", "ecdsa")


def py_client_cert_ok(v, cc, sc, kt, curve):
    if kt == "ecdsa" and v <= 0x0303:
        return curve in cc["groups"] and curve in sc["groups"]
    return True


def mechs(cfg_kind, cfg, server):
    """resumption mechanisms an endpoint supports under its configuration"""
    if cfg_kind == "tl":
        if not server:
            return ["sid", "ticket", "psk"]
        return (["sid"] if cfg["cache"] else []) + (["ticket", "psk"] if cfg["tickets"] else [])
    if not server:
        return ["sid", "ticket", "psk"]
    return ["sid", "psk"] if cfg.no_ticket else ["ticket", "psk"]


def py_resume_expected(mech, cm, sm, v0, s0, exp):
    if mech not in cm or mech not in sm:
        return False
    if (mech == "psk") != (v0 == 0x0304):
        return False
    if exp[0] != "ok" or exp[1] != v0:
        return False
    if v0 == 0x0304:
        h = lambda s: 384 if s == 0x1302 else 256   # noqa: E731
        return any(h(s) == h(s0) for s in exp[2])
    return s0 in exp[2]


# --------------------------------------------------------------------------------------------
# control: the same combination with OpenSSL on both ends
_CONTROL_CACHE = {}


def control(cb, tcaps):
    """run the combination OpenSSL<->OpenSSL (tlslite's part played by mirror_cfg); memoised"""
    osc = OsslCfg.from_dict(cb["os"])
    mir = mirror_cfg(cb["tl"], tcaps)
    k = (osc.key(), mir.key(), cb["resume"], cb["decline"])
    if k in _CONTROL_CACHE:
        return _CONTROL_CACHE[k]
    res = {"mirror": mir.as_dict(), "conns": []}
    try:
        if cb["role"] == "client":
            cctx, sctx = make_ossl_ctx(mir), cached_ctx(osc, fresh=True)
        else:
            cctx, sctx = cached_ctx(osc, fresh=True), make_ossl_ctx(mir)
            if mir.req_cert:
                import ssl
                sctx.verify_flags |= ssl.VERIFY_X509_PARTIAL_CHAIN | X509_V_FLAG_NO_CHECK_TIME
        sess = None
        for i in range(2 if cb["resume"] else 1):
            if i == 1 and cb["decline"]:
                sctx = make_ossl_ctx(mir) if cb["role"] == "server" else cached_ctx(osc, fresh=True)
            p = OsslPair(cctx, sctx, session=sess)
            ok = p.run_handshake()
            r = {"ok": ok, "c_exc": ossl_exc_class(p.c.exc) if p.c.exc else None,
                 "s_exc": ossl_exc_class(p.s.exc) if p.s.exc else None}
            if ok:
                r["data"] = p.roundtrip()
                r["version"] = p.c.obj.version()
                r["suite"] = p.c.obj.cipher()[0]
                r["resumed"] = bool(p.c.obj.session_reused) and bool(p.s.obj.session_reused)
                sess = p.c.obj.session
                p.close()
            res["conns"].append(r)
            if not ok:
                break
        res["ok"] = all(c["ok"] for c in res["conns"])
        res["mirror_caps"] = ossl_caps(mir)
    except Exception as e:   # noqa: B902 - a control that cannot even be configured proves nothing
        res["ok"] = False
        res["config_error"] = type(e).__name__ + ": " + str(e)
    _CONTROL_CACHE[k] = res
    return res


# --------------------------------------------------------------------------------------------
class Result(object):
    steer = None

    def __init__(self):
        self.violations = []      # (key, what)
        self.disagreements = []   # (stream, model, impl)
        self.conns = []
        self.expected = None
        self.notes = []


def lean_expect(lc, ccaps, scaps, cred):
    return parse_expect(lc.ask("expect " + expect_args(ccaps, scaps, cred)))


def run_combo(cb, lc=None, ticket_key=b"\x07" * 32):
    """execute one combination; pure with respect to ctx (returns a Result)"""
    from tlslite.sessioncache import SessionCache
    R = Result()
    role = cb["role"]
    tlc = cb["tl"]
    osc = OsslCfg.from_dict(cb["os"])
    tcaps = tl_caps(tlc)
    ocaps = ossl_caps(osc)
    ccaps, scaps = (tcaps, ocaps) if role == "client" else (ocaps, tcaps)
    cred = cb["cred"]
    label = combo_label(cb)
    exp = py_expected(ccaps, scaps, cred)
    if lc is not None:
        le = lean_expect(lc, ccaps, scaps, cred)
        if le != exp:
            R.disagreements.append(("lean-vs-python-expectation", le, exp))
    # client certificate: an ECDSA certificate's curve must be a group both sides list (TLS <= 1.2)
    client_cert_unspecified = False
    client_sig_none = False
    ccred = cb["os"].get("client_cred")
    if ccred and exp[0] == "ok":
        ck, kcurve = CLIENT_KEY[ccred]
        ok = py_client_cert_ok(exp[1], ccaps, scaps, ck, kcurve)
        if lc is not None:
            lo = lc.ask("ccert %d %s %s %s %d" % (exp[1], nats(ccaps["groups"]), nats(scaps["groups"]), ck, kcurve))
            if lo != ("true" if ok else "false"):
                R.disagreements.append(("lean-vs-python-clientcert", lo, ok))
        if exp[1] >= 0x0303:
            sok = py_client_sig_ok(exp[1], ccaps, scaps, ck, kcurve)
            if lc is not None:
                lo = lc.ask("csig %d %s %s %s %d" % (exp[1], nats(ccaps["sigs"]), nats(scaps["sigs"]), ck, kcurve))
                if lo != ("true" if sok else "false"):
                    R.disagreements.append(("lean-vs-python-clientsig", lo, sok))
            if not sok:
                # no scheme listed by both fits the client key: the client may send no certificate or the
                # handshake may fail; both are tolerated
                client_cert_unspecified = True
                client_sig_none = True
        if not ok:
            # whether a server accepts such a certificate is implementation policy (OpenSSL checks the
            # client's list in TLS 1.2 only, tlslite checks its own list): both outcomes are tolerated
            client_cert_unspecified = True
    R.expected = exp
    # ALPN expectation
    calpn = (tlc["alpn"] if role == "client" else osc.alpn)
    salpn = (osc.alpn if role == "client" else tlc["alpn"])
    if calpn is not None and salpn is not None:
        exp_alpn = [bytes(a) for a in calpn if a in salpn]
        if lc is not None:
            la = lc.ask("alpn %s %s" % (",".join(bytes(a).hex() for a in calpn), ",".join(bytes(a).hex() for a in salpn)))
            la = [] if la == "-" else [bytes.fromhex(x) for x in la.split(",")]
            if la != exp_alpn:
                R.disagreements.append(("lean-vs-python-alpn", la, exp_alpn))
    else:
        exp_alpn = None
    # validate the OpenSSL capability record against the ClientHello an OpenSSL client with this
    # configuration really sends
    ch = probe_client_hello(osc)
    pc = ossl_caps(OsslCfg(server=False, minv=osc.minv, maxv=osc.maxv, ciphers=osc.ciphers, group=osc.group))
    if ch is None and pc["versions"] == [0x0304] and not any(g in TLS13_GROUPS for g in pc["groups"]):
        diffs = []      # a TLS 1.3-only client without any TLS 1.3 group cannot even start: consistent
    else:
        diffs = client_hello_vs_caps(ch, pc, "OpenSSL")
    if ch is not None:
        if ch["groups"] is not None and sorted(ch["groups"]) != sorted(pc["groups"]):
            diffs.append("OpenSSL supported_groups %s, record says %s" % (ch["groups"], pc["groups"]))
        if ch["sigs"] is not None and sorted(x for x in ch["sigs"] if x in SIG.values()) != sorted(pc["sigs"]):
            diffs.append("OpenSSL signature_algorithms %s, record says %s" % (ch["sigs"], pc["sigs"]))
    if diffs:
        R.disagreements.append(("openssl-caps-record", pc, diffs))
    ctrl = None

    def get_control():
        return control(cb, tcaps)

    sess_tl = None
    sess_os = None
    cache = SessionCache() if tlc["cache"] else None
    os_ctx = cached_ctx(osc)
    first = None
    nconn = 2 if cb["resume"] else 1
    for i in range(nconn):
        if i == 1 and cb["decline"]:
            # the server forgot the first session (restart / key rotation): new secrets on the server side
            if role == "client":
                os_ctx = cached_ctx(osc, fresh=True)
            else:
                ticket_key = bytes(b ^ 0x5a for b in ticket_key)
                cache = SessionCache() if tlc["cache"] else None
        pr = Pair(role, os_ctx, ossl_session=sess_os)
        offered_ticket = None
        if i == 1 and role == "client" and sess_tl is not None and getattr(sess_tl, "tickets", None):
            tk0 = sess_tl.tickets[0]
            offered_ticket = (int(tk0.ticket_age_add), float(tk0.time))
        try:
            settings = tl_settings(tlc, ticket_key)
            tl_start(pr, tlc, settings, session=sess_tl, session_cache=cache)
        except Exception as e:   # noqa: B902 - configuration rejected by tlslite itself
            R.notes.append("tlslite rejected the configuration: %s: %s" % (type(e).__name__, e))
            R.conns.append({"config_error": type(e).__name__})
            if exp[0] == "ok":
                R.violations.append((label + ":config-rejected",
                                     "tlslite refuses a configuration the expectation calls compatible: %s" % e))
            return R
        from . import c07_steer
        with c07_steer.steering(sys.modules[__name__], pr, role, cb.get("steer") if i == 0 else None) as steer_st:
            pr.run_handshake()
        if i == 0 and cb.get("steer"):
            R.steer = dict(steer_st)
        o = observe_pair(pr)
        R.conns.append(strip_obs(o))
        both_done = o["tl_state"] == "done" and o["os_state"] == "done"
        # tlslite's own ClientHello against its capability record (settings honoured on the wire)
        if role == "client" and i == 0 and o["client_hello"] is not None:
            chd = o["client_hello"]
            want = offered_suites(tcaps)
            got = sorted(s for s in chd["suites"] if s in SUITE_NAME and
                         any(v in tcaps["versions"] for v in suite_versions(SUITE_NAME[s])))
            d = []
            if got != want:
                d.append("suites on wire %s, record %s" % ([hex(x) for x in got], [hex(x) for x in want]))
            if chd["versions"] is not None:
                if not set(tcaps["versions"]) <= set(chd["versions"]):
                    d.append("supported_versions %s lacks configured %s" % (chd["versions"], tcaps["versions"]))
                elif set(v for v in chd["versions"] if v in VER_OSSL_NAME) != set(tcaps["versions"]):
                    R.notes.append("tlslite client lists versions outside [minVersion, maxVersion] in supported_versions")
            elif tcaps["versions"] and chd["legacy_version"] != max(tcaps["versions"]):
                d.append("client_version %#x, record max %#x" % (chd["legacy_version"], max(tcaps["versions"])))
            needs_groups = any(parse_iana(SUITE_NAME[s])["kx"] != "rsa" for s in want)
            if needs_groups and chd["groups"] is not None:
                wg = set(tcaps["groups"])
                if not any(parse_iana(SUITE_NAME[s])["kx"] in ("ecdhe", "ecdhanon", "tls13") for s in want):
                    wg = set(g for g in wg if g >= 256)
                if not any(parse_iana(SUITE_NAME[s])["kx"] in ("dhe", "dhanon", "tls13") for s in want):
                    wg = set(g for g in wg if g < 256)
                if set(chd["groups"]) != wg:
                    d.append("supported_groups %s, record %s" % (sorted(chd["groups"]), sorted(wg)))
            if d:
                R.disagreements.append(("tlslite-caps-record-vs-clienthello", tcaps, d))
        if exp[0] == "ok":
            v, params = exp[1], exp[2]
            if not both_done and exp_alpn is not None and not exp_alpn and "stall" not in (o["tl_state"], o["os_state"]):
                # RFC 7301 3.2: without a common protocol the server may abort (no_application_protocol) or go on
                R.notes.append("no common ALPN protocol: handshake refused (allowed by RFC 7301)")
                break
            if not both_done and client_cert_unspecified and "stall" not in (o["tl_state"], o["os_state"]):
                R.notes.append("no signature scheme listed by both fits the client key: handshake refused" if client_sig_none else
                               "client ECDSA certificate on a curve not listed by both sides: refused (implementation policy)")
                break
            if not both_done:
                ctrl = get_control()
                if ctrl["ok"]:
                    kind = "handshake-failed" if i == 0 else ("resuming-handshake-failed:" + str(cb["resume"]) +
                                                              ("+hrr" if o["wire"].get("hrr") else ""))
                    R.violations.append((label + ":" + kind,
                                         "expected-compatible pair did not complete (connection %d): tlslite %s %s, OpenSSL %s %s; "
                                         "OpenSSL<->OpenSSL control of the same combination completes"
                                         % (i + 1, o["tl_state"], o["tl_exc"], o["os_state"], o["os_exc"])))
                else:
                    R.disagreements.append(("openssl-control-also-fails", exp, ctrl))
                break
            # both completed: same parameters on both sides and on the wire
            w = o["wire"]
            prm = []
            if not (o["tl_version"] == o["os_version"] == w.get("version")):
                prm.append("version: tlslite %s, OpenSSL %s, wire %s" % (o["tl_version"], o["os_version"], w.get("version")))
            if not (o["tl_suite"] == o["os_suite"] == w.get("suite")):
                prm.append("suite: tlslite %s, OpenSSL %s, wire %s" % (o["tl_suite"], o["os_suite_name"], w.get("suite")))
            if o["tl_suite"] in SUITE_NAME and (o["tl_suite_name"] or "").upper() != SUITE_NAME[o["tl_suite"]].upper():
                prm.append("suite name: tlslite calls %#x %s, IANA %s" % (o["tl_suite"], o["tl_suite_name"], SUITE_NAME[o["tl_suite"]]))
            if o["tl_alpn"] != o["os_alpn"] or (o["os_version"] != 0x0304 and w.get("alpn") != o["os_alpn"]):
                prm.append("ALPN: tlslite %r, OpenSSL %r, wire %r" % (o["tl_alpn"], o["os_alpn"], w.get("alpn")))
            if o["tl_resumed"] != o["os_resumed"]:
                prm.append("resumption status: tlslite %s, OpenSSL %s" % (o["tl_resumed"], o["os_resumed"]))
            if o["tl_curve"] is not None and w["group"] is not None and GROUPS.get(o["tl_curve"], o["tl_curve"]) != w["group"]:
                prm.append("group: tlslite %s, wire %s" % (o["tl_curve"], w["group"]))
            if prm:
                R.violations.append((label + ":params-differ", "both sides completed but report different parameters: " + "; ".join(prm)))
            # against the expectation (model vs actual) and against tlslite's own configuration
            ov, osu = o["os_version"], o["os_suite"]
            mism = []
            outside = []
            if ov != v:
                mism.append("version %s, expected %s" % (ov, v))
                if ov not in tcaps["versions"]:
                    outside.append("version %s not in tlslite's configured versions %s" % (VER_LABEL.get(ov), [VER_LABEL[x] for x in tcaps["versions"]]))
            if osu not in params:
                if ov == v:
                    mism.append("suite %s not among expected %s" % (o["os_suite_name"], sorted(params)))
                if osu not in tcaps["suites"]:
                    outside.append("suite %s not in tlslite's configured suites" % o["os_suite_name"])
            else:
                eg = params[osu]
                g = w["group"]
                if eg and g is not None and g not in eg:
                    mism.append("group %s not among expected %s" % (g, eg))
                    if g not in tcaps["groups"]:
                        outside.append("group %s not in tlslite's configured groups" % g)
                if eg and o["dh_p"] is not None:
                    ok_primes = [rfc7919_prime(int(GROUP_NAME[x][5:])) for x in eg if x >= 256]
                    if o["dh_p"] not in ok_primes:
                        mism.append("DH prime (%d bits) is not one of the expected RFC 7919 groups %s" % (o["dh_p"].bit_length(), eg))
            if exp_alpn is not None:
                if exp_alpn and o["os_alpn"] not in exp_alpn:
                    mism.append("ALPN %r not among common %r" % (o["os_alpn"], exp_alpn))
                    R.violations.append((label + ":alpn", "ALPN outcome %r / %r, common protocols %r" % (o["tl_alpn"], o["os_alpn"], exp_alpn)))
                if not exp_alpn:
                    if o["os_alpn"] is not None or o["tl_alpn"] is not None:
                        R.violations.append((label + ":alpn", "ALPN %r / %r selected without a common protocol" % (o["tl_alpn"], o["os_alpn"])))
                    else:
                        R.notes.append("no common ALPN protocol: handshake continued without ALPN (allowed by RFC 7301)")
            elif o["os_alpn"] is not None or o["tl_alpn"] is not None:
                mism.append("ALPN %r selected though one side offered none" % o["os_alpn"])
            if mism:
                R.disagreements.append(("expectation-vs-live", exp, mism))
            if outside:
                R.violations.append((label + ":outside-tlslite-config",
                                     "negotiated parameters lie outside tlslite's own configuration: " + "; ".join(outside)))
            # RFC 5246 7.4.7.1 / RFC 8017 7.2.1: the RSA-encrypted premaster secret is exactly as long as the
            # modulus (OpenSSL tolerates a shorter one, other peers do not)
            if role == "client" and o["os_suite"] in SUITE_NAME and parse_iana(SUITE_NAME[o["os_suite"]])["kx"] == "rsa" \
                    and not (i == 1 and o["os_resumed"]) and cb["cred"] in RSA_MODULUS_BYTES:
                try:
                    ckes = [b for t, b in split_handshake(handshake_stream(pr.link.records("c2s"))) if t == 16]
                    if ckes:
                        ln = _u(ckes[0], 0, 2)
                        if ln != len(ckes[0]) - 2 or ln != RSA_MODULUS_BYTES[cb["cred"]]:
                            R.violations.append((label + ":rsa-ciphertext-length",
                                                 "EncryptedPreMasterSecret is %d bytes (message body %d), modulus is %d bytes"
                                                 % (ln, len(ckes[0]), RSA_MODULUS_BYTES[cb["cred"]])))
                except Exception as e:   # noqa: B902
                    R.notes.append("ClientKeyExchange not parseable: " + type(e).__name__)
            # RFC 8446 4.2.11.1: obfuscated_ticket_age = (age in ms + ticket_age_add) mod 2^32
            if offered_ticket is not None and o["client_hello"] is not None and o["client_hello"]["psk_ages"]:
                import time as _time
                age = (o["client_hello"]["psk_ages"][0] - offered_ticket[0]) % (1 << 32)
                limit = int((_time.time() - offered_ticket[1]) * 1000) + 2000
                if age > limit:
                    R.violations.append((label + ":psk-ticket-age",
                                         "obfuscated_ticket_age on the wire de-obfuscates to %d ms, ticket is at most %d ms old" % (age, limit)))
            # certificates seen by the peers
            d = tests_dir()
            try:
                if role == "server" and tlc["cred"] not in (None, "none"):
                    der = pr.os.obj.getpeercert(True)
                    if der != pem_der(os.path.join(d, CREDS[tlc["cred"]][0])):
                        R.violations.append((label + ":peer-cert", "OpenSSL client received a different server certificate"))
                if cb["os"].get("client_cred") and not (i == 1 and o["os_resumed"]) and not client_sig_none:
                    want_der = pem_der(os.path.join(d, CLIENT_CREDS[cb["os"]["client_cred"]][0]))
                    if role == "client":
                        got_der = pr.os.obj.getpeercert(True)
                    else:
                        ch_ = pr.tl.conn.session.clientCertChain
                        got_der = bytes(ch_.x509List[0].bytes) if ch_ and ch_.x509List else None
                    if got_der != want_der:
                        R.violations.append((label + ":client-cert", "client certificate did not arrive intact at the server"))
            except Exception as e:   # noqa: B902
                R.notes.append("certificate comparison failed: " + type(e).__name__)
            # resumption (second connection)
            if i == 1:
                s0 = first["os_suite"]
                v0 = first["os_version"]
                cm = mechs("tl" if role == "client" else "os", tlc if role == "client" else osc, False)
                sm = mechs("os" if role == "client" else "tl", osc if role == "client" else tlc, True)
                want_res = (not cb["decline"]) and py_resume_expected(cb["resume"], cm, sm, v0, s0, exp)
                if lc is not None:
                    lr = lc.ask("resume %s %s %s %d %d %s" % (cb["resume"], ",".join(cm) or "-", ",".join(sm) or "-", v0, s0,
                                                              expect_args(ccaps, scaps, cred)))
                    if (lr == "true") != py_resume_expected(cb["resume"], cm, sm, v0, s0, exp):
                        R.disagreements.append(("lean-vs-python-resume", lr, want_res))
                wire_res = w.get("psk") if ov == 0x0304 else w.get("abbreviated")
                got_res = o["tl_resumed"] and o["os_resumed"]
                if o["tl_resumed"] == o["os_resumed"] and bool(wire_res) != bool(got_res):
                    R.violations.append((label + ":resumption-status-vs-wire",
                                         "both report resumed=%s but the wire shows %s handshake" % (got_res, "an abbreviated" if wire_res else "a full")))
                if want_res and not got_res and o["tl_resumed"] == o["os_resumed"]:
                    ctrl = get_control()
                    if ctrl["ok"] and len(ctrl["conns"]) == 2 and ctrl["conns"][1].get("resumed"):
                        R.violations.append((label + ":not-resumed:" + cb["resume"],
                                             "resumption mechanism %s supported by both was offered but a full handshake took place; "
                                             "OpenSSL<->OpenSSL control resumes" % cb["resume"]))
                    else:
                        R.disagreements.append(("openssl-control-does-not-resume", want_res, ctrl))
                if (not want_res) and got_res:
                    R.disagreements.append(("expectation-vs-live", "no resumption expected", "resumed"))
                if got_res and (ov != v0 or (ov != 0x0304 and osu != s0)):
                    R.violations.append((label + ":resumed-with-other-params", "resumed session changed version/suite"))
            # application data both ways, then orderly close
            sizes = list(cb["payloads"])
            if not any(sizes):
                sizes.append(1)     # at least one real read on each side (TLS 1.3 tickets arrive with it)
            probs = exchange(pr, sizes, cb["pay_seed"] + i)
            if probs:
                R.violations.append((label + ":data", "application data not delivered intact: " + "; ".join(probs)))
                break
            cl = close_pair(pr)
            if cl:
                R.violations.append((label + ":close", "orderly shutdown failed: " + "; ".join(cl)))
            if i == 0:
                first = o
                sess_tl = pr.tl.conn.session if role == "client" else None
                sess_os = pr.os.obj.session if role == "server" else None
        else:
            if both_done:
                R.disagreements.append(("expectation-vs-live", exp, "handshake completed: %s %s" % (o["os_version"], o["os_suite_name"])))
            elif "stall" in (o["tl_state"], o["os_state"]):
                R.notes.append("expected failure ended in a stall: tlslite %s, OpenSSL %s" % (o["tl_state"], o["os_state"]))
            break
    return R


# --------------------------------------------------------------------------------------------
# combination generators
EC_NAMES = ["secp256r1", "secp384r1", "secp521r1", "x25519", "x448"]
FF_NAMES = ["ffdhe2048", "ffdhe3072", "ffdhe4096", "ffdhe6144", "ffdhe8192"]
ROLES = ("client", "server")


def bulk_classes():
    """one suite per (cipher, MAC, version): prefer the cheapest key exchange"""
    seen = {}
    order = {"rsa": 0, "tls13": 0, "ecdhe": 1, "dhe": 2, "dhanon": 3, "ecdhanon": 3}
    for sid, name in SUITES:
        p = parse_iana(name)
        if p["auth"] in ("anon", "dss"):
            continue
        for v in suite_versions(name):
            k = (p["cipher"], p["mac"], v)
            if k not in seen or order[parse_iana(SUITE_NAME[seen[k]])["kx"]] > order[p["kx"]]:
                seen[k] = sid
    return sorted((v, sid) for (c, m, v), sid in seen.items())


def gen_combos(ctx):
    rng = ctx.rng
    thorough = ctx.thorough()
    seed = lambda: rng.randrange(1 << 30)   # noqa: E731

    # A. every mutually supported suite in every version it is defined for, both role assignments
    for role in ROLES:
        for sid, name in SUITES:
            for v in suite_versions(name):
                yield make_combo(role, v, sid, "both", tag="suite", pay_seed=seed())
                others = ("tl", "os") if thorough else ((rng.choice(("tl", "os")),) if rng.random() < 0.2 else ())
                for r in others:
                    yield make_combo(role, v, sid, r, tag="suite-asym", pay_seed=seed())

    # B. bulk transfer for every record protection (cipher, MAC, version), all payload sizes
    for role in ROLES:
        for v, sid in bulk_classes():
            yield make_combo(role, v, sid, "both", payloads=ALL_SIZES, tag="bulk", pay_seed=seed())

    # C. key-exchange groups
    group_suites = [(0x0301, 0xC013, "rsa"), (0x0303, 0xC02F, "rsa"), (0x0303, 0xC02B, "ecdsa"), (0x0304, 0x1301, "rsa"),
                    (0x0303, 0xC018, "none")]
    if thorough:
        group_suites += [(0x0302, 0xC014, "rsa"), (0x0304, 0x1302, "ecdsa384"), (0x0304, 0x1303, "ed25519"),
                         (0x0303, 0xCCA9, "ecdsa")]
    for role in ROLES:
        for v, sid, cred in group_suites:
            for g in EC_NAMES + (["brainpoolP256r1"] if v != 0x0304 or thorough else []):
                for r in ("both", "tl", "os"):
                    yield make_combo(role, v, sid, r, cred=cred, group=g, tag="group", pay_seed=seed())
        ff = FF_NAMES if thorough else FF_NAMES[:3]
        for g in ff:
            for sid13 in ((0x1301, 0x1302) if thorough else (0x1301,)):
                for r in ("both", "tl", "os"):
                    yield make_combo(role, 0x0304, sid13, r, group=g, tag="group-ffdhe13", pay_seed=seed())
            for v, sid in ((0x0303, 0x009E), (0x0301, 0x0033), (0x0303, 0x00A2), (0x0303, 0x006C)):
                if not thorough and sid in (0x00A2, 0x006C) and g != "ffdhe2048":
                    continue
                yield make_combo(role, v, sid, "both", group=g, tag="group-ffdhe12", pay_seed=seed())

    # C'. TLS 1.3 HelloRetryRequest: the first key share is for a group the server does not list
    for g2 in (["secp384r1", "x448", "ffdhe2048"] if not thorough else ["secp256r1", "secp384r1", "secp521r1", "x448", "ffdhe2048", "ffdhe3072"]):
        for sid in (0x1301, 0x1302, 0x1303):
            ff2 = g2.startswith("ffdhe")
            yield make_combo("client", 0x0304, sid, "both", tag="hrr", pay_seed=seed(),
                             tl_extra={"curves": ["x25519"] + ([] if ff2 else [g2]), "dhgroups": [g2] if ff2 else [],
                                       "keyshares": ["x25519"]},
                             os_extra={"group": g2})
            yield make_combo("server", 0x0304, sid, "tl", tag="hrr", pay_seed=seed(),
                             tl_extra={"curves": [] if ff2 else [g2], "dhgroups": [g2] if ff2 else []})

    # D. server key types (and the key types that cannot serve a suite: expected failures)
    key_cases = [(0x0303, 0xC02B, ["ecdsa", "ecdsa384", "ecdsa521", "ed25519", "ed448", "rsa"]),
                 (0x0303, 0xC02F, ["rsa", "rsapss", "ecdsa"]),
                 (0x0303, 0x009E, ["rsa", "rsapss"]),
                 (0x0303, 0x009C, ["rsa", "rsapss"]),
                 (0x0301, 0xC009, ["ecdsa", "ecdsa384", "ecdsa521", "ed25519"]),
                 (0x0302, 0xC013, ["rsa", "rsapss"]),
                 (0x0303, 0x00A2, ["dsa", "rsa"]),
                 (0x0304, 0x1301, ["rsa", "rsapss", "ecdsa", "ecdsa384", "ecdsa521", "ed25519", "ed448", "dsa"]),
                 (0x0304, 0x1302, ["rsa", "ecdsa384", "ed448"]),
                 (0x0304, 0x1303, ["rsapss", "ecdsa521", "ed25519"])]
    for role in ROLES:
        for v, sid, creds in key_cases:
            for cred in creds:
                yield make_combo(role, v, sid, "both", cred=cred, tag="keytype", pay_seed=seed())
                if thorough:
                    yield make_combo(role, v, sid, "os" if role == "server" else "tl", cred=cred, tag="keytype", pay_seed=seed())

    # E. client authentication
    for role in ROLES:
        for v in (0x0301, 0x0302, 0x0303, 0x0304):
            for cc in ("client_rsa", "client_ecdsa"):
                sids = [None] + ([0xC02F if v == 0x0303 else (0x1303 if v == 0x0304 else 0x0035)] if thorough else [])
                for sid in sids:
                    yield make_combo(role, v, sid, "both", client_cred=cc, tag="clientauth", pay_seed=seed())

    # E'. client CertificateVerify: client certificate kind x signature-hash restriction x TLS 1.2 / 1.3.
    #     tlslite server (restriction = what its CertificateRequest lists) <- OpenSSL client with every kind;
    #     tlslite client (restriction = what it is willing to sign with) -> OpenSSL server (stdlib cannot restrict
    #     OpenSSL's sigalgs, so its default list is the other record).  Expectation: a scheme listed by both that
    #     fits the client key exists => the handshake completes and the certificate arrives.
    hashes12 = ["sha1", "sha224", "sha256", "sha384", "sha512"]
    hashes13 = ["sha256", "sha384", "sha512"]
    for v in (0x0303, 0x0304):
        hs = hashes12 if v == 0x0303 else hashes13
        for cc in ("client_ecdsa", "client_ecdsa384", "client_ecdsa521"):
            for h in hs:      # hash smaller than / equal to / larger than the curve
                yield make_combo("server", v, None, "both", client_cred=cc, tag="clientauth-sig", pay_seed=seed(),
                                 tl_extra={"ecdsa_hashes": [h]})
        for h in hs:
            for schemes in (["pkcs1"], ["pss"], ["pss", "pkcs1"]):
                yield make_combo("server", v, None, "both", client_cred="client_rsa2048", tag="clientauth-sig",
                                 pay_seed=seed(), tl_extra={"rsa_hashes": [h], "rsa_schemes": schemes})
            if h in hashes13:
                yield make_combo("server", v, None, "both", client_cred="client_rsapss", tag="clientauth-sig",
                                 pay_seed=seed(), tl_extra={"rsa_hashes": [h], "rsa_schemes": ["pss"]})
            if h != "sha512":
                yield make_combo("server", v, None, "both", client_cred="client_rsa", tag="clientauth-sig",
                                 pay_seed=seed(), tl_extra={"rsa_hashes": [h]})
        yield make_combo("server", v, None, "both", client_cred="client_ed25519", tag="clientauth-sig", pay_seed=seed())
        yield make_combo("server", v, None, "both", client_cred="client_ed25519", tag="clientauth-sig", pay_seed=seed(),
                         tl_extra={"more_sigs": ["Ed25519"], "ecdsa_hashes": ["sha256"], "rsa_hashes": ["sha256"]})
        yield make_combo("server", v, None, "both", client_cred="client_ed25519", tag="clientauth-sig", pay_seed=seed(),
                         tl_extra={"more_sigs": ["Ed448"]})
        # tlslite as the signing client
        for h in hs:
            yield make_combo("client", v, None, "both", client_cred="client_ecdsa", tag="clientauth-sig", pay_seed=seed(),
                             tl_extra={"ecdsa_hashes": [h]})
            for schemes in (["pkcs1"], ["pss"]):
                if h == "sha512" and schemes == ["pss"]:
                    continue      # a 1024-bit key cannot make an RSA-PSS-SHA512 signature
                yield make_combo("client", v, None, "both", client_cred="client_rsa", tag="clientauth-sig", pay_seed=seed(),
                                 tl_extra={"rsa_hashes": [h], "rsa_schemes": schemes})

    # F. ALPN (overlapping lists only: without overlap RFC 7301 lets the server choose between
    #    a fatal alert and proceeding without ALPN, and the two libraries choose differently)
    alpn_cases = [([b"h2", b"http/1.1"], [b"http/1.1", b"h2"]), ([b"h2"], [b"h2"]),
                  ([b"a", b"bb", b"ccc"], [b"ccc"]), ([b"x" * 255, b"y"], [b"y", b"x" * 255]),
                  ([b"spdy/3", b"h2", b"http/1.1"], [b"http/1.1"])]
    for role in ROLES:
        for v in (0x0301, 0x0302, 0x0303, 0x0304) if thorough else (0x0301, 0x0303, 0x0304):
            for a, b in alpn_cases:
                yield make_combo(role, v, None, "both", alpn_tl=a, alpn_os=b, tag="alpn", pay_seed=seed())
            yield make_combo(role, v, None, "both", alpn_tl=[b"x"], alpn_os=[b"h2"], tag="alpn-disjoint", pay_seed=seed())
            yield make_combo(role, v, None, "both", alpn_tl=[b"h2"], alpn_os=None, tag="alpn-one-sided", pay_seed=seed())
            yield make_combo(role, v, None, "both", alpn_tl=None, alpn_os=[b"h2"], tag="alpn-one-sided", pay_seed=seed())

    # G. resumption: session ID, session ticket (TLS <= 1.2), PSK (TLS 1.3); second connection reuses the first's session
    old_suites = [0x002F, 0xC014, 0x0039] if not thorough else [s for s, n in SUITES if suite_versions(n) != [0x0304] and parse_iana(n)["auth"] in ("rsa", "ecdsa")]
    new_suites = [0x009C, 0xC02F, 0xCCA8, 0xC027, 0xC0A0, 0xC02C]
    for role in ROLES:
        for mech in ("sid", "ticket"):
            for sid in old_suites + (new_suites if not thorough else []):
                for v in suite_versions(SUITE_NAME[sid]):
                    yield make_combo(role, v, sid, "both", resume=mech, tag="resume", pay_seed=seed())
            yield make_combo(role, None, None, "both", resume=mech, tag="resume-default",
                             tl_extra={"maxv": (3, 3)}, os_extra={"maxv": 0x0303}, pay_seed=seed())
        for sid in (0x1301, 0x1302, 0x1303):
            for extra in ({}, {"no_ticket": True}) if role == "client" else ({},):
                yield make_combo(role, 0x0304, sid, "both", resume="psk", tag="resume", os_extra=extra, pay_seed=seed())
            for cred in ("ecdsa", "ed25519") if thorough else ("ecdsa",):
                yield make_combo(role, 0x0304, sid, "both", cred=cred, resume="psk", tag="resume", pay_seed=seed())
        # resumption with client authentication and with ALPN
        yield make_combo(role, 0x0303, 0xC02F, "both", resume="ticket", client_cred="client_ecdsa", tag="resume-auth", pay_seed=seed())
        yield make_combo(role, 0x0304, 0x1301, "both", resume="psk", client_cred="client_ecdsa", tag="resume-auth", pay_seed=seed())
        yield make_combo(role, 0x0304, 0x1302, "both", resume="psk", alpn_tl=[b"h2", b"http/1.1"], alpn_os=[b"h2"], tag="resume-alpn", pay_seed=seed())
        yield make_combo(role, 0x0303, 0xC030, "both", resume="sid", alpn_tl=[b"h2", b"http/1.1"], alpn_os=[b"h2"], tag="resume-alpn", pay_seed=seed())
        # the server has forgotten the session (restart, rotated ticket key): a full handshake must follow
        yield make_combo(role, 0x0303, 0xC02F, "both", resume="ticket", decline=True, tag="resume-declined", pay_seed=seed())
        yield make_combo(role, 0x0303, 0xC02F, "both", resume="sid", decline=True, tag="resume-declined", pay_seed=seed())
        yield make_combo(role, 0x0304, 0x1301, "both", resume="psk", decline=True, tag="resume-declined", pay_seed=seed())
        yield make_combo(role, 0x0301, 0x002F, "both", resume="ticket", decline=True, tag="resume-declined", pay_seed=seed())

    # G'. enumerated products: resumption x HelloRetryRequest x client authentication x ALPN, both roles.
    #     The HelloRetryRequest is forced by a key-share / group mismatch and therefore happens on BOTH
    #     connections, in particular on the resuming one (second ClientHello carries re-signed PSK binders;
    #     an OpenSSL server sends no cookie, so pre_shared_key stays the last extension).
    hrr_groups = ["secp384r1", "ffdhe2048"] if not thorough else ["secp256r1", "secp384r1", "secp521r1", "x448", "ffdhe2048", "ffdhe3072"]
    auth_opts = (None, "client_ecdsa") if not thorough else (None, "client_ecdsa", "client_rsa")
    alpn_opts = (None, ([b"h2", b"http/1.1"], [b"http/1.1", b"h2"]))
    for g2 in hrr_groups:
        ff2 = g2.startswith("ffdhe")
        for sid in (0x1301, 0x1302, 0x1303):
            for cc in auth_opts:
                for al in alpn_opts:
                    if not thorough and cc is not None and al is not None and sid != 0x1302:
                        continue
                    akw = {"alpn_tl": al[0], "alpn_os": al[1]} if al else {}
                    # tlslite client: first share x25519, OpenSSL server only lists g2
                    for nt in ((False, True) if (thorough or (cc is None and al is None)) else (False,)):
                        yield make_combo("client", 0x0304, sid, "both", resume="psk", client_cred=cc, tag="resume-hrr",
                                         pay_seed=seed(),
                                         tl_extra={"curves": ["x25519"] + (["secp256r1"] if cc == "client_ecdsa" else []) + ([] if ff2 else [g2]),
                                                   "dhgroups": [g2] if ff2 else [], "keyshares": ["x25519"]},
                                         os_extra={"group": g2, "no_ticket": nt}, **akw)
                    # OpenSSL client: first share x25519 (library default), tlslite server only lists g2
                    yield make_combo("server", 0x0304, sid, "tl", resume="psk", client_cred=cc, tag="resume-hrr",
                                     pay_seed=seed(),
                                     tl_extra={"curves": ([] if ff2 else [g2]) + (["secp256r1"] if (cc == "client_ecdsa" and g2 != "secp256r1") else []),
                                               "dhgroups": [g2] if ff2 else [], "keyshares": [g2]}, **akw)
    # resumption x client authentication x ALPN for TLS <= 1.2 (session ID and ticket), and for TLS 1.3 without HRR
    for role in ROLES:
        for cc in auth_opts:
            for al in alpn_opts:
                if cc is None and al is None:
                    continue          # family G
                akw = {"alpn_tl": al[0], "alpn_os": al[1]} if al else {}
                for mech in ("sid", "ticket"):
                    for v, sid in ((0x0303, 0xC02F), (0x0303, 0x009D), (0x0301, 0xC014), (0x0302, 0x0033)) if thorough else ((0x0303, 0xC02F), (0x0301, 0xC014)):
                        yield make_combo(role, v, sid, "both", resume=mech, client_cred=cc, tag="resume-product", pay_seed=seed(), **akw)
                for sid in (0x1301, 0x1302, 0x1303) if thorough else (0x1303,):
                    yield make_combo(role, 0x0304, sid, "both", resume="psk", client_cred=cc, tag="resume-product", pay_seed=seed(), **akw)

    # S. steered leading zeros: tlslite's random private value is redrawn (from its own generator) until an
    #    independently computed predicate holds - own FFDHE public value / the shared secret / the RSA ciphertext
    #    starts with a zero byte.  The side that draws AFTER seeing the peer's share can be steered for the
    #    shared secret: the client in TLS <= 1.2, the server in TLS 1.3.
    xs = ("z0", "z0lsb") if thorough else ("z0",)
    for g in EC_NAMES:
        for want in (xs if g in ("x25519", "x448") else ("z0",)):
            for v, sid in ((0x0303, 0xC02F), (0x0301, 0xC013)) if thorough else ((0x0303, 0xC02F),):
                yield make_combo("client", v, sid, "both", group=g, steer=want, tag="steered", pay_seed=seed())
            yield make_combo("server", 0x0304, 0x1301, "both", group=g, steer=want, tag="steered", pay_seed=seed())
    for g in (FF_NAMES[:3] if thorough else FF_NAMES[:1]):
        for want in ("pub0", "z0"):
            for v, sid in ((0x0303, 0x009E), (0x0301, 0x0033), (0x0303, 0x006C)) if thorough else ((0x0303, 0x009E), (0x0301, 0x0033)):
                yield make_combo("client", v, sid, "both", group=g, steer=want, tag="steered", pay_seed=seed())
            yield make_combo("server", 0x0304, 0x1302, "both", group=g, steer=want, tag="steered", pay_seed=seed())
        yield make_combo("client", 0x0304, 0x1301, "both", group=g, steer="pub0", tag="steered", pay_seed=seed())
        yield make_combo("server", 0x0303, 0x009E, "both", group=g, steer="pub0", tag="steered", pay_seed=seed())
    for v, sid in ((0x0303, 0x009C), (0x0301, 0x002F), (0x0302, 0x0035), (0x0303, 0xC09C)) if thorough else ((0x0303, 0x009C), (0x0301, 0x002F)):
        yield make_combo("client", v, sid, "both", steer="rsa0", tag="steered", pay_seed=seed())

    # H. configurations that share no common parameters: both sides must fail
    for role in ROLES:
        for vt, vo in ((0x0304, 0x0303), (0x0303, 0x0304), (0x0301, 0x0303), (0x0303, 0x0301), (0x0302, 0x0304)):
            tl_extra = {"minv": VER_TUPLE[vt], "maxv": VER_TUPLE[vt]}
            yield make_combo(role, None, None, "both", tag="disjoint-version", tl_extra=tl_extra,
                             os_extra={"minv": vo, "maxv": vo}, pay_seed=seed())
        for st, so in ((0xC02F, 0xC030), (0x002F, 0x0035), (0x009C, 0xC09C), (0xC02B, 0xC02F), (0xCCA8, 0xCCAA)):
            p = parse_iana(SUITE_NAME[st])
            yield make_combo(role, 0x0303, None, "both", tag="disjoint-suite", pay_seed=seed(),
                             tl_extra={"ciphers": [TL_CIPHER[p["cipher"]]], "macs": [TL_MAC[p["mac"]]], "kx": [TL_KX[(p["kx"], p["auth"])]]},
                             os_extra={"ciphers": [so]}, cred=cred_for_suite(st))
        for gt, go in (("x25519", "secp256r1"), ("secp384r1", "x448"), ("secp521r1", "x25519")):
            for v, sid in ((0x0303, 0xC02F), (0x0304, 0x1301), (0x0301, 0xC013)):
                yield make_combo(role, v, sid, "both", tag="disjoint-group", pay_seed=seed(),
                                 tl_extra={"curves": [gt], "dhgroups": []}, os_extra={"group": go})

    # I. only one side restricted to a version (the other keeps TLS 1.0 - 1.3)
    for role in ROLES:
        for v in (0x0301, 0x0302, 0x0303, 0x0304):
            for r in ("tl", "os"):
                yield make_combo(role, v, None, r, tag="version-asym", pay_seed=seed())

    # J. random points of the full product
    n = ctx.pick(120, 2500)
    for _ in range(n):
        role = rng.choice(ROLES)
        sid, name = rng.choice(SUITES)
        v = rng.choice(suite_versions(name))
        p = parse_iana(name)
        r = rng.choice(("both", "both", "tl", "os"))
        group = None
        if p["kx"] in ("ecdhe", "ecdhanon"):
            group = rng.choice(EC_NAMES + [None])
        elif p["kx"] == "tls13":
            group = rng.choice(EC_NAMES + FF_NAMES[:2] + [None])
        elif p["kx"] in ("dhe", "dhanon"):
            group = rng.choice(FF_NAMES[:2] + [None])
        cred = cred_for_suite(sid)
        if p["auth"] == "rsa" and p["kx"] != "rsa" and v == 0x0303 and rng.random() < 0.3:
            cred = "rsapss"
        elif p["auth"] == "ecdsa":
            cred = rng.choice(["ecdsa", "ecdsa384", "ecdsa521"] + (["ed25519", "ed448"] if v == 0x0303 else []))
            if cred.startswith("ecdsa") and group is not None and r != "os":
                group = None      # the certificate's curve must stay in the client's list (RFC 8422 5.1)
            if cred.startswith("ecdsa") and group is not None and role == "server":
                group = None
        elif p["auth"] == "any":
            cred = rng.choice(["rsa", "rsapss", "ecdsa", "ecdsa384", "ecdsa521", "ed25519", "ed448"])
        anon = p["auth"] == "anon"
        client_cred = rng.choice([None, None, "client_rsa", "client_ecdsa"]) if not anon else None
        if client_cred == "client_ecdsa" and role == "client" and p["kx"] == "dhe":
            # tlslite then lists FFDHE groups only and OpenSSL refuses a P-256 client certificate (WRONG_CURVE):
            # a corner the RFCs do not settle; not generated
            client_cred = "client_rsa"
        alpn = rng.choice([None, None, ([b"h2", b"http/1.1"], [b"http/1.1"]), ([b"proto-a"], [b"proto-b", b"proto-a"])]) if not anon else None
        resume = None
        if not anon and rng.random() < 0.35:
            resume = "psk" if v == 0x0304 else rng.choice(("sid", "ticket"))
        sizes = rng.sample(ALL_SIZES, rng.randrange(1, 4))
        if not thorough and rng.random() < 0.8:
            sizes = [x for x in sizes if x < 16384] or [1]
        yield make_combo(role, v, sid, r, cred=cred, group=group, client_cred=client_cred,
                         alpn_tl=alpn[0] if alpn else None, alpn_os=alpn[1] if alpn else None, resume=resume,
                         payloads=sizes, tag="random", pay_seed=seed())


def combo_key(cb):
    import json
    return json.dumps({k: (v if not isinstance(v, (bytes, bytearray)) else bytes(v).hex()) for k, v in cb.items()
                       if k not in ("pay_seed", "tag")}, sort_keys=True, default=lambda o: bytes(o).hex())


def report(ctx, cb, R):
    from ..core import jsonable
    rep = {"combo": cb, "expected": R.expected, "connections": R.conns, "notes": R.notes}
    for key, what in R.violations:
        ctx.violation(key, what + "  [combination: tlslite as %s, %s, %s, restrict=%s, cred=%s, group=%s, resume=%s, client cert=%s, tlslite signature settings=%s]" % (
            cb["role"], VER_LABEL.get(cb["ver"]), SUITE_NAME.get(cb["suite"]), cb["restrict"], cb["cred"], cb["group"],
            cb["resume"], cb["os"].get("client_cred"),
            {k: cb["tl"].get(k) for k in ("ecdsa_hashes", "rsa_hashes", "rsa_schemes", "more_sigs") if cb["tl"].get(k)} or "default"), dict(jsonable(rep), stage="live"))
    for stream, model, impl in R.disagreements:
        ctx.disagree(stream, {"combo": cb}, model, impl)


def table_checks(ctx):
    """the three suite tables (Python/IANA parse, Lean suiteTable, OpenSSL's own ids and tlslite's names) agree"""
    from tlslite.constants import CipherSuite
    lc = ctx.lean()
    names = ossl_names()
    for sid, name in SUITES:
        p = parse_iana(name)
        ctx.case(key=("table", sid), sample=None)
        if sid not in names:
            ctx.disagree("suite-table-vs-openssl", sid, name, "not in this OpenSSL build")
        tn = CipherSuite.ietfNames.get(sid)
        if tn is None or tn.upper() != name.upper():
            ctx.disagree("suite-table-vs-tlslite-names", sid, name, tn)
        if lc is not None:
            kx = {"dhanon": "dhanon", "ecdhanon": "ecdhanon"}.get(p["kx"], p["kx"])
            want = "%s %s %s" % (kx, p["auth"], "true" if p["tls12only"] else "false")
            got = lc.ask("suite %d" % sid)
            ctx.compared()
            if got != want:
                ctx.disagree("lean-suite-table-vs-iana-parse", sid, got, want)
            for v in (0x0300, 0x0301, 0x0302, 0x0303, 0x0304):
                g = lc.ask("vok %d %d" % (sid, v))
                ctx.compared()
                w = "true" if (v in suite_versions(name) or (v == 0x0300 and 0x0301 in suite_versions(name))) else "false"
                if g != w:
                    ctx.disagree("lean-versionOk-vs-iana-parse", (sid, v), g, w)


SRP_STEERS = ("none", "A0", "B0", "u0", "S0", "AB0")


def srp_checks(ctx):
    """SRP (not reachable through the stdlib): RFC 5054 reference peer <-> tlslite SRPKeyExchange, both roles,
    through the serialised key-exchange messages, exponents steered to leading zero bytes of A, B, u, premaster"""
    from ..core import Infra
    from . import c07_steer as S
    from tlslite.mathtls import goodGroupParameters
    from tlslite.constants import CipherSuite
    if not S.srp_selftest():
        raise Infra("RFC 5054 reference peer does not reproduce the RFC 5054 appendix B vector")
    if not S.x_selftest():
        raise Infra("RFC 7748 reference ladder does not reproduce the RFC 7748 vectors")
    rng = ctx.rng
    # group parameters are data the server announces; the 1024-bit one is the harness' own RFC 5054 constant
    groups = [(2, S.N1024)] + [goodGroupParameters[i] for i in ((2,) if not ctx.thorough() else (1, 2, 3, 4))]
    # the unsigned SRP suites: the key exchange arithmetic is the same in the certificate-signed ones
    suites = [CipherSuite.TLS_SRP_SHA_WITH_AES_128_CBC_SHA, CipherSuite.TLS_SRP_SHA_WITH_AES_256_CBC_SHA]
    for g, N in groups:
        for role in ROLES:
            for steer in SRP_STEERS + (("none",) * 6 if ctx.thorough() else ("none",)):
                s = bytes(rng.getrandbits(8) for _ in range(rng.choice((1, 8, 16, 32))))
                user = rng.choice(("alice", "u", "user@example.com"))
                pw = rng.choice(("password123", "", "p\u00e4ss w:rd"))
                a, b = S.find_exponents(rng, N, g, s, user.encode(), pw.encode(), role, steer)
                case = {"role": role, "N": "%x" % N, "g": g, "s": s.hex(), "I": user, "P": pw, "a": a, "b": b,
                        "suite": rng.choice(suites), "version": list(rng.choice(((3, 1), (3, 2), (3, 3)))), "steer": steer}
                try:
                    ok, d = S.srp_case(case)
                except Exception as e:   # noqa: B902
                    ok, d = False, {"exception": type(e).__name__ + ": " + str(e)}
                ctx.case(key=("srp", role, N.bit_length(), steer, a, b, case["s"]), sample=None)
                ctx.count("srp:%s:%s" % (role, steer))
                if not ok:
                    ctx.violation("c07:srp:%s:premaster-differs:%s" % (role, steer),
                                  "SRP: tlslite (%s) and the RFC 5054 reference peer derive different premaster secrets "
                                  "(%d-bit group, steered %s): %s" % (role, N.bit_length(), steer, d),
                                  {"stage": "srp", "case": case, "details": d})


def run(ctx):
    import warnings
    warnings.simplefilter("ignore", DeprecationWarning)
    ctx.rule = ("combination = (tlslite role, pinned version, pinned suite, group, server key type, client certificate, "
                "ALPN lists, resumption mechanism, payload sizes, which side is pinned); families: every mutual suite x "
                "version x role; bulk transfer 0/1/100/16384/16385/50000 per record protection; groups incl. FFDHE and "
                "HelloRetryRequest; key types; client auth (certificate kind x signature-hash restriction); ALPN; session-ID / ticket / PSK resumption incl. declined; "
                "enumerated products resumption x HelloRetryRequest x client auth x ALPN; "
                "disjoint configurations; one-sided version pins; steered leading-zero key exchanges; SRP reference-peer cases; "
                "random points of the product. distinct = distinct "
                "pair of configurations + mechanism + payload plan; non-trivial = a live handshake was attempted")
    ctx.assumptions = ["OpenSSL 3.0 (stdlib ssl, in-memory BIOs) is the independent implementation; its behaviour is observed, not proved",
                       "the OpenSSL capability record (harness/props/c07.py:ossl_caps) is hand-written; it is validated in each run "
                       "against the ClientHello OpenSSL emits and by OpenSSL<->OpenSSL control handshakes",
                       "expectedOutcome (Lean) and py_expected (Python) are two writings of the RFC negotiation rules; they are diffed on every combination",
                       "ALPN without a common protocol, and ECDSA certificates whose curve the client did not list in TLS 1.0/1.1, are not generated "
                       "(RFCs leave the outcome to the implementation)"]
    ctx.extra["not_covered"] = ["SSLv3 / 3DES / RC4 / NULL / SRP: not available through this OpenSSL build + stdlib",
                                "TLS 1.3 CCM suites: stdlib cannot enable them in OpenSSL",
                                "record_size_limit: OpenSSL 3.0 does not implement RFC 8449 (first in 3.2) - skipped",
                                "0-RTT, post-handshake authentication, renegotiation, KeyUpdate"]
    lc = ctx.lean()
    table_checks(ctx)
    srp_checks(ctx)
    seen = set()
    notes = {}
    budget = ctx.pick(110, 800)
    skipped = 0
    for cb in gen_combos(ctx):
        k = combo_key(cb)
        if k in seen:
            continue
        seen.add(k)
        if ctx.elapsed() > budget and cb["tag"] == "random":
            skipped += 1
            continue
        R = run_combo(cb, lc)
        attempted = any("tl_state" in c for c in R.conns)
        ctx.case(key=k, nontrivial=attempted,
                 sample={"combo": cb, "expected": R.expected, "connections": R.conns} if ctx.evaluations % 211 == 0 else None)
        if lc is not None:
            ctx.compared()
        ctx.count("family:" + cb["tag"])
        ctx.count("role:" + cb["role"])
        ctx.count("version:" + VER_LABEL.get(cb["ver"], "unpinned"))
        ctx.count("expected:" + (R.expected[0] if R.expected[0] != "fail" else "fail-" + R.expected[1]))
        if cb["resume"]:
            ctx.count("resume:" + cb["resume"] + ("-declined" if cb["decline"] else ""))
        for c in R.conns:
            if "tl_state" in c:
                ctx.count("live:%s/%s" % (c["tl_state"], c["os_state"]))
                if c.get("wire", {}).get("hrr"):
                    ctx.count("live:hello-retry-request")
        if cb["tag"] == "resume-hrr" and len(R.conns) == 2 and R.conns[1].get("tl_state") == "done":
            if R.conns[1].get("wire", {}).get("hrr") and R.conns[1].get("os_resumed"):
                ctx.count("live:resumed-after-hello-retry-request")
            else:
                R.notes.append("resume-hrr combination did not exercise HelloRetryRequest + resumption together")
        if R.steer is not None:
            ctx.count("steered:%s:%s" % (R.steer["want"], "hit" if R.steer["hit"] else "miss"))
            if not R.steer["hit"]:
                R.notes.append("steering %s did not reach its predicate (combination ran unsteered)" % R.steer["want"])
        for n in R.notes:
            notes[n] = notes.get(n, 0) + 1
        report(ctx, cb, R)
    ctx.count("control-handshakes", len(_CONTROL_CACHE))
    ctx.count("random-skipped-for-time", skipped)
    ctx.extra["notes"] = notes
    ctx.extra["openssl"] = __import__("ssl").OPENSSL_VERSION


def replay(ctx, rep):
    import warnings
    warnings.simplefilter("ignore", DeprecationWarning)
    inp = rep["input"]
    if inp.get("stage") == "srp":
        from . import c07_steer as S
        try:
            ok, d = S.srp_case(inp["case"])
        except Exception as e:   # noqa: B902
            ok, d = False, {"exception": type(e).__name__ + ": " + str(e)}
        print("reference selftest:", S.srp_selftest(), " agree:", ok, d)
        return not ok
    if "combo" not in inp:
        print("replay of stage %r: re-running the whole check" % inp.get("stage"))
        run(ctx)
        return bool(ctx.violations or ctx.disagreements)
    cb = inp["combo"]
    for side in ("tl", "os"):
        a = cb[side].get("alpn")
        if a is not None:
            cb[side]["alpn"] = [bytes.fromhex(x) if isinstance(x, str) else bytes(x) for x in a]
    for f in ("minv", "maxv"):
        cb["tl"][f] = list(cb["tl"][f])
    R = run_combo(cb, ctx.lean())
    print("expected:", R.expected)
    for c in R.conns:
        print("connection:", c)
    for key, what in R.violations:
        print("violation:", key, what)
    for d in R.disagreements:
        print("disagreement:", d[0], d[2])
    want = rep.get("key")
    return any(k == want for k, _ in R.violations) if want and not want.startswith(("correspondence", "obligation", "audit")) \
        else bool(R.violations or R.disagreements)
