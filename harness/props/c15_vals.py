"""C15 helpers: generic values, format trees (parsed from the Lean driver's `show`), value
generators driven by the format tree, and byte-string mutants.

Values (mirror of Tls.Fmt.Val):  ('u',) ('n',int) ('b',bytes) ('p',a,b) ('l',(v,...)) ('N',) ('S',v)
Formats (mirror of Tls.Fmt.Fmt): ('U',) ('u',n) ('y',n) ('R',) ('p',f,g) ('L',ll,f) ('M',f)
                                 ('O',f) ('T',n,f) ('C',k,f,g) ('X',)
"""

U = ('u',)
NONE = ('N',)


def N(x):
    return ('n', int(x))


def B(b):
    return ('b', bytes(b))


def P(a, b):
    return ('p', a, b)


def L(items):
    return ('l', tuple(items))


def S(v):
    return ('S', v)


def seqv(*vs):
    """right-nested pair, like Tls.Msgs.seq"""
    if not vs:
        return U
    if len(vs) == 1:
        return vs[0]
    return P(vs[0], seqv(*vs[1:]))


def unseq(v, n):
    """inverse of seqv for n components"""
    out = []
    for _ in range(n - 1):
        assert v[0] == 'p', v
        out.append(v[1])
        v = v[2]
    out.append(v)
    return out


def render(v):
    out = []
    _render(v, out)
    return "".join(out)


def _render(v, out):
    k = v[0]
    if k == 'u':
        out.append("u")
    elif k == 'n':
        out.append("n%d" % v[1])
    elif k == 'b':
        out.append("b" + v[1].hex())
    elif k == 'p':
        out.append("(")
        _render(v[1], out)
        out.append(",")
        _render(v[2], out)
        out.append(")")
    elif k == 'l':
        out.append("[")
        for i, x in enumerate(v[1]):
            if i:
                out.append(";")
            _render(x, out)
        out.append("]")
    elif k == 'N':
        out.append("N")
    elif k == 'S':
        out.append("S")
        _render(v[1], out)
    else:
        raise ValueError(v)


def parse_val(s):
    v, i = _pv(s, 0)
    if i != len(s):
        raise ValueError("trailing text in value: " + s[i:i + 20])
    return v


_HEX = set("0123456789abcdef")


def _pv(s, i):
    c = s[i]
    if c == 'u':
        return U, i + 1
    if c == 'N':
        return NONE, i + 1
    if c == 'S':
        v, i = _pv(s, i + 1)
        return S(v), i
    if c == 'n':
        j = i + 1
        while j < len(s) and s[j].isdigit():
            j += 1
        return N(int(s[i + 1:j])), j
    if c == 'b':
        j = i + 1
        while j + 1 < len(s) and s[j] in _HEX and s[j + 1] in _HEX:
            j += 2
        return B(bytes.fromhex(s[i + 1:j])), j
    if c == '(':
        a, i = _pv(s, i + 1)
        assert s[i] == ','
        b, i = _pv(s, i + 1)
        assert s[i] == ')'
        return P(a, b), i + 1
    if c == '[':
        items = []
        i += 1
        if s[i] == ']':
            return L(items), i + 1
        while True:
            v, i = _pv(s, i)
            items.append(v)
            if s[i] == ']':
                return L(items), i + 1
            assert s[i] == ';', s[i:i + 10]
            i += 1
    raise ValueError("bad value text at %d: %r" % (i, s[i:i + 20]))


# ---------------------------------------------------------------- format trees

def parse_fmt(s):
    f, i = _pf(s, 0)
    if i != len(s):
        raise ValueError("trailing text in format")
    return f


def _num(s, i):
    j = i
    while j < len(s) and s[j].isdigit():
        j += 1
    return int(s[i:j]), j


def _brace(s, i):
    assert s[i] == '{', s[i:i + 10]
    f, i = _pf(s, i + 1)
    assert s[i] == '}'
    return f, i + 1


def _pf(s, i):
    c = s[i]
    if c == 'U':
        return ('U',), i + 1
    if c == 'R':
        return ('R',), i + 1
    if c == 'X':
        return ('X',), i + 1
    if c == 'u':
        n, i = _num(s, i + 1)
        return ('u', n), i
    if c == 'y':
        n, i = _num(s, i + 1)
        return ('y', n), i
    if c == '(':
        f, i = _pf(s, i + 1)
        assert s[i] == ','
        g, i = _pf(s, i + 1)
        assert s[i] == ')'
        return ('p', f, g), i + 1
    if c == 'L':
        n, i = _num(s, i + 1)
        f, i = _brace(s, i)
        return ('L', n, f), i
    if c == 'M':
        f, i = _brace(s, i + 1)
        return ('M', f), i
    if c == 'O':
        f, i = _brace(s, i + 1)
        return ('O', f), i
    if c == 'T':
        n, i = _num(s, i + 1)
        f, i = _brace(s, i)
        return ('T', n, f), i
    if c == 'C':
        k, i = _num(s, i + 1)
        f, i = _brace(s, i)
        g, i = _brace(s, i)
        return ('C', k, f, g), i
    raise ValueError("bad format text at %d: %r" % (i, s[i:i + 20]))


def case_keys(f):
    """keys of a caseOf chain and its default branch"""
    keys = []
    while f[0] == 'C':
        keys.append((f[1], f[2]))
        f = f[3]
    return keys, f


def select(f, t):
    """branch of a caseOf chain for tag t"""
    while f[0] == 'C':
        if f[1] == t:
            return f[2]
        f = f[3]
    return f


# ------------------------------------------------- independent Python codec for sizes
# (used only to size generated values; the correspondence compares the real code with Lean)

def enc_len(f, v, t=0):
    k = f[0]
    if k == 'U':
        return 0
    if k in ('u', 'y'):
        return f[1]
    if k == 'R':
        return len(v[1])
    if k == 'p':
        return enc_len(f[1], v[1], t) + enc_len(f[2], v[2], t)
    if k == 'L':
        return f[1] + enc_len(f[2], v, t)
    if k == 'M':
        return sum(enc_len(f[1], x, t) for x in v[1])
    if k == 'O':
        return 0 if v[0] == 'N' else enc_len(f[1], v[1], t)
    if k == 'T':
        return f[1] + enc_len(f[2], v[2], v[1][1])
    if k == 'C':
        return enc_len(select(f, t), v, t)
    raise ValueError(f)


# ---------------------------------------------------------------- generators

class Gen(object):
    """well-typed values for a format tree"""

    def __init__(self, rng):
        self.rng = rng
        self.avoid_tags = set()       # tags not to choose (extension types reported on their own)
        self.no_none_tags = set()     # tags under which an optional body is always present

    def rb(self, n):
        return bytes(self.rng.getrandbits(8) for _ in range(n)) if n < 64 else \
            self.rng.getrandbits(8 * n).to_bytes(n, "big")

    def gen(self, f, mode, t=0, depth=0):
        """mode: 'min' | 'one' | 'max' | 'rand'"""
        k = f[0]
        rng = self.rng
        if k == 'U':
            return U
        if k == 'u':
            top = 256 ** f[1] - 1
            if mode == 'min':
                return N(0)
            if mode == 'max':
                return N(top)
            return N(rng.choice([0, 1, top, rng.randint(0, top), rng.randint(0, min(top, 300))]))
        if k == 'y':
            return B(self.rb(f[1]) if mode != 'min' else bytes(f[1]))
        if k == 'R':
            if mode == 'min':
                return B(b"")
            if mode == 'one':
                return B(self.rb(1))
            return B(self.rb(rng.choice([0, 1, 2, 5, 17, 33])))
        if k == 'p':
            return P(self.gen(f[1], mode, t, depth), self.gen(f[2], mode, t, depth))
        if k == 'L':
            return self.gen(f[2], mode, t, depth)
        if k == 'M':
            if mode == 'min':
                return L([])
            n = 1 if mode == 'one' else rng.choice([0, 1, 2, 3, 5] if depth < 2 else [0, 1, 2])
            items = [self.gen(f[1], mode if mode != 'max' else 'rand', t, depth + 1) for _ in range(n)]
            if f[1][0] == 'T':
                # an extension block never carries the same extension type twice (RFC 8446 4.2):
                # a well-formed value has distinct tags
                seen, uniq = set(), []
                for it in items:
                    if it[1][1] not in seen:
                        seen.add(it[1][1])
                        uniq.append(it)
                items = uniq
            return L(items)
        if k == 'O':
            if (mode == 'min' or (mode == 'rand' and rng.random() < 0.2)) and t not in self.no_none_tags:
                return NONE
            return S(self.gen(f[1], mode, t, depth))
        if k == 'T':
            keys, dflt = case_keys(f[2])
            usable = [kk for kk, ff in keys if ff[0] != 'X' and not _has_fail_only(ff)]
            if depth > 0 or len(keys) > 3:
                usable = [kk for kk in usable if kk not in self.avoid_tags] or usable
            top = 256 ** f[1] - 1
            if not keys:
                tag = rng.randint(0, top) if mode != 'min' else 0
            elif mode == 'min':
                tag = usable[0] if usable else 0
            else:
                r = rng.random()
                if dflt[0] != 'X' and r < 0.15:
                    tag = rng.randint(0, top)
                    while tag in self.avoid_tags:
                        tag = rng.randint(0, top)
                else:
                    tag = rng.choice(usable)
            return P(N(tag), self.gen(f[2], mode, tag, depth))
        if k == 'C':
            return self.gen(select(f, t), mode, t, depth)
        if k == 'X':
            raise ValueError("no value for fail")
        raise ValueError(f)

    def gen_tagged(self, f, tag, mode):
        """value of a `T` node with a chosen tag"""
        assert f[0] == 'T'
        return P(N(tag), self.gen(f[2], mode, tag))


def _has_fail_only(f):
    return f[0] == 'X'


def lenpref_paths(f, t_known=True, path=()):
    """paths (tuples of child indices) to the L nodes reachable without choosing a tag"""
    k = f[0]
    res = []
    if k == 'p':
        res += lenpref_paths(f[1], t_known, path + (1,))
        res += lenpref_paths(f[2], t_known, path + (2,))
    elif k == 'L':
        res.append((path, f[1]))
        res += lenpref_paths(f[2], t_known, path + (2,))
    elif k == 'M':
        res += lenpref_paths(f[1], t_known, path + (1,))
    elif k == 'O':
        res += lenpref_paths(f[1], t_known, path + (1,))
    return res


def fill(gen, f, target, t=0):
    """a value of format f whose encoding is as close as possible to `target` bytes from below
    (exactly `target` when the format allows); None if f cannot grow"""
    k = f[0]
    if k == 'R':
        return B(gen.rb(target))
    if k == 'T':
        # one item with a tag that has no dedicated format (kept as opaque bytes), body sized to fit
        keys, dflt = case_keys(f[2])
        used = set(kk for kk, _ in keys) | set(gen.avoid_tags)
        tag = next(x for x in range(256 ** f[1] - 1, -1, -1) if x not in used)
        body = fill(gen, dflt, target - f[1], tag) if target >= f[1] else None
        return None if body is None else P(N(tag), body)
    if k == 'M' and f[1][0] == 'T':
        # distinct tags required: one big item
        x = fill(gen, f[1], target, t)
        return None if x is None else L([x])
    if k == 'M':
        item_min = gen.gen(f[1], 'min', t)
        sz = enc_len(f[1], item_min, t)
        if sz == 0:
            return None
        n = target // sz
        left = target - n * sz
        items = [item_min] * n
        if left and n:
            big = fill(gen, f[1], sz + left, t)
            if big is not None and enc_len(f[1], big, t) == sz + left:
                items[-1] = big
        return L(items)
    if k == 'L':
        return fill(gen, f[2], target - f[1], t) if target >= f[1] else None
    if k == 'O':
        v = fill(gen, f[1], target, t)
        return None if v is None else S(v)
    if k == 'p':
        a = gen.gen(f[1], 'min', t)
        la = enc_len(f[1], a, t)
        b = fill(gen, f[2], target - la, t) if target >= la else None
        if b is not None:
            return P(a, b)
        b = gen.gen(f[2], 'min', t)
        lb = enc_len(f[2], b, t)
        a = fill(gen, f[1], target - lb, t) if target >= lb else None
        return None if a is None else P(a, b)
    if k == 'C':
        return fill(gen, select(f, t), target, t)
    return None


def with_sized_node(gen, f, path, target, t=0):
    """minimal value of f in which the body of the L node at `path` has an encoding of
    (about) `target` bytes; None when that node cannot be sized"""
    k = f[0]
    if not path:
        assert k == 'L'
        return fill(gen, f[2], target, t)
    step, rest = path[0], path[1:]
    if k == 'p':
        if step == 1:
            a = with_sized_node(gen, f[1], rest, target, t)
            return None if a is None else P(a, gen.gen(f[2], 'min', t))
        b = with_sized_node(gen, f[2], rest, target, t)
        return None if b is None else P(gen.gen(f[1], 'min', t), b)
    if k == 'L':
        return with_sized_node(gen, f[2], rest, target, t)
    if k == 'M':
        x = with_sized_node(gen, f[1], rest, target, t)
        return None if x is None else L([x])
    if k == 'O':
        x = with_sized_node(gen, f[1], rest, target, t)
        return None if x is None else S(x)
    return None


# ---------------------------------------------------------------- mutants of an encoding

def parse_lens(s):
    if s in ("-", "decode_error", "bad-op"):
        return []
    return [tuple(int(x) for x in p.split(":")) for p in s.split(",")]


def mutants(data, lens, rng, small_limit=160, all_bytes=True, max_trunc=None, few=False, inner=True, few_bytes=False):
    """yield (kind, bytes) - truncations, length-field perturbations, junk inside each
    length-delimited region (with the enclosing lengths adjusted), junk after the structure,
    single byte changes"""
    data = bytes(data)
    n = len(data)
    seen = set()

    def out(kind, b):
        b = bytes(b)
        if b != data and (kind, b) not in seen:
            seen.add((kind, b))
            return [(kind, b)]
        return []

    res = []
    # truncations
    if max_trunc is None or n <= max_trunc:
        cuts = range(n)
    else:
        cuts = sorted(set([0, 1, 2, 3, 4, n - 1, n - 2, n // 2] + [rng.randrange(n) for _ in range(max_trunc)]))
    for c in cuts:
        if 0 <= c < n:
            res += out("truncate", data[:c])
    fields = []
    for off, w in lens:
        val = int.from_bytes(data[off:off + w], "big")
        fields.append((off, w, val))
    top = lambda w: 256 ** w - 1
    all_fields = fields
    if few and len(fields) > 6:
        pick = set([0, 1, len(fields) - 1] + [rng.randrange(len(fields)) for _ in range(3)])
        fields = [fields[i] for i in sorted(pick)]
    elif len(fields) > 24:
        pick = set([0, 1, 2, 3, len(fields) - 1, len(fields) - 2] + [rng.randrange(len(fields)) for _ in range(6)])
        fields = [fields[i] for i in sorted(pick)]
    # length-field perturbations
    for off, w, val in fields:
        for nv in ((val + 1, val - 1, 0, top(w)) if few else (val + 1, val - 1, 0, top(w), val + 2, val // 2)):
            if 0 <= nv <= top(w) and nv != val:
                res += out("length", data[:off] + nv.to_bytes(w, "big") + data[off + w:])
    # junk inside a region, enclosing lengths made consistent
    for off, w, val in (fields if inner else []):
        end = off + w + val
        for junk in ((b"\x00",) if few else (b"\x00", b"\xff\x01")):
            b = bytearray(data[:end] + junk + data[end:])
            ok = True
            for o2, w2, v2 in sorted(set(all_fields[:64] + fields)):
                encloses = (o2 == off and w2 == w) or (o2 + w2 <= off and o2 + w2 + v2 >= end)
                if encloses:
                    nv = v2 + len(junk)
                    if nv > top(w2):
                        ok = False
                        break
                    b[o2:o2 + w2] = nv.to_bytes(w2, "big")
            if ok:
                res += out("inner-trailing", b)
    # junk after the whole structure
    res += out("outer-trailing", data + b"\x00")
    res += out("outer-trailing", data + b"\x17\x03")
    # single byte changes
    if all_bytes and n <= small_limit:
        for i in range(n):
            for nv in (((data[i] + 1) & 0xff, 0, 0xff) if few_bytes else ((data[i] + 1) & 0xff, (data[i] - 1) & 0xff, 0, 0xff)):
                if nv != data[i]:
                    res += out("byte", data[:i] + bytes([nv]) + data[i + 1:])
    return res
