"""C03 — both ends of a completed handshake agree on everything, within both policies.

Theorems: lean/Props/C03.lean over the model lean/TlsModel/Negotiate.lean (clientOffer, serverSelect,
clientAccept, serverFinish, negotiate; clientView/serverView).
Tie: generated tables (translate/gen_negotiate.py) + correspondence: seeded pairs of settings from the
lattice of valid restrictions x credentials x flavours run as real handshakes in the lab and compared
with `negotiate` (success/failure, alert and side, every negotiated parameter).
Oracle (independent of the model): when both endpoints complete, their observable views must be equal
field by field and every negotiated parameter must lie inside each side's own validated settings.
"""
import copy

from ..leanclient import hx

TRANSLATORS = ["negotiate"]

MANIFEST = {
    "text": "Proof: Tls.Neg.negotiate (statement-by-statement Lean model of the client offer, the server's version/suite/"
            "certificate/group/signature selection, extension echo rules and both sides' acceptance checks, over suite tables "
            "regenerated from constants.py on every run) — every negotiated parameter (version, suite with its registered "
            "cipher/MAC/key exchange, curve, DH/SRP size, signature schemes, peer keys) is in the client's offer and allowed by "
            "both validated settings (selected_in_offer_and_policy, version_inside_both_ranges, filterSuites_inside_policy, "
            "accepted_chain_inside_policy) and otherwise the outcome is an alert, no exception escapes (otherwise_an_alert), "
            "compatible settings complete (compatible_completes, with counterexample theorems for the excluded regions), both endpoints' "
            "session views are the same function of the transcript for every key schedule (views_agree), negotiate is a "
            "function (negotiate_deterministic), the selected version is the highest common one (version_is_max_common, "
            "no_common_version_fails, client_too_old_protocol_version). Tie: live handshakes between two real TLSConnection objects over seeded pairs of "
            "restricted settings x credential kinds x cert/SRP/anon/PSK x client auth x ALPN x SNI compared with the model; "
            "direct oracle compares lab.observe(client) with lab.observe(server) and checks each parameter against each side's "
            "own settings.",
    "note": "Trusted: Lean kernel, translator gen_negotiate.py, the lab (in-memory socket pair), python-ecdsa/X.509 parsing "
            "(exercised, not modelled). Not modelled in Lean: virtual_hosts, TACK, NPN, resumption (oracle only: session-ID "
            "resumption under changed policies), session tickets / TLS 1.3 PSK resumption (C13), delegated credentials, "
            "certificate compression, heartbeat, ML-KEM/ML-DSA (libraries absent), maxVersion=(3,0) clients, FALLBACK_SCSV.",
    "technique": "Lean 4 proofs over an executable model; differential correspondence model vs live handshakes; independent view/policy oracle",
}

VERS = [(3, 0), (3, 1), (3, 2), (3, 3), (3, 4)]
SERVER_CREDS = ["rsa", "rsapss", "ecdsa", "ecdsa384", "ecdsa521", "brainpool256", "ed25519", "ed448", "dsa"]
CLIENT_CREDS = ["client_rsa", "client_ecdsa", "client_ed25519", "client_dsa"]
ALPNS = [b"h2", b"http/1.1", b"spdy/3", b"x-test"]
SNIS = ["example.com", "a.test", "srv.example.org"]
KEYSIZES = [512, 1023, 1024, 1025, 2047, 2048, 2049, 3072, 4096, 8193, 16384]
RSLS = [None, 64, 65, 100, 512, 1000, 4096, 2 ** 14 - 1, 2 ** 14, 2 ** 14 + 1]
PY_CURVE = {"NIST256p": "secp256r1", "NIST384p": "secp384r1", "NIST521p": "secp521r1",
            "BRAINPOOLP256r1": "brainpoolP256r1", "BRAINPOOLP384r1": "brainpoolP384r1",
            "BRAINPOOLP512r1": "brainpoolP512r1", "SECP256k1": "secp256k1"}
SRP_USER, SRP_PASS = "alice", "correct horse"

# fields of HandshakeSettings that the generator restricts and the replay stores
FIELDS = ["minVersion", "maxVersion", "cipherNames", "macNames", "keyExchangeNames", "eccCurves", "dhGroups",
          "keyShares", "defaultCurve", "rsaSigHashes", "rsaSchemes", "ecdsaSigHashes", "dsaSigHashes",
          "more_sig_schemes", "minKeySize", "maxKeySize", "useEncryptThenMAC", "useExtendedMasterSecret",
          "requireExtendedMasterSecret", "record_size_limit", "dhParams", "pskConfigs", "psk_modes"]

_T = {}


def tables(ctx=None):
    """group ids, scheme ids and name lists of the tree under check (read by the translator's probe)"""
    if "t" not in _T:
        from translate import gen_negotiate
        from ..core import REPO
        d = gen_negotiate.tables(REPO)
        d["gid"] = dict((n, i) for n, i in d["groupIds"])
        d["gname"] = dict((i, n) for n, i in d["groupIds"])
        d["ffbits"] = dict((g, b) for g, b in d["ffBits"])
        d["sem"] = {}
        for k, v in d["ietfNames"]:
            p = gen_negotiate.parse_name(v)
            if p:
                d["sem"][k] = p
        _T["t"] = d
    return _T["t"]


# ---------------------------------------------------------------------------------------------
# settings as field dicts
def default_fields():
    from tlslite.handshakesettings import HandshakeSettings
    s = HandshakeSettings()
    d = {}
    for f in FIELDS:
        v = getattr(s, f)
        d[f] = list(v) if isinstance(v, list) else v
    d["minVersion"] = tuple(d["minVersion"])
    d["maxVersion"] = tuple(d["maxVersion"])
    return d


def mk_settings(d):
    """HandshakeSettings from a field dict (json round-trip safe)"""
    from tlslite.handshakesettings import HandshakeSettings
    s = HandshakeSettings()
    for f, v in d.items():
        if f in ("minVersion", "maxVersion"):
            v = tuple(v)
        elif f == "dhParams" and v is not None:
            v = (int(v[0]), int(v[1]))
        elif f == "ticketKeys":
            v = [bytearray.fromhex(k) for k in v]
        elif f == "pskConfigs":
            v = [tuple([bytearray.fromhex(p[0]), bytearray.fromhex(p[1])] + list(p[2:])) for p in v]
        elif isinstance(v, list):
            v = list(v)
        setattr(s, f, v)
    return s


def dh_params(bits):
    """a custom (g, p) for settings.dhParams: the RFC 5054 group of that size"""
    from tlslite.mathtls import goodGroupParameters
    from tlslite.utils.cryptomath import numBits
    for g, p in goodGroupParameters:
        if numBits(p) == bits:
            return [g, p]
    raise ValueError(bits)


def subset(rng, xs, allow_empty=False, keep=None):
    xs = list(xs)
    k = rng.randint(0 if allow_empty else 1, len(xs)) if keep is None else keep
    out = rng.sample(xs, min(k, len(xs)))
    return out


def gen_settings(rng, base, p=0.22, role="client", thorough=False):
    """a random restriction / reordering of `base` (a field dict)"""
    from tlslite import handshakesettings as hs
    d = copy.deepcopy(base)

    def hit(q=p):
        return rng.random() < q

    if hit(min(0.35, 0.1 + p)):
        lo = rng.choice(VERS)
        # a client capped at SSLv3 sends no extensions at all (not modelled); a server may be
        hi = rng.choice([v for v in VERS if v >= lo and (v >= (3, 1) or role == "server")])
        d["minVersion"], d["maxVersion"] = lo, hi
    if hit():
        pool = hs.ALL_CIPHER_NAMES if hit(0.5) else hs.CIPHER_NAMES
        d["cipherNames"] = subset(rng, pool)
    if hit():
        d["macNames"] = subset(rng, hs.ALL_MAC_NAMES)
    if hit():
        d["keyExchangeNames"] = subset(rng, hs.KEY_EXCHANGE_NAMES)
    if hit():
        pool = [c for c in hs.CURVE_NAMES if "mlkem" not in c]
        d["eccCurves"] = subset(rng, pool)
    if hit():
        pool = hs.ALL_DH_GROUP_NAMES[:3] if not hit(0.1) else hs.ALL_DH_GROUP_NAMES[:4]
        d["dhGroups"] = subset(rng, pool, allow_empty=True)
    else:
        d["dhGroups"] = [g for g in d["dhGroups"] if g in hs.ALL_DH_GROUP_NAMES[:3]] or ["ffdhe2048"]
    # key shares must be enabled groups; brainpool (non tls13) and slow groups are left out
    ok_shares = [g for g in d["eccCurves"] + d["dhGroups"]
                 if g in hs.TLS13_PERMITTED_GROUPS and g not in ("ffdhe4096", "ffdhe6144", "ffdhe8192")]
    if hit(0.3):
        d["keyShares"] = subset(rng, ok_shares, allow_empty=True, keep=rng.randint(0, min(2, len(ok_shares))))
    else:
        d["keyShares"] = [g for g in d["keyShares"] if g in ok_shares]
    if hit(0.1):
        d["defaultCurve"] = rng.choice(["secp256r1", "secp384r1", "x25519"])
    if hit():
        d["rsaSigHashes"] = subset(rng, hs.ALL_RSA_SIGNATURE_HASHES, allow_empty=True)
    if hit(0.15):
        d["rsaSchemes"] = subset(rng, hs.RSA_SCHEMES)
    if hit():
        d["ecdsaSigHashes"] = subset(rng, hs.ECDSA_SIGNATURE_HASHES, allow_empty=True)
    if hit():
        d["dsaSigHashes"] = subset(rng, hs.DSA_SIGNATURE_HASHES, allow_empty=True)
    if hit():
        d["more_sig_schemes"] = subset(rng, hs.SIGNATURE_SCHEMES, allow_empty=True)
    if hit():
        lo = rng.choice(KEYSIZES)
        hi = rng.choice([k for k in KEYSIZES if k >= lo])
        d["minKeySize"], d["maxKeySize"] = lo, hi
    if hit(0.2):
        d["useEncryptThenMAC"] = False
    if hit(0.2):
        d["useExtendedMasterSecret"] = False
    elif hit(0.2):
        d["requireExtendedMasterSecret"] = True
    if hit(0.3):
        d["record_size_limit"] = rng.choice(RSLS)
    if role == "server" and hit(0.15):
        d["dhParams"] = dh_params(rng.choice([1024, 1536, 3072] if not thorough else [1024, 1536, 2048, 3072, 4096]))
    return d


def validated(d):
    """(validated HandshakeSettings, None) or (None, reason)"""
    try:
        return mk_settings(d).validate(), None
    except ValueError as e:
        return None, str(e)


# ---------------------------------------------------------------------------------------------
# encoding for the Lean driver
def _l(xs):
    xs = list(xs)
    return ",".join(str(x) for x in xs) if xs else "-"


def enc_settings(s):
    """validated HandshakeSettings -> driver field string"""
    from tlslite.utils.cryptomath import numBits
    psk = []
    for p in s.pskConfigs:
        psk.append("%s:%s" % (bytes(p[0]).hex() or "-", p[2] if len(p) > 2 else "-"))
    f = [s.minVersion[1], s.maxVersion[1], _l(v[1] for v in s.versions), _l(s.cipherNames), _l(s.macNames),
         _l(s.keyExchangeNames), _l(s.eccCurves), _l(s.dhGroups), _l(s.keyShares), s.defaultCurve,
         _l(s.rsaSigHashes), _l(s.rsaSchemes), _l(s.ecdsaSigHashes), _l(s.dsaSigHashes), _l(s.more_sig_schemes),
         s.minKeySize, s.maxKeySize, int(bool(s.useEncryptThenMAC)), int(bool(s.useExtendedMasterSecret)),
         int(bool(s.requireExtendedMasterSecret)), s.record_size_limit or 0,
         numBits(s.dhParams[1]) if s.dhParams else 0, _l(psk), _l(s.psk_modes)]
    return ";".join(str(x) for x in f)


def cred_desc(kind):
    """(certAlg, bits, curve) of a lab credential"""
    from .. import lab
    chain, _ = lab.creds(kind)
    return chain_desc(chain)


def chain_desc(chain):
    x = chain.x509List[0]
    pk = x.publicKey
    curve = ""
    if x.certAlg == "ecdsa":
        curve = PY_CURVE.get(pk.curve_name, "?" + str(pk.curve_name))
    return (x.certAlg, len(pk), curve)


def enc_cred(desc):
    if desc is None:
        return "-"
    return "%s:%d:%s" % (desc[0], desc[1], desc[2] or "-")


def enc_case(case, cs, ss, op="neg"):
    """driver line for a case (cs/ss are the validated settings)"""
    t = tables()
    cc = ";".join([case["cflavour"], enc_cred(cred_desc(case["ccred"]) if case["ccred"] else None),
                   _l(bytes(a).hex() for a in (case["calpn"] or [])), case["sni"] or "-"])
    srp_bits = 0
    if case["sflavour"] in ("srp", "srpcert"):
        srp_bits = case["srp_bits"] if case.get("srp_user_known", True) else 0
    sc = ";".join([str(int(case["sflavour"] in ("srp", "srpcert"))), str(srp_bits),
                   enc_cred(cred_desc(case["scred"]) if case["scred"] else None),
                   str(int(case["sflavour"] == "anon")), str(int(bool(case["reqCert"]))),
                   _l(bytes(a).hex() for a in (case["salpn"] or [])), case["ssni"] or "-"])
    del t
    return "%s %s %s %s %s" % (op, enc_settings(cs), enc_settings(ss), cc, sc)


def impl_views(L):
    """the two endpoints' stored views in the vocabulary of the driver's `views` op"""
    from .. import lab
    out = []
    for n, e in (("c", L.client), ("s", L.server)):
        o = lab.observe(e.conn)
        out.append("%s.v=%d %s.suite=%d %s.etm=%d %s.ems=%d %s.alpn=%s %s.sni=%s %s.send=%d %s.recv=%d %s.schain=%d %s.cchain=%d"
                   % (n, o["version"][1], n, o["cipherSuite"], n, int(bool(o["etm"])), n, int(bool(o["ems"])),
                      n, o["appProto"].hex() if o["appProto"] else "-", n, o["serverName"] or "-",
                      n, o["send_limit"], n, o["recv_limit"], n, int(bool(o["serverCertChain"])),
                      n, int(bool(o["clientCertChain"]))))
    return " ".join(out)


# ---------------------------------------------------------------------------------------------
# running one case on the real implementation
class Capture(object):
    """message objects each side sends (the wire, seen from inside the sender)"""
    def __init__(self):
        self.msgs = {"client": [], "server": []}

    def install(self, L):
        from .. import lab
        for who in ("client", "server"):
            def fn(kind, msg, who=who):
                self.msgs[who].append((kind, msg))
                return [msg]
            lab.hook_messages(L.end(who).conn, fn)

    def of(self, who, cls_name):
        return [m for k, m in self.msgs[who] if type(m).__name__ == cls_name]


# ---------------------------------------------------------------------------------------------
# a cooperating but faulty server: ignores what the client offered (the client's acceptance checks are
# the only thing between such a peer and a parameter outside the client's offer / policy)
FAULTY_KEYS = ("c03:alpn-not-offered", "c03:server-sig-not-offered", "c03:server-sig-outside-client-policy",
               "c03:tls13-suite-below-tls13", "c03:unknown-suite")
FAULTS = ["server-ignores-offered-suites", "server-ignores-offered-sigalgs", "server-alpn-outside-offer"]
EVIL_ALPN = b"evil/1"


class _HelloProxy(object):
    """a ClientHello whose signature_algorithms extension lists whatever the server likes"""
    def __init__(self, ch, sigalgs):
        self.__dict__["_ch"] = ch
        self.__dict__["_sigalgs"] = sigalgs

    def __getattr__(self, n):
        return getattr(self._ch, n)

    def getExtension(self, t):
        from tlslite.constants import ExtensionType
        from tlslite.extensions import SignatureAlgorithmsExtension
        if t == ExtensionType.signature_algorithms and self._ch.getExtension(t) is not None:
            return SignatureAlgorithmsExtension().create(list(self._sigalgs))
        if t == ExtensionType.signature_algorithms_cert:
            return None
        return self._ch.getExtension(t)


def install_fault(L, fault):
    import copy as _copy
    from tlslite.tlsconnection import TLSConnection
    from .. import lab
    conn = L.server.conn
    if fault == "server-ignores-offered-suites":
        orig = conn._server_select_certificate

        def sel(settings, client_hello, cipher_suites, cert_chain, private_key, version):
            ch = _copy.copy(client_hello)
            ch.cipher_suites = list(client_hello.cipher_suites) + \
                [x for x in cipher_suites if x not in client_hello.cipher_suites]
            return orig(settings, ch, cipher_suites, cert_chain, private_key, version)
        conn._server_select_certificate = sel
    elif fault == "server-ignores-offered-sigalgs":
        orig = TLSConnection._pickServerKeyExchangeSig

        def pick(settings, clientHello, certList=None, private_key=None, version=(3, 3), check_alt=True):
            mine = TLSConnection._sigHashesToList(settings, certList=certList, version=version)
            return orig(settings, _HelloProxy(clientHello, mine), certList, private_key, version, check_alt)
        conn._pickServerKeyExchangeSig = pick
    elif fault == "server-alpn-outside-offer":
        from tlslite.constants import ExtensionType
        from tlslite.extensions import ALPNExtension

        def fn(kind, msg):
            name = type(msg).__name__
            if name in ("ServerHello", "EncryptedExtensions") and getattr(msg, "extensions", None) is not None:
                is13 = any(e.extType == ExtensionType.supported_versions for e in msg.extensions)
                if name == "EncryptedExtensions" or not is13:
                    msg.extensions[:] = [e for e in msg.extensions if e.extType != ExtensionType.alpn]
                    msg.extensions.append(ALPNExtension().create([bytearray(EVIL_ALPN)]))
            return [msg]
        lab.hook_messages(conn, fn)
    else:
        raise ValueError(fault)


_VDB = {}


def verifier_db(bits):
    if bits not in _VDB:
        from tlslite.verifierdb import VerifierDB
        db = VerifierDB()
        db.create()
        db[SRP_USER.encode()] = VerifierDB.makeVerifier(SRP_USER, SRP_PASS, bits)
        _VDB[bits] = db
    return _VDB[bits]


def run_case(case):
    """run the handshake; returns (lab, capture)"""
    from .. import lab
    cs = mk_settings(case["cs"])
    ss = mk_settings(case["ss"])
    L = lab.Lab()
    cap = Capture()
    if case.get("fault"):
        install_fault(L, case["fault"])
    cap.install(L)
    alpn_c = [bytearray(a) for a in case["calpn"]] if case["calpn"] else None
    alpn_s = [bytearray(a) for a in case["salpn"]] if case["salpn"] else None
    sni = case["sni"]
    fl = case["cflavour"]
    if fl == "cert":
        kw = {}
        if case["ccred"]:
            chain, key = lab.creds(case["ccred"])
            kw.update(certChain=chain, privateKey=key)
        L.start_client(lambda c: c.handshakeClientCert(settings=cs, serverName=sni, alpn=alpn_c, async_=True, **kw))
    elif fl == "srp":
        user = SRP_USER if case.get("srp_user_known", True) else "mallory"
        L.start_client(lambda c: c.handshakeClientSRP(user, SRP_PASS, settings=cs, serverName=sni, async_=True))
    elif fl == "anon":
        L.start_client(lambda c: c.handshakeClientAnonymous(settings=cs, serverName=sni, async_=True))
    else:
        raise ValueError(fl)
    skw = {"settings": ss, "alpn": alpn_s, "sni": case["ssni"]}
    sfl = case["sflavour"]
    if case["scred"]:
        chain, key = lab.creds(case["scred"])
        skw.update(certChain=chain, privateKey=key)
    if sfl in ("srp", "srpcert"):
        skw["verifierDB"] = verifier_db(case["srp_bits"])
    if sfl == "anon":
        skw["anon"] = True
    if case["reqCert"]:
        skw["reqCert"] = True
    L.start_server(lambda c: c.handshakeServerAsync(**skw))
    L.run()
    return L, cap


TICKET_KEY = "5a" * 32


def run_resume(case):
    """Two connections: a full handshake under (cs, ss), then a second one offering the session of the first
    under (cs2, ss2).  mode 'id': TLS <= 1.2 session-ID resumption from the server's SessionCache;
    'ticket12': TLS <= 1.2 session ticket (server ticketKeys, no cache); 'tls13': TLS 1.3 ticket / PSK.
    Returns (L1, L2, cap2); L2 is None when the first handshake did not complete."""
    from tlslite.sessioncache import SessionCache
    from .. import lab
    mode = case["resume"].get("mode", "id")
    cache = SessionCache() if mode == "id" else None
    chain, key = lab.creds(case["scred"])
    sni = case["sni"]
    ckw = {}
    if case.get("ccred"):
        cchain, ckey = lab.creds(case["ccred"])
        ckw = {"certChain": cchain, "privateKey": ckey}

    def one(csd, ssd, session, calpn, salpn):
        L = lab.Lab()
        cap = Capture()
        cap.install(L)
        if mode != "id":
            ssd = dict(ssd, ticketKeys=[TICKET_KEY])
        cs, ss = mk_settings(csd), mk_settings(ssd)
        a_c = [bytearray(a) for a in calpn] if calpn else None
        a_s = [bytearray(a) for a in salpn] if salpn else None
        L.start_client(lambda c: c.handshakeClientCert(settings=cs, session=session, serverName=sni, alpn=a_c,
                                                       async_=True, **ckw))
        L.start_server(lambda c: c.handshakeServerAsync(certChain=chain, privateKey=key, settings=ss,
                                                         sessionCache=cache, alpn=a_s,
                                                         reqCert=bool(case.get("reqCert"))))
        L.run()
        return L, cap

    L1, _ = one(case["cs"], case["ss"], None, case["calpn"], case["salpn"])
    if not (L1.client.state == "done" and L1.server.state == "done"):
        return L1, None, None
    if mode == "tls13":
        # NewSessionTicket messages follow the handshake: let the client read them
        L1.write("server", b"ping")
        L1.read("client", max=4)
    r = case["resume"]
    L2, cap2 = one(r["cs2"], r["ss2"], L1.client.conn.session, r.get("calpn2", case["calpn"]), r.get("salpn2", case["salpn"]))
    return L1, L2, cap2


def advertised_limit(st, peer, v):
    """largest plaintext the endpoint with settings `st` announced it accepts (RFC 8449): the extension is in
    effect only when both ends set record_size_limit; TLS 1.3 counts the content type octet"""
    if not (st.record_size_limit and peer.record_size_limit):
        return 2 ** 14
    return min(2 ** 14, st.record_size_limit - 1 if tuple(v) >= (3, 4) else st.record_size_limit)


def limit_findings(cs, ss, oc, os_, v, prefix):
    """both endpoints' effective receive limit against what each advertised, and against the peer's send limit"""
    bad = []
    for who, st, o, pst, po in (("client", cs, oc, ss, os_), ("server", ss, os_, cs, oc)):
        adv = advertised_limit(st, pst, v)
        if o["recv_limit"] != adv:
            bad.append((prefix + "%s-recv-limit-not-advertised" % who,
                        "%s accepts records up to %d but advertised %d" % (who, o["recv_limit"], adv)))
        if o["send_limit"] > advertised_limit(pst, st, v):
            bad.append((prefix + "record-limit", "%s sends up to %d, the peer advertised %d"
                        % (who, o["send_limit"], advertised_limit(pst, st, v))))
        if o["send_limit"] > po["recv_limit"]:
            bad.append((prefix + "record-limit", "%s sends up to %d, the peer accepts %d" % (who, o["send_limit"], po["recv_limit"])))
    return bad


def probe_limit(L, receiver, limit, prefix):
    """behavioural: a record of exactly `limit` plaintext bytes from the keyed peer is delivered, one of limit+1
    bytes is refused with record_overflow.  Uses up the connection."""
    from tlslite import errors
    from tlslite.messages import ApplicationData
    from .. import lab
    if limit >= 2 ** 14:
        return []
    sender = "server" if receiver == "client" else "client"
    sconn = L.end(sender).conn
    saved = sconn._send_record_limit
    sconn._send_record_limit = 2 ** 14          # a peer that ignores what we advertised
    bad = []
    try:
        for n, expect_ok in ((limit, True), (limit + 1, False)):
            # one record, not the 1/n-1 split writeAsync applies to CBC suites below TLS 1.1
            msg = ApplicationData().create(bytearray((i * 7 + 1) & 0xff for i in range(n)))
            w = L.op(sender, sconn._sendMsg(msg, randomizeFirstBlock=False), pump_other=False)
            if w[0] != "ok":
                return bad
            r = L.read(receiver, max=n, min=n)
            if expect_ok:
                if not (r[0] == "ok" and r[1] is not None and len(r[1]) == n):
                    bad.append((prefix + "%s-refuses-record-of-advertised-size" % receiver,
                                "%s advertised %d but a record of %d bytes gave %s" % (receiver, limit, n,
                                 r[0] if r[0] != "error" else lab.exc_class(r[1]))))
                    return bad
            else:
                over = r[0] == "error" and isinstance(r[1], errors.TLSLocalAlert) and \
                    alert_name(r[1].description) == "record_overflow"
                if not over:
                    bad.append((prefix + "%s-accepts-record-above-advertised-limit" % receiver,
                                "%s advertised %d but a record of %d plaintext bytes from the keyed peer was %s"
                                % (receiver, limit, n, "delivered" if r[0] == "ok" else
                                   (r[0] if r[0] != "error" else lab.exc_class(r[1])))))
    finally:
        sconn._send_record_limit = saved
    return bad


def oracle_resumed(ctx, case, L, cap):
    """after the second handshake completed on both ends: equal views, parameters inside the CURRENT settings"""
    from .. import lab
    t = tables()
    r = case["resume"]
    cs, _ = validated(r["cs2"])
    ss, _ = validated(r["ss2"])
    oc, os_ = lab.observe(L.client.conn), lab.observe(L.server.conn)
    bad = []
    mode = r.get("mode", "id")
    for f in VIEW_FIELDS + ["resumed"]:
        a, b = oc.get(f), os_.get(f)
        if f == "serverName":
            a, b = a or None, b or None          # '' and None both say "no name"
        if f == "serverCertChain" and mode == "ticket12" and b is None and oc.get("resumed"):
            # a stateless TLS <= 1.2 ticket carries the client's chain but, by design (RFC 5077 section 4), not
            # the server's own: the rebuilt server session has none.  Not recorded is not a conflicting value.
            ctx.count("note:ticket-resumed server session has no serverCertChain")
            continue
        if a != b:
            bad.append(("c03:resumption:view-differs:" + f, "client holds %r, server holds %r for %s after the second handshake"
                        % (short(oc.get(f)), short(os_.get(f)), f)))
    if oc["version"] >= (3, 1):
        for label, n in EXPORT_PROBES[:2]:
            try:
                ea = bytes(L.client.conn.keyingMaterialExporter(bytearray(label), n))
                eb = bytes(L.server.conn.keyingMaterialExporter(bytearray(label), n))
            except Exception as e:
                ea, eb = "exception", type(e).__name__
            if ea != eb:
                bad.append(("c03:resumption:exporter-differs", "keyingMaterialExporter differs after resumption"))
    v, suite = oc["version"], oc["cipherSuite"]
    bad.extend(limit_findings(cs, ss, oc, os_, v, "c03:resumption:"))
    # the flags of a connection and of its own session object must tell the same story
    for who, o in (("client", oc), ("server", os_)):
        if tuple(v) < (3, 4) and bool(o["etm"]) != bool(o["session_etm"]):
            bad.append(("c03:resumption:%s-etm-flag-differs-from-session" % who,
                        "%s connection runs encrypt-then-MAC=%s, its session says %s" % (who, o["etm"], o["session_etm"])))
        if tuple(v) < (3, 4) and bool(o["ems"]) != bool(o["session_ems"]):
            bad.append(("c03:resumption:%s-ems-flag-differs-from-session" % who,
                        "%s connection extended master secret=%s, its session says %s" % (who, o["ems"], o["session_ems"])))
    # the suite must be one the negotiated version defines
    sem0 = t["sem"].get(suite)
    if sem0 is not None:
        is13 = sem0[2] == "tls13"
        if is13 != (tuple(v) >= (3, 4)) or (sem0[1] in ("aead", "sha256", "sha384") and tuple(v) < (3, 3)):
            bad.append(("c03:resumption:suite-not-defined-for-version",
                        "suite 0x%04x (%s/%s) in use at version %s" % (suite, sem0[0], sem0[1], v)))
    for who, st in (("client", cs), ("server", ss)):
        if not (tuple(st.minVersion) <= tuple(v) <= tuple(st.maxVersion)):
            bad.append(("c03:resumption:%s-version-outside-policy" % who, "version %s, %s now allows %s..%s" % (v, who, st.minVersion, st.maxVersion)))
        sem = t["sem"].get(suite)
        if sem is None:
            bad.append(("c03:resumption:unknown-suite", "suite %r" % suite))
            continue
        ciph, mac, kex = sem
        if ciph not in st.cipherNames:
            bad.append(("c03:resumption:%s-cipher-outside-policy" % who, "suite 0x%04x uses %s, %s now allows %s" % (suite, ciph, who, st.cipherNames)))
        if mac not in st.macNames:
            bad.append(("c03:resumption:%s-mac-outside-policy" % who, "suite 0x%04x uses MAC %s, %s now allows %s" % (suite, mac, who, st.macNames)))
        if kex != "tls13" and kex not in st.keyExchangeNames:
            bad.append(("c03:resumption:%s-kex-outside-policy" % who, "suite 0x%04x uses %s, %s now allows %s" % (suite, kex, who, st.keyExchangeNames)))
    return bad


def evaluate_resume(ctx, case, pending=None):
    vs = [validated(case["cs"])[0], validated(case["ss"])[0], validated(case["resume"]["cs2"])[0],
          validated(case["resume"]["ss2"])[0]]
    if any(v is None for v in vs):
        ctx.count("skipped:invalid-settings")
        return
    from .. import lab
    mode = case["resume"].get("mode", "id")
    try:
        L1, L2, cap2 = run_resume(case)
    except ValueError as e:
        ctx.count("skipped:ValueError " + str(e)[:40])
        return
    if L2 is None:
        ctx.count("resumption[%s]:first handshake failed" % mode)
        return
    c, s = L2.client, L2.server
    c_exc, s_exc, c_state = c.exc, s.exc, c.state        # (the limit probe below uses the connection up)
    key = ("resume", mode, enc_settings(vs[0]), enc_settings(vs[1]), enc_settings(vs[2]), enc_settings(vs[3]),
           case["scred"], case.get("ccred"), case.get("reqCert"))
    ctx.case(key=key, nontrivial=True, sample=None)
    completed = c.state == "done" and s.state == "done"
    if completed:
        ctx.count("resumption[%s]:second handshake %s" % (mode, "resumed" if L2.client.conn.resumed else "full"))
        found = oracle_resumed(ctx, case, L2, cap2)
        rcv = case.get("probe") or ("client", "server")[ctx.evaluations % 2]
        st_r, st_p = (vs[2], vs[3]) if rcv == "client" else (vs[3], vs[2])
        found += probe_limit(L2, rcv, advertised_limit(st_r, st_p, L2.client.conn.version), "c03:resumption:")
        for k, what in found:
            ctx.violation(k, what + "  [%s resumption]" % mode, dict(jsonable_case(case), stage="resumption", key=k, probe=rcv))
    else:
        ctx.count("resumption[%s]:second handshake failed (%s / %s)" % (mode, lab.exc_class(c_exc), lab.exc_class(s_exc)))
    # a declined or unusable session must fall back to a full handshake: whenever the two CURRENT policies
    # negotiate (model), the second connection completes.  Not judged: the client's own argument check
    # (ValueError: its new settings no longer offer the session's suite).
    client_arg_error = c_state == "error" and isinstance(c_exc, ValueError)
    # repaired by /repo f043dd9: a TLS <= 1.2 server with ticketKeys sends the NewSessionTicket in one unprotected
    # record before its ChangeCipherSpec; a client that already enforced its own record_size_limit on it ended in
    # record_overflow whenever the limit was below the ticket size although the two policies are compatible
    rsl2 = case["resume"]["cs2"].get("record_size_limit")
    if mode != "id" and rsl2 and rsl2 < 1024 and lab.exc_class(c_exc) == "local_alert:22":
        k = "c03:tls12-ticket-vs-record-size-limit"
        ctx.violation(k, "client record_overflow on the unprotected NewSessionTicket of a TLS<=1.2 server with "
                         "ticketKeys (client record_size_limit %d) although the policies negotiate  [%s resumption]"
                      % (rsl2, mode), dict(jsonable_case(case), stage="resumption", key=k))
    if pending is not None and not client_arg_error:
        c2 = dict(case, cs=case["resume"]["cs2"], ss=case["resume"]["ss2"],
                      calpn=case["resume"].get("calpn2", case["calpn"]), salpn=case["resume"].get("salpn2", case["salpn"]))
        pending.append(("resumption-fallback", case, completed, enc_case(c2, vs[2], vs[3])))


def gen_resume_case(ctx, idx):
    """policy A for the first handshake, policy B (a change of the cipher/MAC/key-exchange names, versions or
    record size limit, mostly on the server) for the second; session-ID, TLS <= 1.2 ticket or TLS 1.3 ticket"""
    from tlslite import handshakesettings as hs
    rng = ctx.rng
    mode = rng.choice(["id", "ticket12", "ticket12", "tls13", "tls13"])
    base = default_fields()
    if mode != "tls13":
        base["maxVersion"] = (3, 3)
    for _ in range(30):
        cs = gen_settings(rng, base, rng.choice([0.0, 0.05, 0.1]), "client")
        ss = gen_settings(rng, base, rng.choice([0.0, 0.05, 0.1]), "server")
        for d in (cs, ss):
            if mode != "tls13" and tuple(d["maxVersion"]) > (3, 3):
                d["maxVersion"] = (3, 3)
            if mode == "tls13":
                d["maxVersion"] = (3, 4)
            if tuple(d["minVersion"]) > tuple(d["maxVersion"]):
                d["minVersion"] = d["maxVersion"]
            # the flags a resumed session carries must not change on the side that offers them
            d["requireExtendedMasterSecret"] = False
        if mode != "tls13" and rng.random() < 0.5:
            # CBC suites: encrypt-then-MAC is in play
            cs["cipherNames"] = subset(rng, ["aes128", "aes256", "3des"])
            if rng.random() < 0.3:
                rng.choice([cs, ss])["useEncryptThenMAC"] = False
        if rng.random() < 0.2:
            rng.choice([cs, ss])["useExtendedMasterSecret"] = False
        cs2, ss2 = copy.deepcopy(cs), copy.deepcopy(ss)
        for d, w in ((ss2, 0.7), (cs2, 0.15)):
            if rng.random() > w:
                continue
            # (the client keeps offering the session's suite: a ticket for a suite it no longer offers is
            # answered with illegal_parameter, a legitimate alert)
            q = rng.random() if d is ss2 else 0.55 + 0.45 * rng.random()
            if q < 0.3:
                d["cipherNames"] = subset(rng, hs.CIPHER_NAMES, keep=rng.randint(1, 3))
            elif q < 0.45:
                d["macNames"] = subset(rng, hs.MAC_NAMES, keep=rng.randint(1, 3))
            elif q < 0.55:
                d["keyExchangeNames"] = subset(rng, ["rsa", "dhe_rsa", "ecdhe_rsa", "ecdhe_ecdsa"], keep=rng.randint(1, 3))
            elif q < 0.75:
                v = rng.choice([(3, 1), (3, 2), (3, 3)] + ([(3, 4)] if mode == "tls13" else []))
                if d is ss2 and rng.random() < 0.5:
                    d["maxVersion"] = v
                    if tuple(d["minVersion"]) > v:
                        d["minVersion"] = v
                else:
                    d["minVersion"] = d["maxVersion"] = v
            elif q < 0.9:
                d["record_size_limit"] = rng.choice(RSLS)
        if all(validated(d)[0] is not None for d in (cs, ss, cs2, ss2)):
            break
    req = rng.random() < 0.25
    res = {"mode": mode, "cs2": cs2, "ss2": ss2}
    calpn = salpn = None
    if rng.random() < 0.4:
        protos = [b"h2", b"http/1.1", b"spdy/3"]
        salpn = subset(rng, protos, keep=rng.randint(1, 3))
        calpn = rng.choice([None, [b"h2"], [b"http/1.1", b"h2"], [b"spdy/3", b"http/1.1"]])
        q = rng.random()
        if q < 0.3:
            res["calpn2"] = None
        elif q < 0.7:
            res["calpn2"] = rng.choice([[b"h2"], [b"http/1.1"], [b"spdy/3", b"h2"]])
        if rng.random() < 0.2:
            res["salpn2"] = rng.choice([None, [b"http/1.1"]])
    return {"fault": None, "cs": cs, "ss": ss, "cflavour": "cert", "sflavour": "cert",
            "scred": rng.choice(["rsa", "rsa", "ecdsa", "dsa"] if mode != "tls13" else ["rsa", "ecdsa", "ed25519"]),
            "ccred": rng.choice(["client_rsa", "client_ecdsa"]) if req else None, "reqCert": req,
            "calpn": calpn, "salpn": salpn, "sni": rng.choice([None, "example.com"]), "ssni": None,
            "srp_bits": 0, "srp_user_known": True, "seed": ctx.seed, "index": idx,
            "resume": res}


def directed_resume_cases(ctx):
    out = []

    def mk(mode, cs=None, ss=None, cs2=None, ss2=None, scred="rsa", ccred=None, sni=None):
        base = default_fields()
        if mode != "tls13":
            base["maxVersion"] = (3, 3)
        a = dict(copy.deepcopy(base), **(cs or {}))
        b = dict(copy.deepcopy(base), **(ss or {}))
        return {"fault": None, "cs": a, "ss": b, "cflavour": "cert", "sflavour": "cert", "scred": scred, "ccred": ccred,
                "reqCert": bool(ccred), "calpn": None, "salpn": None, "sni": sni, "ssni": None, "srp_bits": 0,
                "srp_user_known": True, "seed": ctx.seed, "index": -1,
                "resume": {"mode": mode, "cs2": dict(copy.deepcopy(a), **(cs2 or {})), "ss2": dict(copy.deepcopy(b), **(ss2 or {}))}}
    for mode in ("id", "ticket12", "tls13"):
        # unchanged policies: plain resumption (with and without SNI / client certificate)
        out.append(mk(mode))
        out.append(mk(mode, sni="example.com", ccred="client_rsa"))
        # the server's policy is tightened while its cache / ticket key is kept
        out.append(mk(mode, cs={"cipherNames": ["aes128gcm", "aes256gcm"]}, ss2={"cipherNames": ["aes256gcm"]}))
        out.append(mk(mode, ss2={"macNames": ["sha", "aead"], "cipherNames": ["aes128gcm", "aes128"]}))
        # record size limits on the abbreviated handshake
        for a, b in ((None, None), (1000, 2000), (2 ** 14, 512), (512, 2 ** 14), (64, 64)):
            for side in ("client", "server"):
                c_ = mk(mode, cs={"record_size_limit": 4096}, ss={"record_size_limit": 8192},
                        cs2={"record_size_limit": a} if a else {}, ss2={"record_size_limit": b} if b else {})
                c_["probe"] = side
                out.append(c_)
        out.append(mk(mode, ss={"record_size_limit": 700}))
        # ALPN on the second connection: offered again, not offered any more, changed, newly offered
        for a1, a2 in (([b"h2"], [b"h2"]), ([b"h2"], None), ([b"h2", b"http/1.1"], [b"http/1.1"]), (None, [b"h2"])):
            c_ = mk(mode)
            c_["calpn"] = a1
            c_["salpn"] = [b"h2", b"http/1.1"]
            c_["resume"]["calpn2"] = a2
            out.append(c_)
        c_ = mk(mode)
        c_["calpn"], c_["salpn"] = [b"h2"], [b"h2"]
        c_["resume"]["calpn2"], c_["resume"]["salpn2"] = [b"h2"], None
        out.append(c_)
        # the version the session was made for is no longer the one negotiated
        out.append(mk(mode, ss2={"maxVersion": (3, 2)}))
        out.append(mk(mode, ss2={"maxVersion": (3, 3), "minVersion": (3, 3)}))
        out.append(mk(mode, cs={"cipherNames": ["aes128gcm", "aes128"]}, ss2={"maxVersion": (3, 1)}))
    for mode in ("id", "ticket12"):
        # CBC suites: encrypt-then-MAC and extended master secret on / off
        for etm in (True, False):
            for ems in (True, False):
                out.append(mk(mode, cs={"cipherNames": ["aes128"], "useEncryptThenMAC": etm, "useExtendedMasterSecret": ems}))
                out.append(mk(mode, cs={"cipherNames": ["aes256", "3des"]},
                              ss={"useEncryptThenMAC": etm, "useExtendedMasterSecret": ems}, scred="ecdsa"))
        out.append(mk(mode, cs={"cipherNames": ["aes128", "aes256"]}, ss2={"cipherNames": ["aes256"]}))
        out.append(mk(mode, ss2={"keyExchangeNames": ["rsa"]}))
        out.append(mk(mode, ss2={"minVersion": (3, 2), "maxVersion": (3, 2)}))
        out.append(mk(mode, cs={"maxVersion": (3, 2)}, ss2={"minVersion": (3, 3)}))
    return out


def alert_name(desc):
    from tlslite.constants import AlertDescription
    return AlertDescription.toRepr(desc) or str(desc)


def impl_outcome(L, cap, case):
    """canonical outcome of the real run, same vocabulary as the driver"""
    from tlslite import errors
    from .. import lab
    c, s = L.client, L.server
    if c.state == "done" and s.state == "done":
        return ("ok", impl_params(L, cap))
    # the warning-level unrecognized_name alert: the client treats it as fatal, what the server does next races
    if c.state == "error" and isinstance(c.exc, errors.TLSRemoteAlert) and alert_name(c.exc.description) == "unrecognized_name":
        return ("alert", "server", "unrecognized_name")
    for who, e in (("client", c), ("server", s)):
        if e.state == "error" and isinstance(e.exc, errors.TLSLocalAlert):
            return ("alert", who, alert_name(e.exc.description))
    for who, e in (("server", s), ("client", c)):
        if e.state == "error" and not isinstance(e.exc, (errors.TLSRemoteAlert, errors.TLSAbruptCloseError,
                                                         errors.TLSClosedConnectionError)):
            return ("abort", who, type(e.exc).__name__)
    # an alert one side sent without raising (warning-level unrecognized_name): the reader treats it as fatal
    for who, e, other in (("server", c, s), ("client", s, c)):
        if e.state == "error" and isinstance(e.exc, errors.TLSRemoteAlert):
            return ("alert", who, alert_name(e.exc.description))
    return ("other", c.state + ":" + lab.exc_class(c.exc), s.state + ":" + lab.exc_class(s.exc))


def wire_facts(cap):
    """negotiated parameters as they went over the wire (captured message objects of the sender)"""
    from tlslite.constants import ExtensionType
    from tlslite.utils.cryptomath import numBits
    w = {"group": 0, "dh": 0, "sig": 0, "csig": 0, "psk": None, "hrr": False, "creq": None}
    from tlslite.constants import TLS_1_3_HRR
    shs = cap.of("server", "ServerHello")
    for sh in shs:
        if bytes(sh.random) == bytes(TLS_1_3_HRR):
            w["hrr"] = True
            continue
        ks = sh.getExtension(ExtensionType.key_share)
        if ks is not None:
            w["group"] = ks.server_share.group
        pk = sh.getExtension(ExtensionType.pre_shared_key)
        if pk is not None:
            w["psk"] = pk.selected
    for ske in cap.of("server", "ServerKeyExchange"):
        if getattr(ske, "named_curve", None):
            w["group"] = ske.named_curve
        if getattr(ske, "dh_p", None):
            w["dh"] = numBits(ske.dh_p)
        if getattr(ske, "srp_N", None):
            w["dh"] = numBits(ske.srp_N)
        if ske.version >= (3, 3) and getattr(ske, "signAlg", None) is not None and ske.signature:
            w["sig"] = ske.hashAlg * 256 + ske.signAlg
    for cv in cap.of("server", "CertificateVerify"):
        if cv.signatureAlgorithm:
            w["sig"] = cv.signatureAlgorithm[0] * 256 + cv.signatureAlgorithm[1]
    for cv in cap.of("client", "CertificateVerify"):
        if cv.signatureAlgorithm and cv.version >= (3, 3):
            w["csig"] = cv.signatureAlgorithm[0] * 256 + cv.signatureAlgorithm[1]
    for cr in cap.of("server", "CertificateRequest"):
        w["creq"] = [a[0] * 256 + a[1] for a in (cr.supported_signature_algs or [])]
    return w


def impl_params(L, cap):
    from .. import lab
    oc = lab.observe(L.client.conn)
    w = wire_facts(cap)
    sess = L.client.conn.session
    p = {"v": oc["version"][1], "suite": oc["cipherSuite"], "group": w["group"], "dh": w["dh"], "sig": w["sig"],
         "etm": int(bool(oc["etm"])), "ems": int(bool(oc["ems"])),
         "alpn": oc["appProto"].hex() if oc["appProto"] else "-",
         "sni": oc["serverName"] or "-", "cs": oc["send_limit"], "cr": oc["recv_limit"],
         "scert": enc_cred(chain_desc(sess.serverCertChain)) if sess.serverCertChain else "-",
         "csig": w["csig"], "psk": "-" if w["psk"] is None else str(w["psk"]), "hrr": int(w["hrr"])}
    os_ = lab.observe(L.server.conn)
    p["ss"], p["sr"] = os_["send_limit"], os_["recv_limit"]
    # the client certificate that was actually exchanged and accepted is the one the server holds
    sc = L.server.conn.session.clientCertChain
    p["ccert"] = enc_cred(chain_desc(sc)) if (sc is not None and sc.getNumCerts()) else "-"
    return p


def fmt_params(p):
    order = ["v", "suite", "group", "dh", "sig", "etm", "ems", "alpn", "sni", "cs", "cr", "ss", "sr",
             "scert", "ccert", "csig", "psk", "hrr"]
    return "ok " + " ".join("%s=%s" % (k, p[k]) for k in order)


def fmt_outcome(o):
    if o[0] == "ok":
        return fmt_params(o[1])
    return " ".join(str(x) for x in o)


# ---------------------------------------------------------------------------------------------
# the direct oracle: property text, independent of the model
EXPORT_PROBES = [(b"EXPORTER-verif-c03", 20), (b"EXPORTER-verif-c03", 1), (b"EXPORTER-verif-c03", 97),
                 (b"EXPERIMENTAL label 2", 32), (b"", 16)]
VIEW_FIELDS = ["version", "cipherSuite", "masterSecret", "cl_app_secret", "sr_app_secret", "exporterMasterSecret",
               "resumptionMasterSecret", "etm", "ems", "session_etm", "session_ems", "appProto", "serverName",
               "serverCertChain", "clientCertChain"]


def oracle(ctx, case, L, cap):
    """both complete => equal views and every parameter inside both validated settings"""
    from .. import lab
    t = tables()
    cs, _ = validated(case["cs"])
    ss, _ = validated(case["ss"])
    oc = lab.observe(L.client.conn)
    os_ = lab.observe(L.server.conn)
    w = wire_facts(cap)
    bad = []

    def flag(key, what):
        bad.append((key, what))

    # ---- identical values
    for f in VIEW_FIELDS:
        a, b = oc.get(f), os_.get(f)
        if f == "serverCertChain" and case["sflavour"] == "psk" and not case["scred"]:
            continue
        if a != b:
            key = "c03:view-differs:" + f
            if f == "serverCertChain" and b is None:
                key += ":server-forgets-own-chain"
            elif f == "serverCertChain" and a is None:
                key += ":server-records-unsent-chain"
            elif f == "clientCertChain" and b is None:
                key += ":client-records-unsent-chain"
            flag(key, "client holds %r, server holds %r for %s" % (short(a), short(b), f))
    if oc["version"] is not None and oc["version"] >= (3, 1):
        for label, n in EXPORT_PROBES:
            try:
                ea = bytes(L.client.conn.keyingMaterialExporter(bytearray(label), n))
            except Exception as e:
                ea = "exception:" + type(e).__name__
            try:
                eb = bytes(L.server.conn.keyingMaterialExporter(bytearray(label), n))
            except Exception as e:
                eb = "exception:" + type(e).__name__
            if ea != eb or (isinstance(ea, bytes) and len(ea) != n):
                flag("c03:exporter-differs", "keyingMaterialExporter(%r, %d): client %s server %s"
                     % (label, n, short(ea), short(eb)))
    # session-level vs connection-level flags of one endpoint
    if oc["version"] is not None:
        for k_, w_ in limit_findings(cs, ss, oc, os_, oc["version"], "c03:"):
            flag(k_, w_)
    # the key-exchange metadata attributes: compared only where both endpoints claim a value
    for f in ("ecdhCurve", "dhGroupSize", "serverSigAlg"):
        a, b = oc.get(f), os_.get(f)
        a = tuple(a) if isinstance(a, (tuple, list)) else a
        b = tuple(b) if isinstance(b, (tuple, list)) else b
        if a is not None and b is not None and a != b:
            flag("c03:view-differs:" + f, "client holds %r, server holds %r" % (a, b))
        if (a is None) != (b is None):
            ctx.count("note:%s recorded by one endpoint only (v=%s)" % (f, oc["version"]))
    # what the client recorded must be what was on the wire
    if oc.get("ecdhCurve") is not None and w["group"] and oc["ecdhCurve"] != w["group"]:
        flag("c03:view-differs:ecdhCurve", "client recorded group %r, wire says %r" % (oc["ecdhCurve"], w["group"]))
    # negotiated protocol names must come from both lists
    ap = oc.get("appProto")
    if ap is not None:
        if not case["calpn"] or bytes(ap) not in [bytes(x) for x in case["calpn"]]:
            flag("c03:alpn-not-offered", "negotiated ALPN %r is not in the client's list" % ap)
        if not case["salpn"] or bytes(ap) not in [bytes(x) for x in case["salpn"]]:
            flag("c03:alpn-not-allowed", "negotiated ALPN %r is not in the server's list" % ap)
    if (oc.get("serverName") or None) != (case["sni"] or None):
        flag("c03:sni", "session server name %r, client asked for %r" % (oc.get("serverName"), case["sni"]))
    # ---- every negotiated parameter inside each side's own validated settings
    v = oc["version"]
    suite = oc["cipherSuite"]
    for who, st in (("client", cs), ("server", ss)):
        if v is not None and not (tuple(st.minVersion) <= tuple(v) <= tuple(st.maxVersion)):
            flag("c03:%s-version-outside-policy" % who, "negotiated %s, %s allows %s..%s"
                 % (v, who, st.minVersion, st.maxVersion))
        sem = t["sem"].get(suite)
        if sem is None:
            flag("c03:unknown-suite", "negotiated suite 0x%04x has no registered name" % (suite or 0))
        else:
            ciph, mac, kex = sem
            if ciph not in st.cipherNames:
                flag("c03:%s-cipher-outside-policy" % who, "suite 0x%04x uses %s, %s allows %s" % (suite, ciph, who, st.cipherNames))
            if mac not in st.macNames:
                flag("c03:%s-mac-outside-policy" % who, "suite 0x%04x uses MAC %s, %s allows %s" % (suite, mac, who, st.macNames))
            if kex != "tls13" and kex not in st.keyExchangeNames:
                flag("c03:%s-kex-outside-policy" % who, "suite 0x%04x uses %s, %s allows %s" % (suite, kex, who, st.keyExchangeNames))
            if kex == "tls13" and tuple(v) < (3, 4):
                flag("c03:tls13-suite-below-tls13", "suite 0x%04x at version %s" % (suite, v))
        g = w["group"]
        if g:
            name = t["gname"].get(g)
            allowed = list(st.eccCurves) + (list(st.dhGroups) if tuple(v) >= (3, 4) else [])
            if name is None or name not in allowed:
                flag("c03:%s-group-outside-policy" % who, "key exchange group %s (%s), %s allows %s" % (g, name, who, allowed))
        if w["dh"] and suite in t["lists"]["dhAllSuites"] and who == "client":
            # min/maxKeySize bound what *the other party* uses: the server picks the DH parameters
            if not (st.minKeySize <= w["dh"] <= st.maxKeySize):
                flag("c03:%s-dh-size-outside-policy" % who, "DH prime of %d bits, %s allows %d..%d"
                     % (w["dh"], who, st.minKeySize, st.maxKeySize))
        if w["dh"] and suite in t["lists"]["srpAllSuites"]:
            if not (st.minKeySize <= w["dh"] <= st.maxKeySize) and who == "client":
                flag("c03:client-srp-size-outside-policy", "SRP N of %d bits, client allows %d..%d"
                     % (w["dh"], st.minKeySize, st.maxKeySize))
    # signature schemes: the verifier must have offered / allow it
    from tlslite.tlsconnection import TLSConnection
    sess_c = L.client.conn.session
    if w["sig"] and sess_c.serverCertChain is not None:
        sig = (w["sig"] >> 8, w["sig"] & 0xff)
        offered = offered_sigalgs(cap)
        if offered is not None and sig not in offered:
            flag("c03:server-sig-not-offered", "server signed with %s, client offered %s" % (sig, offered))
        srv_ok = TLSConnection._sigHashesToList(ss, certList=sess_c.serverCertChain, version=tuple(v))
        if sig not in srv_ok:
            flag("c03:server-sig-outside-server-policy", "server signed with %s, its settings give %s" % (sig, srv_ok))
        if not sig_allowed_by(cs, sig, tuple(v)):
            flag("c03:server-sig-outside-client-policy", "server signed with %s outside the client's hash/scheme lists" % (sig,))
    if w["csig"] and os_.get("clientCertChain"):
        sig = (w["csig"] >> 8, w["csig"] & 0xff)
        if w["creq"] is not None and w["csig"] not in w["creq"]:
            flag("c03:client-sig-not-requested", "client signed with %s, CertificateRequest lists %s" % (sig, w["creq"]))
        if not sig_allowed_by(ss, sig, tuple(v)):
            flag("c03:client-sig-outside-server-policy", "client signed with %s outside the server's hash/scheme lists" % (sig,))
    # peer key sizes / curves
    if sess_c.serverCertChain is not None:
        key_policy(flag, "client", cs, sess_c.serverCertChain, tuple(v))
    sc = L.server.conn.session.clientCertChain
    if sc is not None and sc.getNumCerts():
        key_policy(flag, "server", ss, sc, tuple(v))
    # flags inside policy
    if oc["etm"] and not (cs.useEncryptThenMAC and ss.useEncryptThenMAC):
        flag("c03:etm-outside-policy", "encrypt-then-MAC in use, client %s server %s" % (cs.useEncryptThenMAC, ss.useEncryptThenMAC))
    if tuple(v) < (3, 4) and oc["ems"] and not (cs.useExtendedMasterSecret and ss.useExtendedMasterSecret):
        flag("c03:ems-outside-policy", "EMS in use, client %s server %s" % (cs.useExtendedMasterSecret, ss.useExtendedMasterSecret))
    if tuple(v) < (3, 4) and not oc["ems"] and (cs.requireExtendedMasterSecret or ss.requireExtendedMasterSecret):
        flag("c03:ems-required-not-used", "EMS required by one side but not in use")
    return bad


def offered_sigalgs(cap):
    from tlslite.constants import ExtensionType
    chs = cap.of("client", "ClientHello")
    if not chs:
        return None
    ext = chs[-1].getExtension(ExtensionType.signature_algorithms)
    if ext is None:
        return None
    return [tuple(x) for x in ext.sigalgs]


def sig_allowed_by(st, sig, v):
    """is (hash, sig) a scheme the settings' name lists allow (independent reading of the field docs)"""
    t = tables()
    hname = dict((i, n) for n, i in t["hashIds"])
    h, s = sig
    names = [a for a, hh, sg in t["sigSchemes"] if (hh, sg) == (h, s)]
    if s == 1:      # rsa pkcs1
        return "pkcs1" in st.rsaSchemes and hname.get(h) in st.rsaSigHashes
    if s == 2:
        return hname.get(h) in st.dsaSigHashes
    if s == 3:
        return hname.get(h) in st.ecdsaSigHashes
    if any(n.startswith("rsa_pss") for n in names):
        hh = [n.rsplit("_", 1)[1] for n in names if n.startswith("rsa_pss")][0]
        return "pss" in st.rsaSchemes and hh in st.rsaSigHashes
    if "ed25519" in names:
        return "Ed25519" in st.more_sig_schemes
    if "ed448" in names:
        return "Ed448" in st.more_sig_schemes
    for n in names:
        if "brainpool" in n:
            return n in st.more_sig_schemes
    return False


def key_policy(flag, who, st, chain, v):
    alg, bits, curve = chain_desc(chain)
    if alg in ("rsa", "rsa-pss", "dsa"):
        if not (st.minKeySize <= bits <= st.maxKeySize):
            flag("c03:%s-peer-key-size-outside-policy" % who, "peer %s key of %d bits, %s allows %d..%d"
                 % (alg, bits, who, st.minKeySize, st.maxKeySize))
    elif alg == "ecdsa":
        if v <= (3, 3) and curve not in st.eccCurves:
            flag("c03:%s-peer-curve-outside-policy" % who, "peer ECDSA key on %s, %s allows %s" % (curve, who, st.eccCurves))
    elif alg in ("Ed25519", "Ed448"):
        if alg not in st.more_sig_schemes:
            flag("c03:%s-peer-key-type-outside-policy" % who, "peer %s key, %s allows %s" % (alg, who, st.more_sig_schemes))


def short(x):
    if isinstance(x, (bytes, bytearray)):
        return bytes(x).hex()[:24] + ("…" if len(x) > 12 else "")
    if isinstance(x, list):
        return "[%d items]" % len(x)
    return x


# ---------------------------------------------------------------------------------------------
# case generation
def gen_case(ctx, idx):
    rng = ctx.rng
    base = default_fields()
    thorough = ctx.thorough()
    r = rng.random()
    if r < 0.62:
        cfl, sfl = "cert", "cert"
    elif r < 0.72:
        cfl, sfl = "srp", rng.choice(["srp", "srp", "srpcert"])
    elif r < 0.82:
        cfl, sfl = "anon", "anon"
    elif r < 0.94:
        cfl, sfl = "cert", rng.choice(["psk", "pskcert"])
    else:
        # mismatched flavours: the client offers something the server has no credentials for
        cfl, sfl = rng.choice([("cert", "anon"), ("anon", "cert"), ("srp", "cert"), ("cert", "srp")])
    pc = rng.choice([0.0, 0.0, 0.05, 0.1, 0.1, 0.15, 0.25, 0.5])
    ps = rng.choice([0.0, 0.0, 0.05, 0.1, 0.1, 0.15, 0.25, 0.5])
    for _ in range(50):
        cs = gen_settings(rng, base, pc, "client", thorough)
        if rng.random() < 0.3:
            ss = gen_settings(rng, cs, ps, "server", thorough)     # a further restriction of the client's policy
        else:
            ss = gen_settings(rng, base, ps, "server", thorough)
        # SRP and anonymous suites do not exist in TLS 1.3 (and an SRP ClientHello that offers TLS 1.3 is
        # rejected for its missing supported_groups): mostly cap one side at TLS 1.2
        if cfl in ("srp", "anon") and rng.random() < 0.3:
            side = cs if (cfl == "srp" or rng.random() < 0.5) else ss
            if tuple(side["maxVersion"]) > (3, 3):
                side["maxVersion"] = rng.choice([(3, 3), (3, 3), (3, 2), (3, 1)])
                if tuple(side["minVersion"]) > tuple(side["maxVersion"]):
                    side["minVersion"] = side["maxVersion"]
        if scred_hint(sfl) and rng.random() < 0.5:
            pass
        if sfl in ("psk", "pskcert"):
            ident = bytes(rng.getrandbits(8) for _ in range(rng.randint(1, 12))).hex()
            secret = bytes(rng.getrandbits(8) for _ in range(32)).hex()
            h = rng.choice([None, None, "sha256", "sha384"])
            cfg = [ident, secret] + ([h] if h else [])
            cs["pskConfigs"] = [cfg]
            q = rng.random()
            if q < 0.7:
                ss["pskConfigs"] = [list(cfg)]
            elif q < 0.85:
                other = [bytes(rng.getrandbits(8) for _ in range(5)).hex(), secret]
                ss["pskConfigs"] = [other, list(cfg)] if rng.random() < 0.5 else [other]
            else:
                h2 = "sha384" if h != "sha384" else "sha256"
                ss["pskConfigs"] = [[ident, secret, h2]]
            if rng.random() < 0.3:
                cs["psk_modes"] = rng.choice([["psk_ke"], ["psk_dhe_ke"], ["psk_ke", "psk_dhe_ke"]])
            if rng.random() < 0.3:
                ss["psk_modes"] = rng.choice([["psk_ke"], ["psk_dhe_ke"], ["psk_ke", "psk_dhe_ke"]])
        if validated(cs)[0] is not None and validated(ss)[0] is not None:
            break
    else:
        cs, ss = base, copy.deepcopy(base)
    scred = None
    if sfl in ("cert", "srpcert", "pskcert"):
        scred = rng.choice(SERVER_CREDS) if sfl != "srpcert" else rng.choice(["rsa", "rsa", "rsapss", "ecdsa"])
    req = sfl in ("cert", "pskcert") and rng.random() < 0.3
    ccred = rng.choice(CLIENT_CREDS + [None]) if (cfl == "cert" and (req or rng.random() < 0.1)) else None
    calpn = subset(rng, ALPNS) if (rng.random() < 0.35 and cfl == "cert") else None
    salpn = subset(rng, ALPNS) if rng.random() < (0.8 if calpn else 0.15) else None
    sni = rng.choice(SNIS) if rng.random() < 0.4 else None
    ssni = None
    if rng.random() < 0.2:
        ssni = sni if (sni and rng.random() < 0.6) else rng.choice(SNIS)
    fault = rng.choice(FAULTS) if (cfl == "cert" and sfl == "cert" and rng.random() < 0.12) else None
    case = {"fault": fault, "cs": cs, "ss": ss, "cflavour": cfl, "sflavour": sfl, "scred": scred, "ccred": ccred,
            "reqCert": req, "calpn": calpn, "salpn": salpn, "sni": sni, "ssni": ssni,
            "srp_bits": rng.choice([1024, 1536, 2048, 2048, 3072]) if sfl in ("srp", "srpcert") else 0,
            "srp_user_known": rng.random() > 0.08, "seed": ctx.seed, "index": idx}
    return case


def jsonable_case(case):
    c = dict(case)
    for k in ("calpn", "salpn"):
        if c[k] is not None:
            c[k] = [bytes(a).hex() for a in c[k]]
    if c.get("resume"):
        c["resume"] = dict(c["resume"])
        for k in ("calpn2", "salpn2"):
            if c["resume"].get(k) is not None:
                c["resume"][k] = [bytes(a).hex() for a in c["resume"][k]]
    return c


def case_from_json(c):
    c = dict(c)
    for k in ("calpn", "salpn"):
        if c.get(k) is not None:
            c[k] = [bytes.fromhex(a) for a in c[k]]
    if c.get("resume"):
        c["resume"] = dict(c["resume"])
        for k in ("calpn2", "salpn2"):
            if c["resume"].get(k) is not None:
                c["resume"][k] = [bytes.fromhex(a) for a in c["resume"][k]]
    for s in ("cs", "ss"):
        c[s] = dict(c[s])
        c[s]["minVersion"] = tuple(c[s]["minVersion"])
        c[s]["maxVersion"] = tuple(c[s]["maxVersion"])
    return c


def scred_hint(sfl):
    return sfl in ("cert", "pskcert", "srpcert")


# targeted cases: places where the model's theorems needed a hypothesis (see Props/C03.lean)
def directed_cases(ctx):
    base = default_fields()

    def mk(cs=None, ss=None, **kw):
        c = {"fault": None, "cs": dict(copy.deepcopy(base), **(cs or {})), "ss": dict(copy.deepcopy(base), **(ss or {})),
             "cflavour": "cert", "sflavour": "cert", "scred": "rsa", "ccred": None, "reqCert": False,
             "calpn": None, "salpn": None, "sni": None, "ssni": None, "srp_bits": 0, "srp_user_known": True,
             "seed": ctx.seed, "index": -1}
        c.update(kw)
        return c

    out = []
    # server maxVersion below what `versions` still lists
    for hi in ((3, 1), (3, 2)):
        out.append(mk(ss={"maxVersion": hi}))
        out.append(mk(ss={"maxVersion": hi, "minVersion": hi}))
    # AEAD suite admitted by macNames=['sha384'] without 'aead'
    r = {"macNames": ["sha384"], "cipherNames": ["aes256gcm"], "keyExchangeNames": ["dhe_dsa"], "maxVersion": (3, 3)}
    out.append(mk(cs=r, ss=r, scred="dsa"))
    out.append(mk(cs=dict(r, macNames=["sha384", "aead"]), ss=r, scred="dsa"))
    out.append(mk(cs=r, ss=dict(r, macNames=["sha384", "aead"]), scred="dsa"))
    # DH prime size against the client's key size bounds
    out.append(mk(cs={"minKeySize": 3072, "keyExchangeNames": ["dh_anon"], "maxVersion": (3, 3), "dhGroups": []},
                  ss={"keyExchangeNames": ["dh_anon"], "maxVersion": (3, 3)}, cflavour="anon", sflavour="anon", scred=None))
    out.append(mk(cs={"maxKeySize": 1024, "minKeySize": 512, "keyExchangeNames": ["dh_anon"], "maxVersion": (3, 3), "dhGroups": []},
                  ss={"keyExchangeNames": ["dh_anon"], "maxVersion": (3, 3)}, cflavour="anon", sflavour="anon", scred=None))
    out.append(mk(cs={"minKeySize": 2048, "keyExchangeNames": ["dhe_rsa"], "maxVersion": (3, 3), "dhGroups": []},
                  ss={"keyExchangeNames": ["dhe_rsa"], "maxVersion": (3, 3), "dhParams": dh_params(1536)}))
    # client key size against the server's bounds, TLS 1.2 and TLS 1.3
    for hi in ((3, 3), (3, 4)):
        out.append(mk(cs={"maxVersion": hi}, ss={"minKeySize": 2048, "maxVersion": hi}, ccred="client_rsa", reqCert=True))
        out.append(mk(cs={"maxVersion": hi}, ss={"maxKeySize": 1024, "minKeySize": 512, "maxVersion": hi}, ccred="client_dsa", reqCert=True))
        out.append(mk(cs={"maxVersion": hi}, ss={"more_sig_schemes": ["Ed448"], "maxVersion": hi}, ccred="client_ed25519", reqCert=True))
        out.append(mk(cs={"maxVersion": hi}, ss={"eccCurves": ["secp384r1", "x25519"], "keyShares": ["x25519"], "maxVersion": hi},
                      ccred="client_ecdsa", reqCert=True))
    # server key against the client's bounds
    out.append(mk(cs={"minKeySize": 2049}))
    out.append(mk(cs={"maxKeySize": 2047}, scred="dsa"))
    out.append(mk(cs={"eccCurves": ["secp384r1", "x25519"], "keyShares": ["x25519"]}, scred="ecdsa"))
    # record size limit edges, both protocol generations
    for hi in ((3, 3), (3, 4)):
        for a, b in ((64, 64), (64, 2 ** 14 + 1), (2 ** 14 + 1, 64), (2 ** 14, 2 ** 14 + 1), (100, None), (None, 100), (65, 1000)):
            out.append(mk(cs={"maxVersion": hi, "record_size_limit": a}, ss={"maxVersion": hi, "record_size_limit": b}))
    # encrypt-then-MAC / EMS switches on a CBC suite
    for ce in (True, False):
        for se in (True, False):
            out.append(mk(cs={"maxVersion": (3, 3), "cipherNames": ["aes128"], "useEncryptThenMAC": ce, "useExtendedMasterSecret": se},
                          ss={"maxVersion": (3, 3), "useEncryptThenMAC": se, "useExtendedMasterSecret": ce}))
    # ALPN, both generations
    for hi in ((3, 3), (3, 4)):
        out.append(mk(cs={"maxVersion": hi}, ss={"maxVersion": hi}, calpn=[b"h2", b"http/1.1"], salpn=[b"http/1.1", b"h2"]))
        out.append(mk(cs={"maxVersion": hi}, ss={"maxVersion": hi}, calpn=[b"h2"], salpn=[b"http/1.1"]))
    # a faulty server that ignores the offer: the client's own checks must stop it
    for hi in ((3, 1), (3, 3), (3, 4)):
        out.append(mk(cs={"maxVersion": hi, "cipherNames": ["aes128", "aes128gcm"]}, ss={"cipherNames": ["aes256gcm", "aes256"]},
                      fault="server-ignores-offered-suites"))
        out.append(mk(cs={"maxVersion": hi, "macNames": ["sha"] if hi < (3, 3) else ["aead"]}, ss={"macNames": ["sha256", "sha384", "sha", "aead"]},
                      fault="server-ignores-offered-suites", scred="ecdsa"))
        out.append(mk(cs={"maxVersion": hi, "rsaSigHashes": ["sha256"], "rsaSchemes": ["pkcs1"] if hi < (3, 4) else ["pss"]},
                      ss={"rsaSigHashes": ["sha512", "sha256"]}, fault="server-ignores-offered-sigalgs"))
        out.append(mk(cs={"maxVersion": hi, "ecdsaSigHashes": ["sha256"]}, ss={"ecdsaSigHashes": ["sha384", "sha512", "sha256"]},
                      fault="server-ignores-offered-sigalgs", scred="ecdsa" if hi < (3, 4) else "rsa"))
        out.append(mk(cs={"maxVersion": hi}, ss={}, calpn=[b"h2"], salpn=[b"h2"], fault="server-alpn-outside-offer"))
        out.append(mk(cs={"maxVersion": hi}, ss={}, calpn=None, salpn=[b"h2"], fault="server-alpn-outside-offer"))
    # SSLv3 on the server (no extended master secret there), TLS 1.0 / 1.1
    out.append(mk(cs={"minVersion": (3, 0)}, ss={"minVersion": (3, 0), "maxVersion": (3, 0)}))
    out.append(mk(cs={"minVersion": (3, 0), "maxVersion": (3, 3)}, ss={"minVersion": (3, 0), "maxVersion": (3, 0)}))
    out.append(mk(cs={"minVersion": (3, 0), "maxVersion": (3, 2)}, ss={"minVersion": (3, 0), "maxVersion": (3, 0)}, scred="ecdsa",
                  ccred="client_rsa", reqCert=True))
    out.append(mk(cs={"minVersion": (3, 0), "maxVersion": (3, 3), "requireExtendedMasterSecret": True}, ss={"minVersion": (3, 0), "maxVersion": (3, 0)}))
    out.append(mk(cs={"minVersion": (3, 0)}, ss={"minVersion": (3, 0), "maxVersion": (3, 0), "requireExtendedMasterSecret": True}, scred="ecdsa"))
    out.append(mk(cs={"maxVersion": (3, 1)}, ss={}))
    out.append(mk(cs={}, ss={"maxVersion": (3, 2)}, scred="dsa"))
    # local credentials unusable for what was negotiated (six repaired escapes: each must end in an alert)
    out.append(mk(cs={"maxVersion": (3, 3), "rsaSigHashes": []}, ss={"maxVersion": (3, 3)}, scred="ecdsa", ccred="client_rsa", reqCert=True))
    out.append(mk(cs={"maxVersion": (3, 2)}, ss={"maxVersion": (3, 2)}, scred="ed25519"))
    out.append(mk(cs={"maxVersion": (3, 2)}, ss={"maxVersion": (3, 2)}, scred="ed448"))
    out.append(mk(cs={"maxVersion": (3, 2)}, ss={"maxVersion": (3, 2)}, ccred="client_ed25519", reqCert=True))
    out.append(mk(cs={"maxVersion": (3, 2)}, ss={"maxVersion": (3, 2)}, cflavour="srp", sflavour="srpcert", scred="rsapss", srp_bits=2048))
    out.append(mk(cs={"maxVersion": (3, 3), "keyExchangeNames": ["dh_anon"], "dhGroups": ["ffdhe2048"]},
                  ss={"maxVersion": (3, 3), "keyExchangeNames": ["dh_anon"], "dhGroups": ["ffdhe3072"]},
                  cflavour="anon", sflavour="anon", scred=None))
    out.append(mk(cs={"maxVersion": (3, 3), "keyExchangeNames": ["ecdh_anon"], "eccCurves": ["secp256r1"], "keyShares": ["secp256r1"]},
                  ss={"maxVersion": (3, 3), "keyExchangeNames": ["ecdh_anon"], "eccCurves": ["secp384r1"], "keyShares": ["secp384r1"]},
                  cflavour="anon", sflavour="anon", scred=None))
    # pairs that must complete (regression keys): default SRP and anonymous pairs (the client caps itself at
    # TLS 1.2), an srp_sha-only client against a server with verifier database AND certificate
    out.append(mk(cflavour="srp", sflavour="srp", scred=None, srp_bits=2048, must_complete="c03:default-srp-pair-fails"))
    out.append(mk(cflavour="srp", sflavour="srpcert", scred="rsa", srp_bits=2048, must_complete="c03:default-srp-pair-fails"))
    out.append(mk(cflavour="anon", sflavour="anon", scred=None, must_complete="c03:default-anon-pair-fails"))
    for sc_ in ("rsa", "ecdsa"):
        out.append(mk(cs={"keyExchangeNames": ["srp_sha"]}, cflavour="srp", sflavour="srpcert", scred=sc_, srp_bits=2048,
                      must_complete="c03:srp-sha-client-vs-srp-cert-server-fails"))
    out.append(mk(cs={"minVersion": (3, 4)}, cflavour="srp", sflavour="srp", scred=None, srp_bits=2048))
    # the regions `compatible` has to exclude (counterexample theorems of Props/C03 section 5)
    out.append(mk(cs={"maxVersion": (3, 3), "keyExchangeNames": ["dhe_rsa", "rsa"], "dhGroups": [], "minKeySize": 2048},
                  ss={"maxVersion": (3, 3), "keyExchangeNames": ["dhe_rsa", "rsa"], "dhParams": dh_params(1536)}))
    out.append(mk(cs={"cipherNames": ["aes128"]}, ss={}))
    out.append(mk(cs={"cipherNames": ["aes128"], "maxVersion": (3, 3)}, ss={}))
    out.append(mk(cs={"rsaSigHashes": ["sha256"]}, ss={"maxVersion": (3, 2), "rsaSigHashes": ["sha384"]}))
    out.append(mk(cs={"rsaSigHashes": ["sha256"]}, ss={"maxVersion": (3, 2), "rsaSigHashes": ["sha256"]}))
    out.append(mk(cs={"maxVersion": (3, 3), "keyExchangeNames": ["rsa"], "rsaSigHashes": ["sha256"]},
                  ss={"maxVersion": (3, 3), "keyExchangeNames": ["rsa"], "rsaSigHashes": ["sha384"]}))
    out.append(mk(cs={"eccCurves": ["secp256k1"], "keyShares": ["secp256k1"], "dhGroups": []},
                  ss={"eccCurves": ["secp256k1"], "keyShares": ["secp256k1"], "dhGroups": []}))
    # curves: client preference decides in TLS 1.2, server preference in TLS 1.3
    out.append(mk(cs={"maxVersion": (3, 3), "eccCurves": ["secp384r1", "secp256r1"]}, ss={"eccCurves": ["secp256r1", "secp384r1"]}))
    out.append(mk(cs={"eccCurves": ["secp384r1", "secp256r1"], "keyShares": ["secp384r1", "secp256r1"]},
                  ss={"eccCurves": ["secp256r1", "secp384r1"], "keyShares": []}))
    out.append(mk(cs={"eccCurves": ["secp384r1", "secp256r1"], "keyShares": []}, ss={"eccCurves": ["secp521r1", "secp256r1"], "keyShares": []}))
    return out


# ---------------------------------------------------------------------------------------------
def evaluate(ctx, case, pending):
    """run one case: oracle now, model comparison queued"""
    cs, why_c = validated(case["cs"])
    ss, why_s = validated(case["ss"])
    if cs is None or ss is None:
        ctx.count("skipped:invalid-settings")
        return
    try:
        L, cap = run_case(case)
    except ValueError as e:
        # argument validation of the handshake functions (before any message)
        ctx.count("skipped:ValueError " + str(e)[:40])
        return
    if L.client.state == "error" and isinstance(L.client.exc, ValueError) and not L.link.wire_log["c2s"]:
        # raised by the handshake function before anything is sent (e.g. SRP / anonymous key exchange with
        # minVersion above TLS 1.2): a caller argument error, not a handshake
        ctx.count("skipped:client ValueError before any byte: " + str(L.client.exc)[:50])
        return
    out = impl_outcome(L, cap, case)
    if case.get("must_complete") and out[0] != "ok":
        ctx.violation(case["must_complete"],
                      "settings that share a version, suite, group and credentials did not complete: %s" % fmt_outcome(out),
                      dict(jsonable_case(case), stage="must-complete", key=case["must_complete"]))
    ctx.count("flavour:%s/%s" % (case["cflavour"], case["sflavour"]))
    ctx.count("outcome:" + (out[0] if out[0] == "ok" else " ".join(str(x) for x in out[:3])))
    if out[0] == "ok":
        ctx.count("version:3.%d" % out[1]["v"])
        ctx.count("suite:0x%04x" % out[1]["suite"])
        found = oracle(ctx, case, L, cap)
        views_before_probe = impl_views(L)
        if not case.get("fault"):
            rcv = case.get("probe") or ("client", "server")[ctx.evaluations % 2]
            st_r, st_p = (cs, ss) if rcv == "client" else (ss, cs)
            found += probe_limit(L, rcv, advertised_limit(st_r, st_p, L.client.conn.version), "c03:")
        for key, what in found:
            if case.get("fault"):
                # with a faulty server only what the *client* accepted is judged: parameters outside the
                # client's offer / policy, and views that differ although both ends completed
                if not (key.startswith("c03:client-") or key in FAULTY_KEYS or key.startswith("c03:view-differs:appProto")):
                    continue
                key = "c03:faulty-server:" + key[4:]
                what = "server made to ignore the offer (%s): %s" % (case["fault"], what)
            ctx.violation(key, what + "  [cflavour=%s sflavour=%s scred=%s]" % (case["cflavour"], case["sflavour"], case["scred"]),
                          dict(jsonable_case(case), stage="oracle", key=key, probe=case.get("probe") or ("client", "server")[ctx.evaluations % 2]))
    elif out[0] == "abort" and not case.get("fault"):
        # "otherwise the handshake fails with an alert": an exception escaped and no alert was sent
        e = L.end(out[1]).exc
        where = "?"
        tb = e.__traceback__
        while tb is not None:
            if "tlslite" in tb.tb_frame.f_code.co_filename:
                where = tb.tb_frame.f_code.co_name
            tb = tb.tb_next
        ctx.violation("c03:fails-without-alert:%s:%s:%s" % (out[1], out[2], where),
                      "handshake aborted on the %s with %s (%s) in %s and no alert was sent; the peer saw %s"
                      % (out[1], out[2], str(e)[:120], where, type(L.end("server" if out[1] == "client" else "client").exc).__name__),
                      dict(jsonable_case(case), stage="oracle", key="c03:fails-without-alert:%s:%s:%s" % (out[1], out[2], where)))
    elif out[0] in ("other",):
        # one endpoint believes the handshake completed and the other does not, or a stall
        if L.client.state == "done" or L.server.state == "done":
            ctx.count("note:one-sided completion " + fmt_outcome(out))
    key = (enc_settings(cs), enc_settings(ss), case["cflavour"], case["sflavour"], case["scred"], case["ccred"],
           case["reqCert"], tuple(case["calpn"] or ()), tuple(case["salpn"] or ()), case["sni"], case["ssni"],
           case["srp_bits"], case["srp_user_known"], case.get("fault"))
    ctx.case(key=key, nontrivial=True,
             sample=dict(jsonable_case(case), outcome=fmt_outcome(out)) if ctx.evaluations % 211 == 0 else None)
    if case.get("fault"):
        # the model describes an honest server; here only the oracle speaks
        ctx.count("faulty-server:%s -> %s" % (case["fault"], out[0] if out[0] == "ok" else " ".join(str(x) for x in out[:3])))
        return
    pending.append(("negotiate", case, fmt_outcome(out), enc_case(case, cs, ss)))
    # completeness side: `compatible` (proved to imply completion inside wf/plainCert/clientHelloSane)
    pending.append(("compatible", case, ("live", out[0] == "ok", c19_expectation(case, cs, ss)),
                    enc_case(case, cs, ss, "compat")))
    if out[0] == "ok":
        pending.append(("views", case, views_before_probe, enc_case(case, cs, ss, "views")))


_C19 = {}


def c19_expectation(case, cs, ss):
    """the independent expectation of harness/props/c19_pairs.py (imported read-only) for this pair:
    (verdict, reason) or None when it does not apply"""
    if case["cflavour"] != "cert" or case["sflavour"] != "cert":
        return None
    try:
        from . import c19_pairs as P
        if case["scred"] not in P.CRED_FACTS:
            return None
        if "table" not in _C19:
            _C19["table"] = P.suite_table()
        verdict, why, _ = P.compatible(_C19["table"], P.settings_dict(cs), P.settings_dict(ss), case["scred"])
        return (verdict, why)
    except Exception as e:      # the other builder's file is not ours to depend on
        return ("error", type(e).__name__)


def judge_compatible(ctx, case, want, line, reply):
    """reply: wfc= wfs= plain= sane= v= compat= ; want: ("live", completed?, c19 expectation)"""
    try:
        m = dict(x.split("=") for x in reply.split())
    except ValueError:
        ctx.disagree("compatible", {"case": jsonable_case(case), "line": line}, reply, "unparsable")
        return
    _, live_ok, c19 = want
    if m.get("plain") == "1" and m.get("sane") != "1":
        # the hypothesis `clientHelloSane` is claimed to follow from validate(): it must hold on every generated client
        ctx.disagree("compatible:clientHelloSane", {"case": jsonable_case(case), "line": line}, reply, "sane expected")
    region = m.get("wfc") == "1" and m.get("wfs") == "1" and m.get("plain") == "1" and m.get("sane") == "1"
    if not region:
        ctx.count("compatible:outside-proved-region")
        return
    ctx.count("compatible:%s live:%s" % (m["compat"], "ok" if live_ok else "fail"))
    if m["compat"] == "1" and not live_ok:
        ctx.disagree("compatible", {"case": jsonable_case(case), "line": line}, reply, "compatible settings did not complete")
    if c19 is not None and not (case["calpn"] and case["salpn"]):
        ctx.count("compatible-vs-c19:%s/%s" % (m["compat"], c19[0]))
        # ("ok-some-suites" is C19's weaker reading — some common suite works — which Lean states as
        # `compatibleSome`; `compatible` demands that every common suite works)
        if c19[0] is True and c19[1] == "ok" and m["compat"] != "1":
            ctx.disagree("compatible-vs-c19", {"case": jsonable_case(case), "line": line}, reply,
                         "c19_pairs.compatible says must complete (%s)" % (c19[1],))
        if c19[0] is False and m["compat"] == "1":
            ctx.count("info:compatible-but-c19-says-no:%s" % (c19[1],))


def flush(ctx, pending):
    lc = ctx.lean()
    if lc is None or not pending:
        del pending[:]
        return
    outs = lc.batch([line for _, _, _, line in pending])
    for (stream, case, want, line), m in zip(pending, outs):
        ctx.compared()
        if stream == "compatible":
            judge_compatible(ctx, case, want, line, m)
            continue
        if stream == "resumption-fallback":
            ctx.count("resumption-fallback:model %s live %s" % ("ok" if m.startswith("ok ") else "fail", "completed" if want else "failed"))
            if m.startswith("ok ") and not want:
                ctx.disagree(stream, {"case": jsonable_case(case), "line": line}, m,
                             "second connection (session offered) did not complete although the current policies negotiate")
            continue
        if m != want:
            ctx.disagree(stream, {"case": jsonable_case(case), "line": line}, m, want)
    del pending[:]


def run(ctx):
    ctx.rule = ("seeded pairs (client settings, server settings) from random restrictions/reorderings of the default "
                "HandshakeSettings fields (versions, cipher/MAC/key-exchange names, curves, FFDHE groups, key shares, signature "
                "hashes/schemes, key sizes, EtM, EMS use/require, record_size_limit, dhParams, PSK configs/modes), independent or "
                "nested, x flavour (cert with 9 server credential kinds, SRP, SRP+cert, anon, external PSK with/without cert, "
                "mismatched) x client auth with 4 client credential kinds x ALPN lists x SNI, plus directed boundary cases, "
                "a faulty-server variant (server made to ignore the offered suites / signature algorithms / ALPN list: only the "
                "client's acceptance is judged) and a TLS<=1.2 session-ID resumption flavour (second connection under changed "
                "policies); distinct = distinct (validated settings pair, flavour, credentials, alpn, sni, fault)")
    ctx.assumptions = ["the in-memory link delivers bytes unmodified (no attacker: C04 covers tampering)",
                       "suite semantics are read from the registered IETF names (translate/gen_negotiate.py:parse_name)",
                       "ecdhCurve/serverSigAlg/dhGroupSize are compared only where both endpoints record a value "
                       "(a TLS <= 1.2 server never sets them); the wire value is checked against both policies instead"]
    ctx.extra["decisions"] = [
        "serverSigAlg / ecdhCurve / dhGroupSize: a TLS <= 1.2 server never assigns these attributes (only the client and the "
        "TLS 1.3 server do); None is read as 'not exposed', the two ends are compared only where both hold a value, and the "
        "value seen on the wire (ServerKeyExchange / key_share / CertificateVerify) is checked against both policies instead",
        "an exception that escapes a handshake call without an alert being sent violates 'otherwise the handshake fails with "
        "an alert' (keys c03:fails-without-alert:<side>:<exception>:<function>)",
        "faulty-server scenarios judge only what the client accepted (keys c03:faulty-server:*)"]
    import time
    budget = ctx.pick(110, 1250)
    t0 = time.time()
    pending = []
    for case in directed_cases(ctx):
        evaluate(ctx, case, pending)
    flush(ctx, pending)
    for case in directed_resume_cases(ctx):
        evaluate_resume(ctx, case, pending)
    flush(ctx, pending)
    n = ctx.pick(3400, 60000)
    for i in range(n):
        if time.time() - t0 > budget:
            break
        if i % 6 == 5:
            evaluate_resume(ctx, gen_resume_case(ctx, i), pending)
            continue
        evaluate(ctx, gen_case(ctx, i), pending)
        if len(pending) >= 200:
            flush(ctx, pending)
    flush(ctx, pending)


def replay(ctx, rep):
    inp = rep["input"]
    if "first" in inp and "case" in inp["first"]:
        inp = inp["first"]["case"]
        if "case" in inp:
            inp = inp["case"]
    if "cs" not in inp:
        print("replay has no case; re-running the check")
        run(ctx)
        return bool(ctx.violations or ctx.disagreements)
    case = case_from_json(inp)
    if case.get("resume"):
        for k in ("cs2", "ss2"):
            case["resume"][k] = dict(case["resume"][k])
            case["resume"][k]["minVersion"] = tuple(case["resume"][k]["minVersion"])
            case["resume"][k]["maxVersion"] = tuple(case["resume"][k]["maxVersion"])
        L1, L2, cap2 = run_resume(case)
        if L2 is None:
            print("first handshake did not complete")
            return False
        if not (L2.client.state == "done" and L2.server.state == "done"):
            from .. import lab
            print("second connection did not complete: client %s, server %s"
                  % (lab.exc_class(L2.client.exc), lab.exc_class(L2.server.exc)))
            lc = ctx.lean()
            if lc is None or isinstance(L2.client.exc, ValueError):
                return False
            c2 = dict(case, cs=case["resume"]["cs2"], ss=case["resume"]["ss2"],
                      calpn=case["resume"].get("calpn2", case["calpn"]), salpn=case["resume"].get("salpn2", case["salpn"]))
            m = lc.ask(enc_case(c2, validated(c2["cs"])[0], validated(c2["ss"])[0]))
            print("model for the current policies:", m)
            # a session that cannot be resumed must fall back to a full handshake
            return m.startswith("ok ")
        still = False
        found = oracle_resumed(ctx, case, L2, cap2)
        r_ = case["resume"]
        for rcv in ([case["probe"]] if case.get("probe") else []):
            st_r, st_p = validated(r_["cs2"])[0], validated(r_["ss2"])[0]
            if rcv == "server":
                st_r, st_p = st_p, st_r
            found += probe_limit(L2, rcv, advertised_limit(st_r, st_p, L2.client.conn.version), "c03:resumption:")
        for k, what in found:
            print("  oracle:", k, "-", what)
            if inp.get("key") in (None, k):
                still = True
        return still
    L, cap = run_case(case)
    out = impl_outcome(L, cap, case)
    print("implementation:", fmt_outcome(out))
    still = False
    iv = impl_views(L) if out[0] == "ok" else None
    if out[0] == "ok":
        found = oracle(ctx, case, L, cap)
        if case.get("probe") and not case.get("fault"):
            st_r, st_p = validated(case["cs"])[0], validated(case["ss"])[0]
            if case["probe"] == "server":
                st_r, st_p = st_p, st_r
            found += probe_limit(L, case["probe"], advertised_limit(st_r, st_p, L.client.conn.version), "c03:")
        for key, what in found:
            if case.get("fault"):
                key = "c03:faulty-server:" + key[4:]
            print("  oracle:", key, "-", what)
            if inp.get("key") in (None, key):
                still = True
    elif out[0] == "abort" and str(inp.get("key", "")).startswith("c03:fails-without-alert"):
        still = True
    lc = ctx.lean()
    if lc is not None:
        cs, _ = validated(case["cs"])
        ss, _ = validated(case["ss"])
        m = lc.ask(enc_case(case, cs, ss))
        print("model:         ", m)
        if inp.get("stage") != "oracle" and m != fmt_outcome(out):
            still = True
        if out[0] == "ok":
            mv = lc.ask(enc_case(case, cs, ss, "views"))
            print("model views:   ", mv)
            print("impl views:    ", iv)
            if inp.get("stage") != "oracle" and mv != iv:
                still = True
    return still
