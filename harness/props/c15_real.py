"""C15: the real tlslite classes behind every model format.

For each model format name an `Entry` says how to build the real object from a generic value,
how to run the real parser on bytes, and how to read the parsed object back into a generic
value (field by field).  tlslite is imported inside functions only.
"""
import contextlib

from .c15_vals import U, NONE, N, B, P, L, S, seqv, unseq


def _ba(b):
    return bytearray(b)


def _int_from(b):
    return int.from_bytes(bytes(b), "big") if len(b) else 0


# ------------------------------------------------------------------ opaque X.509 / SPKI

@contextlib.contextmanager
def opaque_asn1():
    """X.509 certificates and SubjectPublicKeyInfo are opaque byte strings for C15 (DESIGN
    residual): make the ASN.1 parsers store the bytes without looking inside."""
    from tlslite import x509

    def parse_binary(self, data):
        self.bytes = bytearray(data)

    def parse_pub_key(self):
        return None

    old1 = x509.X509.parseBinary
    old2 = x509.Credential.parse_pub_key
    x509.X509.parseBinary = parse_binary
    x509.Credential.parse_pub_key = parse_pub_key
    try:
        yield
    finally:
        x509.X509.parseBinary = old1
        x509.Credential.parse_pub_key = old2


def mk_x509(der):
    from tlslite.x509 import X509
    x = X509()
    x.bytes = bytearray(der)
    return x


# ------------------------------------------------------------------ extension classes

def _ext_tables(repo):
    from translate import gen_exttable
    t = gen_exttable.tables(repo)
    ctx = {"plain": t["universal"], "server": t["server"] + t["universal"],
           "hrr": t["hrr"] + t["universal"], "cert": t["certificate"] + t["universal"]}
    res = {}
    for c, rows in ctx.items():
        d = {}
        for k, cls, pyname in rows:
            d.setdefault(k, cls)           # first row wins, like the model's caseOf chain
        res[c] = d
    return res


CLS_OF_PY = None


def _cls_of_py():
    global CLS_OF_PY
    if CLS_OF_PY is None:
        from translate import gen_exttable
        CLS_OF_PY = dict(gen_exttable.CLS)
    return CLS_OF_PY


def _opt_list(v, item):
    """O{L{M{..}}} value -> python list or None"""
    if v[0] == 'N':
        return None
    return [item(x) for x in v[1][1]]


def _tuple2(x):
    return (x[1][1], x[2][1])


def ext_build(cls, body):
    """real extension object of model class `cls` carrying extension_data value `body`"""
    from tlslite import extensions as E
    if cls == "sni":
        if body[0] == 'N':
            return E.SNIExtension().create()
        return E.SNIExtension().create(serverNames=[E.SNIExtension.ServerName(x[1][1], _ba(x[2][1]))
                                                    for x in body[1][1]])
    if cls == "statusRequest":
        e = E.StatusRequestExtension()
        if body[0] == 'N':
            return e
        t, ids, ex = unseq(body[1], 3)
        return e.create(t[1], [_ba(i[1]) for i in ids[1]], _ba(ex[1]))
    simple_lists = {"clientCertType": E.ClientCertTypeExtension, "supportedGroups": E.SupportedGroupsExtension,
                    "ecPointFormats": E.ECPointFormatsExtension,
                    "pskKeyExchangeModes": E.PskKeyExchangeModesExtension,
                    "compressCertificate": E.CompressedCertificateExtension}
    if cls in simple_lists:
        return simple_lists[cls]().create(_opt_list(body, lambda x: x[1]))
    tuple_lists = {"signatureAlgorithms": E.SignatureAlgorithmsExtension,
                   "signatureAlgorithmsCert": E.SignatureAlgorithmsCertExtension,
                   "delegatedCredential": E.DelegatedCredentialExtension,
                   "supportedVersions": E.SupportedVersionsExtension}
    if cls in tuple_lists:
        return tuple_lists[cls]().create(_opt_list(body, _tuple2))
    if cls == "srp":
        e = E.SRPExtension()
        e.identity = _ba(body[1])
        return e
    if cls == "heartbeat":
        return E.HeartbeatExtension().create(body[1])
    if cls == "serverCertType":
        return E.ServerCertTypeExtension().create(body[1])
    if cls == "alpn":
        return E.ALPNExtension().create([_ba(x[1]) for x in body[1]])
    if cls == "npn":
        return E.NPNExtension().create([_ba(x[1]) for x in body[1]])
    if cls == "padding":
        e = E.PaddingExtension()
        e.paddingData = _ba(body[1])
        return e
    if cls == "sessionTicket":
        return E.SessionTicketExtension().create(_ba(body[1]))
    int_opt = {"recordSizeLimit": E.RecordSizeLimitExtension, "srvPreSharedKey": E.SrvPreSharedKeyExtension}
    if cls in int_opt:
        return int_opt[cls]().create(None if body[0] == 'N' else body[1][1])
    bytes_opt = {"cookie": E.CookieExtension, "renegotiationInfo": E.RenegotiationInfoExtension}
    if cls in bytes_opt:
        return bytes_opt[cls]().create(None if body[0] == 'N' else _ba(body[1][1]))
    if cls == "preSharedKey":
        if body[0] == 'N':
            return E.PreSharedKeyExtension().create(None, None)
        ids, binders = body[1][1], body[1][2]
        return E.PreSharedKeyExtension().create(
            [E.PskIdentity().create(_ba(i[1][1]), i[2][1]) for i in ids[1]],
            [_ba(b[1]) for b in binders[1]])
    if cls == "clientKeyShare":
        if body[0] == 'N':
            return E.ClientKeyShareExtension().create(None)
        return E.ClientKeyShareExtension().create(
            [E.KeyShareEntry().create(x[1][1], _ba(x[2][1])) for x in body[1][1]])
    if cls == "serverKeyShare":
        if body[0] == 'N':
            return E.ServerKeyShareExtension().create(None)
        x = body[1]
        return E.ServerKeyShareExtension().create(E.KeyShareEntry().create(x[1][1], _ba(x[2][1])))
    if cls == "hrrKeyShare":
        return E.HRRKeyShareExtension().create(body[1])
    if cls == "srvSupportedVersions":
        return E.SrvSupportedVersionsExtension().create(_tuple2(body))
    if cls == "tack":
        tacks = []
        for x in body[1][1]:
            pk, mg, g, ex, th, sg = unseq(x, 6)
            tacks.append(E.TACKExtension.TACK().create(_ba(pk[1]), mg[1], g[1], ex[1], _ba(th[1]), _ba(sg[1])))
        return E.TACKExtension().create(tacks, body[2][1])
    if cls == "certificateStatus":
        return E.CertificateStatusExtension().create(body[1][1], _ba(body[2][1]))
    if cls == "delegatedCredentialCert":
        return E.DelegatedCredentialCertExtension().create(dc_build(body))
    raise KeyError(cls)


def dc_build(v):
    from tlslite.x509 import DelegatedCredential, Credential
    vt, a0, a1, spki, s0, s1, sig = unseq(v, 7)
    cred = Credential(valid_time=vt[1], dc_cert_verify_algorithm=(a0[1], a1[1]),
                      subject_public_key_info=_ba(spki[1]))
    return DelegatedCredential(cred=cred, algorithm=(s0[1], s1[1]), signature=_ba(sig[1]))


def dc_val(dc):
    c = dc.cred
    return seqv(N(c.valid_time), N(c.dc_cert_verify_algorithm[0]), N(c.dc_cert_verify_algorithm[1]),
                B(c.subject_public_key_info), N(dc.algorithm[0]), N(dc.algorithm[1]), B(dc.signature))


def _optl(x, item):
    return NONE if x is None else S(L([item(i) for i in x]))


def ext_body_val(e):
    """extension_data value of a real (parsed) extension object, by its actual class"""
    name = type(e).__name__
    cls = _cls_of_py().get(name)
    if name == "TLSExtension" or cls is None:
        return None, B(e.extData)
    if cls == "sni":
        return cls, _optl(e.serverNames, lambda s: P(N(s.name_type), B(s.name)))
    if cls == "statusRequest":
        if e.status_type is None:
            return cls, NONE
        return cls, S(seqv(N(e.status_type), L([B(i) for i in e.responder_id_list]), B(e.request_extensions)))
    if cls in ("clientCertType", "supportedGroups", "ecPointFormats", "pskKeyExchangeModes", "compressCertificate"):
        return cls, _optl(e._internal_value, N)
    if cls in ("signatureAlgorithms", "signatureAlgorithmsCert", "delegatedCredential", "supportedVersions"):
        return cls, _optl(e._internal_value, lambda t: P(N(t[0]), N(t[1])))
    if cls == "srp":
        return cls, B(e.identity)
    if cls in ("heartbeat", "serverCertType"):
        return cls, N(e._internal_value)
    if cls == "alpn":
        return cls, L([B(x) for x in e.protocol_names])
    if cls == "npn":
        return cls, L([B(x) for x in e.protocols])
    if cls == "padding":
        return cls, B(e.paddingData)
    if cls == "sessionTicket":
        return cls, B(e.ticket)
    if cls in ("recordSizeLimit", "srvPreSharedKey"):
        return cls, NONE if e._internal_value is None else S(N(e._internal_value))
    if cls in ("cookie", "renegotiationInfo"):
        return cls, NONE if e._internal_value is None else S(B(e._internal_value))
    if cls == "preSharedKey":
        if e.identities is None:
            return cls, NONE
        return cls, S(P(L([P(B(i.identity), N(i.obfuscated_ticket_age)) for i in e.identities]),
                        L([B(b) for b in e.binders])))
    if cls == "clientKeyShare":
        return cls, _optl(e.client_shares, lambda s: P(N(s.group), B(s.key_exchange)))
    if cls == "serverKeyShare":
        s = e.server_share
        return cls, NONE if s is None else S(P(N(s.group), B(s.key_exchange)))
    if cls == "hrrKeyShare":
        return cls, N(e.selected_group)
    if cls == "srvSupportedVersions":
        return cls, P(N(e.version[0]), N(e.version[1]))
    if cls == "tack":
        return cls, P(L([seqv(B(t.public_key), N(t.min_generation), N(t.generation), N(t.expiration),
                              B(t.target_hash), B(t.signature)) for t in e.tacks]), N(e.activation_flags))
    if cls == "certificateStatus":
        return cls, P(N(e.status_type), B(e.response))
    if cls == "delegatedCredentialCert":
        return cls, dc_val(e.delegated_credential)
    raise KeyError(cls)


EXT_PY = {
    "sni": "SNIExtension", "statusRequest": "StatusRequestExtension", "clientCertType": "ClientCertTypeExtension",
    "supportedGroups": "SupportedGroupsExtension", "ecPointFormats": "ECPointFormatsExtension", "srp": "SRPExtension",
    "signatureAlgorithms": "SignatureAlgorithmsExtension", "heartbeat": "HeartbeatExtension", "alpn": "ALPNExtension",
    "padding": "PaddingExtension", "compressCertificate": "CompressedCertificateExtension",
    "recordSizeLimit": "RecordSizeLimitExtension", "delegatedCredential": "DelegatedCredentialExtension",
    "sessionTicket": "SessionTicketExtension", "preSharedKey": "PreSharedKeyExtension",
    "supportedVersions": "SupportedVersionsExtension", "cookie": "CookieExtension",
    "pskKeyExchangeModes": "PskKeyExchangeModesExtension", "signatureAlgorithmsCert": "SignatureAlgorithmsCertExtension",
    "clientKeyShare": "ClientKeyShareExtension", "npn": "NPNExtension", "renegotiationInfo": "RenegotiationInfoExtension",
    "serverCertType": "ServerCertTypeExtension", "srvPreSharedKey": "SrvPreSharedKeyExtension",
    "srvSupportedVersions": "SrvSupportedVersionsExtension", "serverKeyShare": "ServerKeyShareExtension",
    "tack": "TACKExtension", "certificateStatus": "CertificateStatusExtension",
    "delegatedCredentialCert": "DelegatedCredentialCertExtension", "hrrKeyShare": "HRRKeyShareExtension",
}

CTX_FLAGS = {"plain": {}, "server": {"server": True}, "hrr": {"hrr": True}, "cert": {"cert": True}}


class Real(object):
    """builders and parsers bound to one repository (dispatch tables read once)"""

    def __init__(self, repo):
        self.repo = repo
        self.tables = _ext_tables(repo)

    # ---- one whole extension in a context
    def ext_obj(self, ctx, v):
        from tlslite.extensions import TLSExtension
        t = v[1][1]
        body = v[2]
        cls = self.tables[ctx].get(t)
        if cls is None or cls == "unknown":
            return TLSExtension().create(t, _ba(body[1]))     # the two-argument form sets the type as well
        e = ext_build(cls, body)
        e.extType = t if e.extType is None else e.extType
        return e

    def ext_val(self, e):
        cls, body = ext_body_val(e)
        return P(N(e.extType), body)

    def exts_obj(self, ctx, lv):
        return [self.ext_obj(ctx, x) for x in lv[1]]

    def exts_val(self, exts):
        return L([self.ext_val(e) for e in exts])

    def opt_exts_obj(self, ctx, v):
        return None if v[0] == 'N' else self.exts_obj(ctx, v[1])

    def opt_exts_val(self, exts):
        return NONE if exts is None else S(self.exts_val(exts))

    # ---- certificate entries
    def entry_obj(self, v):
        from tlslite.messages import CertificateEntry
        from tlslite.constants import CertificateType
        return CertificateEntry(CertificateType.x509).create(mk_x509(v[1][1]), self.exts_obj("cert", v[2]))

    def entry_val(self, e):
        return P(B(e.certificate.writeBytes()), self.exts_val(e.extensions))


def hs_parser(data):
    """what TLSRecordLayer._getMsg does: Parser over the message, type byte consumed"""
    from tlslite.utils.codec import Parser
    p = Parser(bytearray(data))
    p.get(1)
    return p


def plain_parser(data):
    from tlslite.utils.codec import Parser
    return Parser(bytearray(data))


class Entry(object):
    """one model format bound to the real class
    name      model format name
    cls       real class name (for keys/reporting)
    hstype    handshake type byte written in front by write() (None: no such byte)
    build     value -> real object
    new       () -> fresh real object to parse into
    val       real object -> value
    exact     the real parser must reject bytes left over (it is handed exactly the structure)
    norm      value -> value, applied to both sides before comparing (fields the real class drops)
    wellformed value -> value: adjusts a generated value to what the class calls well-formed
    lossy     the real class may legitimately re-serialise an accepted input differently
    stricter  the real parser validates content the model treats as opaque (may reject more)
    reject_also  extra exception types that count as an orderly rejection for this class
    """

    def __init__(self, name, cls, build, new, val, hstype=None, exact=False, norm=None, wellformed=None,
                 lossy=False, stricter=False, reject_also=(), parse=None, write=None, model_name=None,
                 custom_values=None, custom_lens=None, hs_len=True, build_create=None, create_wf=None):
        self.name = name
        self.model_name = model_name or name
        self.cls = cls
        self.build = build
        self.new = new
        self.val = val
        self.hstype = hstype
        self.exact = exact
        self.norm = norm or (lambda v: v)
        self.wellformed = wellformed or (lambda v, rng: v)
        self.lossy = lossy
        self.stricter = stricter
        self.reject_also = tuple(reject_also)
        self._parse = parse
        self._write = write
        self.build_create = build_create        # value -> object through the public create*() where build() sets fields
        self.create_wf = create_wf              # value -> the value create*() can express (canonical integers, ...)
        self.hs_len = hs_len                    # the structure starts with the 3-byte handshake length
        self.custom_values = custom_values      # formats without a Fmt tree: run -> [(kind, value)]
        self.custom_lens = custom_lens          # bytes -> [(offset, width)] of the grouped length fields

    def write(self, obj):
        """-> model-level bytes (handshake type byte checked and stripped)"""
        if self._write is not None:
            return bytes(self._write(obj))
        b = bytes(obj.write())
        if self.hstype is not None:
            if not b or b[0] != self.hstype:
                raise AssertionError("handshake type byte %r, expected %r" % (b[:1], self.hstype))
            return b[1:]
        return b

    def parse_into(self, obj, data):
        """run obj.parse() on model-level bytes on an EXISTING object (object reuse); None when this
        format has no parse-into-object form"""
        if self._parse is not None:
            return None
        if self.hstype is not None:
            p = hs_parser(bytes([self.hstype]) + bytes(data))
            obj.parse(p)
            return p.index - 1
        p = plain_parser(data)
        obj.parse(p)
        return p.index

    def parse(self, data):
        """run the real parser on model-level bytes -> (object, bytes consumed)"""
        if self._parse is not None:
            return self._parse(data)
        if self.hstype is not None:
            p = hs_parser(bytes([self.hstype]) + bytes(data))
            obj = self.new().parse(p)
            return obj, p.index - 1
        p = plain_parser(data)
        obj = self.new().parse(p)
        return obj, p.index


def canon_int_bytes(b):
    """numberToByteArray(bytesToNumber(b)): minimal big-endian, one zero byte for 0"""
    b = bytes(b).lstrip(b"\x00")
    return b if b else b"\x00"


def entries(real):
    """name -> Entry for every model format"""
    from tlslite import messages as M
    from tlslite import extensions as E
    from tlslite.constants import CertificateType, CipherSuite, HandshakeType as HT
    from tlslite.x509certchain import X509CertChain
    R = real
    res = {}

    def add(e):
        res[e.name] = e

    # ---- record layer level
    def rh_build(v):
        t, a, b, ln = unseq(v, 4)
        return M.RecordHeader3().create((a[1], b[1]), t[1], ln[1])
    add(Entry("recordHeader3", "RecordHeader3", rh_build, M.RecordHeader3,
              lambda o: seqv(N(o.type), N(o.version[0]), N(o.version[1]), N(o.length))))
    add(Entry("alert", "Alert", lambda v: M.Alert().create(v[2][1], v[1][1]), M.Alert,
              lambda o: P(N(o.level), N(o.description))))

    def ccs_build(v):
        o = M.ChangeCipherSpec()
        o.type = v[1]
        return o
    add(Entry("changeCipherSpec", "ChangeCipherSpec", ccs_build, M.ChangeCipherSpec, lambda o: N(o.type), exact=True))

    def hb_build(v):
        o = M.Heartbeat()
        t, pl, pad = unseq(v, 3)
        o.message_type, o.payload, o.padding = t[1], _ba(pl[1]), _ba(pad[1])
        return o
    add(Entry("heartbeat", "Heartbeat", hb_build, M.Heartbeat,
              lambda o: seqv(N(o.message_type), B(o.payload), B(o.padding)), exact=True))
    def appdata_parse(data):
        p = plain_parser(data)
        o = M.ApplicationData().parse(p)        # takes the parser's whole buffer, index untouched
        return o, len(o.bytes)
    add(Entry("applicationData", "ApplicationData", lambda v: M.ApplicationData().create(_ba(v[1])),
              M.ApplicationData, lambda o: B(o.bytes), exact=True, parse=appdata_parse))

    # ---- empty handshake messages
    add(Entry("helloRequest", "HelloRequest", lambda v: M.HelloRequest().create(), M.HelloRequest,
              lambda o: U, hstype=HT.hello_request))
    add(Entry("serverHelloDone", "ServerHelloDone", lambda v: M.ServerHelloDone().create(), M.ServerHelloDone,
              lambda o: U, hstype=HT.server_hello_done))

    # ---- hellos
    def ch_build(v):
        a, b, rnd, sid, suites, comp, exts = unseq(v, 7)
        o = M.ClientHello()
        o.client_version = (a[1], b[1])
        o.random = _ba(rnd[1])
        o.session_id = _ba(sid[1])
        o.cipher_suites = [x[1] for x in suites[1]]
        o.compression_methods = [x[1] for x in comp[1]]
        o.extensions = R.opt_exts_obj("plain", exts)
        return o

    def ch_val(o):
        return seqv(N(o.client_version[0]), N(o.client_version[1]), B(o.random), B(o.session_id),
                    L([N(x) for x in o.cipher_suites]), L([N(x) for x in o.compression_methods]),
                    R.opt_exts_val(o.extensions))

    def ch_wf(v, rng):
        parts = unseq(v, 7)
        if len(parts[3][1]) > 32:
            parts[3] = B(parts[3][1][:32])
        return seqv(*parts)
    def ch_create(v):
        a, b, rnd, sid, suites_, comp, exts = unseq(v, 7)
        return M.ClientHello().create((a[1], b[1]), _ba(rnd[1]), _ba(sid[1]), [x[1] for x in suites_[1]],
                                      extensions=R.opt_exts_obj("plain", exts))

    def ch_create_wf(v):
        parts = unseq(v, 7)
        parts[5] = L([N(0)])                  # create() always offers exactly the null compression
        return seqv(*parts)
    add(Entry("clientHello", "ClientHello", ch_build, M.ClientHello, ch_val, hstype=HT.client_hello, wellformed=ch_wf,
              build_create=ch_create, create_wf=ch_create_wf))

    def sh_builder(ctx):
        def build(v):
            a, b, rnd, sid, suite, comp, exts = unseq(v, 7)
            o = M.ServerHello()
            o.server_version = (a[1], b[1])
            o.random = _ba(rnd[1])
            o.session_id = _ba(sid[1])
            o.cipher_suite = suite[1]
            o.compression_method = comp[1]
            o.extensions = R.opt_exts_obj(ctx, exts)
            return o
        return build

    def sh_val(o):
        return seqv(N(o.server_version[0]), N(o.server_version[1]), B(o.random), B(o.session_id),
                    N(o.cipher_suite), N(o.compression_method), R.opt_exts_val(o.extensions))

    from tlslite.constants import TLS_1_3_HRR
    hrr_random = bytes(TLS_1_3_HRR)

    def sh_wf(v, rng):
        parts = unseq(v, 7)
        if parts[2][1] == hrr_random:
            parts[2] = B(bytes(32))
        return seqv(*parts)

    def hrr_wf(v, rng):
        parts = unseq(v, 7)
        parts[2] = B(hrr_random)
        return seqv(*parts)
    # the real parser chooses the dictionaries from the random it reads: the model's `serverHelloAuto` does the same
    def sh_create(ctx_):
        def build(v):
            a, b, rnd, sid, suite, comp, exts = unseq(v, 7)
            return M.ServerHello().create((a[1], b[1]), _ba(rnd[1]), _ba(sid[1]), suite[1],
                                          extensions=R.opt_exts_obj(ctx_, exts))
        return build

    def sh_create_wf(v):
        parts = unseq(v, 7)
        parts[5] = N(0)
        return seqv(*parts)
    add(Entry("serverHello", "ServerHello", sh_builder("server"), M.ServerHello, sh_val, hstype=HT.server_hello,
              wellformed=sh_wf, model_name="serverHelloAuto", build_create=sh_create("server"), create_wf=sh_create_wf))
    add(Entry("helloRetryRequest", "ServerHello(HRR)", sh_builder("hrr"), M.ServerHello, sh_val,
              hstype=HT.server_hello, wellformed=hrr_wf, model_name="serverHelloAuto", build_create=sh_create("hrr"),
              create_wf=sh_create_wf))

    # ---- certificates (X.509 opaque)
    def cert12_build(v):
        o = M.Certificate(CertificateType.x509, (3, 3))
        certs = [mk_x509(c[1]) for c in v[1]]
        o.create(X509CertChain(certs))
        return o

    def cert12_val(o):
        ch = o.cert_chain
        return L([]) if ch is None else L([B(x.writeBytes()) for x in ch.x509List])

    def cert12_wf(v, rng):
        return L([c if len(c[1]) else B(b"\x30") for c in v[1]])
    add(Entry("certificate12", "Certificate(1.2)", cert12_build, lambda: M.Certificate(CertificateType.x509, (3, 3)),
              cert12_val, hstype=HT.certificate, wellformed=cert12_wf))

    def cert13_build(v):
        o = M.Certificate(CertificateType.x509, (3, 4))
        o.create([R.entry_obj(e) for e in v[2][1]], _ba(v[1][1]))
        return o
    add(Entry("certificate13", "Certificate(1.3)", cert13_build, lambda: M.Certificate(CertificateType.x509, (3, 4)),
              lambda o: P(B(o.certificate_request_context), L([R.entry_val(e) for e in o.certificate_list])),
              hstype=HT.certificate))

    def entry_parse(data):
        p = plain_parser(data)
        o = M.CertificateEntry(CertificateType.x509).parse(p)
        return o, p.index
    add(Entry("certificateEntry", "CertificateEntry", R.entry_obj, None, R.entry_val, parse=entry_parse))

    # ---- certificate request
    def cr_build(ver):
        def build(v):
            o = M.CertificateRequest(ver)
            if ver >= (3, 4):
                o.create(context=_ba(v[1][1]), extensions=R.exts_obj("plain", v[2]))
            elif ver == (3, 3):
                types, sig, cas = unseq(v, 3)
                o.create([x[1] for x in types[1]], [_ba(c[1]) for c in cas[1]], [_tuple2(s) for s in sig[1]])
            else:
                o.create([x[1] for x in v[1][1]], [_ba(c[1]) for c in v[2][1]])
            return o
        return build

    def cr_val(ver):
        def val(o):
            if ver >= (3, 4):
                return P(B(o.certificate_request_context), R.exts_val(o.extensions))
            cas = L([B(c) for c in o.certificate_authorities])
            types = L([N(x) for x in o.certificate_types])
            if ver == (3, 3):
                return seqv(types, L([P(N(a), N(b)) for a, b in o.supported_signature_algs]), cas)
            return P(types, cas)
        return val
    for nm, ver in (("certificateRequest10", (3, 1)), ("certificateRequest12", (3, 3)), ("certificateRequest13", (3, 4))):
        add(Entry(nm, "CertificateRequest%s" % (ver,), cr_build(ver), (lambda ver=ver: M.CertificateRequest(ver)),
                  cr_val(ver), hstype=HT.certificate_request))

    # ---- server key exchange
    def first(lst, pred=lambda s: True):
        for s in lst:
            if pred(s):
                return s
        raise KeyError("no suite")
    cs = CipherSuite
    signed = lambda s: s in cs.certAllSuites or s in cs.ecdheEcdsaSuites or s in cs.dheDsaSuites
    suites = {
        "dhanon": first(cs.anonSuites, lambda s: s in cs.dhAllSuites and not signed(s) and s not in cs.srpAllSuites),
        "dhe": first(cs.dheCertSuites, lambda s: s in cs.dhAllSuites and s not in cs.srpAllSuites),
        "ecdhanon": first(cs.ecdhAnonSuites, lambda s: not signed(s) and s not in cs.dhAllSuites and s not in cs.srpAllSuites),
        "ecdhe": first(cs.ecdheCertSuites, lambda s: s not in cs.dhAllSuites and s not in cs.srpAllSuites),
        "srp": first(cs.srpSuites, lambda s: not signed(s)),
        "srpcert": first(cs.srpCertSuites, signed),
        "rsa": first(cs.certSuites, lambda s: s not in cs.srpAllSuites),
    }
    real.suites = suites

    def ske_build(kind, ver, nsig):
        def build(v):
            o = M.ServerKeyExchange(suites[kind], ver)
            if kind in ("dhanon", "dhe"):
                parts = unseq(v, 3 + nsig)
                for attr, pv in zip(("dh_p", "dh_g", "dh_Ys"), parts):
                    setattr(o, attr, _int_from(pv[1]))
                    setattr(o, attr + "_len", len(pv[1]))
                rest = parts[3:]
            elif kind in ("ecdhanon", "ecdhe"):
                parts = unseq(v, 3 + nsig)
                o.createECDH(parts[0][1], parts[1][1], _ba(parts[2][1]))
                rest = parts[3:]
            else:
                parts = unseq(v, 4 + nsig)
                o.srp_N, o.srp_N_len = _int_from(parts[0][1]), len(parts[0][1])
                o.srp_g, o.srp_g_len = _int_from(parts[1][1]), len(parts[1][1])
                o.srp_s = _ba(parts[2][1])
                o.srp_B, o.srp_B_len = _int_from(parts[3][1]), len(parts[3][1])
                rest = parts[4:]
            if nsig == 3:
                o.hashAlg, o.signAlg, o.signature = rest[0][1], rest[1][1], _ba(rest[2][1])
            elif nsig == 1:
                o.signature = _ba(rest[0][1])
            return o
        return build

    def num_bytes(n, ln):
        return B(int(n).to_bytes(ln, "big")) if ln is not None and n < 256 ** ln else B(b"\xde\xad" * 40)

    def ske_val(kind, nsig):
        def val(o):
            if kind in ("dhanon", "dhe"):
                parts = [num_bytes(o.dh_p, o.dh_p_len), num_bytes(o.dh_g, o.dh_g_len), num_bytes(o.dh_Ys, o.dh_Ys_len)]
            elif kind in ("ecdhanon", "ecdhe"):
                parts = [N(o.curve_type), N(o.named_curve), B(o.ecdh_Ys)]
            else:
                parts = [num_bytes(o.srp_N, o.srp_N_len), num_bytes(o.srp_g, o.srp_g_len), B(o.srp_s),
                         num_bytes(o.srp_B, o.srp_B_len)]
            if nsig == 3:
                parts += [N(o.hashAlg), N(o.signAlg), B(o.signature)]
            elif nsig == 1:
                parts += [B(o.signature)]
            return seqv(*parts)
        return val

    def ske_wf(kind, nsig):
        def wf(v, rng):
            n = (4 if kind.startswith("srp") else 3) + nsig
            parts = unseq(v, n)
            if kind in ("ecdhanon", "ecdhe"):
                parts[0] = N(3)                       # only named curves (assert in write and parse)
            if nsig == 3:                             # write asserts hashAlg != 0 and signAlg != 0
                if parts[-3][1] == 0:
                    parts[-3] = N(4)
                if parts[-2][1] == 0:
                    parts[-2] = N(1)
            return seqv(*parts)
        return wf
    def ske_create(kind, ver, nsig):
        def build(v):
            o = M.ServerKeyExchange(suites[kind], ver)
            if kind in ("dhanon", "dhe"):
                parts = unseq(v, 3 + nsig)
                o = o.createDH(*[_int_from(x[1]) for x in parts[:3]])
                rest = parts[3:]
            elif kind in ("ecdhanon", "ecdhe"):
                parts = unseq(v, 3 + nsig)
                o = o.createECDH(parts[0][1], parts[1][1], _ba(parts[2][1]))
                rest = parts[3:]
            else:
                parts = unseq(v, 4 + nsig)
                o = o.createSRP(_int_from(parts[0][1]), _int_from(parts[1][1]), _ba(parts[2][1]), _int_from(parts[3][1]))
                rest = parts[4:]
            if nsig == 3:
                o.hashAlg, o.signAlg, o.signature = rest[0][1], rest[1][1], _ba(rest[2][1])
            elif nsig == 1:
                o.signature = _ba(rest[0][1])
            return o
        return build

    def ske_create_wf(kind, nsig):
        def wf(v):
            n = (4 if kind.startswith("srp") else 3) + nsig
            parts = unseq(v, n)
            idx = (0, 1, 2) if kind.startswith("dh") else ((0, 1, 3) if kind.startswith("srp") else ())
            for i in idx:
                parts[i] = B(canon_int_bytes(parts[i][1]))
            return seqv(*parts)
        return wf

    for nm, kind, ver, nsig in (("skeDhAnon", "dhanon", (3, 3), 0), ("skeDhe10", "dhe", (3, 1), 1),
                                ("skeDhe12", "dhe", (3, 3), 3), ("skeEcdhAnon", "ecdhanon", (3, 3), 0),
                                ("skeEcdhe10", "ecdhe", (3, 1), 1), ("skeEcdhe12", "ecdhe", (3, 3), 3),
                                ("skeSrp", "srp", (3, 3), 0), ("skeSrpCert10", "srpcert", (3, 1), 1),
                                ("skeSrpCert12", "srpcert", (3, 3), 3)):
        add(Entry(nm, "ServerKeyExchange[%s,%s]" % (kind, ver), ske_build(kind, ver, nsig),
                  (lambda kind=kind, ver=ver: M.ServerKeyExchange(suites[kind], ver)), ske_val(kind, nsig),
                  hstype=HT.server_key_exchange, wellformed=ske_wf(kind, nsig), build_create=ske_create(kind, ver, nsig),
                  create_wf=ske_create_wf(kind, nsig)))

    # ---- client key exchange
    def cke(name, kind, ver, build, val, **kw):
        add(Entry(name, "ClientKeyExchange[%s,%s]" % (kind, ver), build,
                  (lambda: M.ClientKeyExchange(suites[kind], ver)), val, hstype=HT.client_key_exchange, **kw))
    cke("ckeRsa", "rsa", (3, 3), lambda v: M.ClientKeyExchange(suites["rsa"], (3, 3)).createRSA(_ba(v[1])),
        lambda o: B(o.encryptedPreMasterSecret))
    cke("ckeRsaSsl3", "rsa", (3, 0), lambda v: M.ClientKeyExchange(suites["rsa"], (3, 0)).createRSA(_ba(v[1])),
        lambda o: B(o.encryptedPreMasterSecret), exact=True)
    from tlslite.utils.cryptomath import numberToByteArray
    int_wf = lambda v, rng: B(canon_int_bytes(v[1]))
    int_norm = lambda v: B(canon_int_bytes(v[1])) if v[0] == 'b' else v
    cke("ckeDh", "dhe", (3, 3), lambda v: M.ClientKeyExchange(suites["dhe"], (3, 3)).createDH(_int_from(v[1])),
        lambda o: B(numberToByteArray(o.dh_Yc)), wellformed=int_wf, norm=int_norm, lossy=True)
    cke("ckeEcdh", "ecdhe", (3, 3), lambda v: M.ClientKeyExchange(suites["ecdhe"], (3, 3)).createECDH(_ba(v[1])),
        lambda o: B(o.ecdh_Yc))
    cke("ckeSrp", "srp", (3, 3), lambda v: M.ClientKeyExchange(suites["srp"], (3, 3)).createSRP(_int_from(v[1])),
        lambda o: B(numberToByteArray(o.srp_A)), wellformed=int_wf, norm=int_norm, lossy=True)

    # ---- certificate verify, finished, ...
    add(Entry("certificateVerify10", "CertificateVerify(1.0)", lambda v: M.CertificateVerify((3, 1)).create(_ba(v[1])),
              lambda: M.CertificateVerify((3, 1)), lambda o: B(o.signature), hstype=HT.certificate_verify))
    add(Entry("certificateVerify12", "CertificateVerify(1.2)",
              lambda v: M.CertificateVerify((3, 3)).create(_ba(v[2][2][1]), (v[1][1], v[2][1][1])),
              lambda: M.CertificateVerify((3, 3)),
              lambda o: seqv(N(o.signatureAlgorithm[0]), N(o.signatureAlgorithm[1]), B(o.signature)),
              hstype=HT.certificate_verify))
    for nm, ver, hl in (("finished12", (3, 3), None), ("finished36", (3, 0), None), ("finished32", (3, 4), 32),
                        ("finished48", (3, 4), 48)):
        add(Entry(nm, "Finished%s" % (ver,), (lambda v, ver=ver, hl=hl: M.Finished(ver, hl).create(_ba(v[1]))),
                  (lambda ver=ver, hl=hl: M.Finished(ver, hl)), lambda o: B(o.verify_data), hstype=HT.finished))

    def np_wf(v, rng):
        proto = v[1][1][:200]
        return P(B(proto), B(bytes(32 - ((len(proto) + 2) % 32))))
    add(Entry("nextProtocol", "NextProtocol", lambda v: M.NextProtocol().create(_ba(v[1][1])), M.NextProtocol,
              lambda o: P(B(o.next_proto), B(bytes(32 - ((len(o.next_proto) + 2) % 32)))), hstype=HT.next_protocol,
              wellformed=np_wf, norm=lambda v: v[1] if v[0] == 'p' else v, lossy=True))
    add(Entry("encryptedExtensions", "EncryptedExtensions",
              lambda v: M.EncryptedExtensions().create(R.exts_obj("plain", v)), M.EncryptedExtensions,
              lambda o: R.exts_val(o.extensions), hstype=HT.encrypted_extensions))

    def nst13_build(v):
        lt, aa, nonce, tk, exts = unseq(v, 5)
        return M.NewSessionTicket().create(lt[1], aa[1], _ba(nonce[1]), _ba(tk[1]), R.exts_obj("plain", exts))
    add(Entry("newSessionTicket13", "NewSessionTicket", nst13_build, M.NewSessionTicket,
              lambda o: seqv(N(o.ticket_lifetime), N(o.ticket_age_add), B(o.ticket_nonce), B(o.ticket),
                             R.exts_val(o.extensions)), hstype=HT.new_session_ticket))
    add(Entry("newSessionTicket10", "NewSessionTicket1_0",
              lambda v: M.NewSessionTicket1_0().create(v[1][1], _ba(v[2][1])), M.NewSessionTicket1_0,
              lambda o: P(N(o.ticket_lifetime), B(o.ticket)), hstype=HT.new_session_ticket))
    add(Entry("certificateStatus", "CertificateStatus",
              lambda v: M.CertificateStatus().create(v[1][1], _ba(v[2][1])), M.CertificateStatus,
              lambda o: P(N(o.status_type), B(o.ocsp)), hstype=HT.certificate_status))
    add(Entry("keyUpdate", "KeyUpdate", lambda v: M.KeyUpdate().create(v[1]), M.KeyUpdate,
              lambda o: N(o.message_type), hstype=HT.key_update))

    # ---- session ticket payload
    def stp_build(v):
        o = M.SessionTicketPayload()
        ver = v[1][1]
        n = {0: 6, 1: 7, 2: 10}[ver]
        parts = unseq(v[2], n)
        o.version = ver
        o.master_secret = _ba(parts[0][1])
        o.protocol_version = (parts[1][1], parts[2][1])
        o.cipher_suite = parts[3][1]
        o.nonce = _ba(parts[4][1])
        o.creation_time = parts[5][1]
        if ver >= 1:
            o._cert_chain = [R.entry_obj(e) for e in parts[6][1]]
        if ver >= 2:
            o.encrypt_then_mac = bool(parts[7][1])
            o.extended_master_secret = bool(parts[8][1])
            o.server_name = _ba(parts[9][1])
        return o

    def stp_val(o):
        parts = [B(o.master_secret), N(o.protocol_version[0]), N(o.protocol_version[1]), N(o.cipher_suite),
                 B(o.nonce), N(o.creation_time)]
        if o.version >= 1:
            parts.append(L([R.entry_val(e) for e in o._cert_chain]))
        if o.version >= 2:
            parts += [N(int(o.encrypt_then_mac)), N(int(o.extended_master_secret)), B(o.server_name)]
        return P(N(o.version), seqv(*parts))

    def stp_wf(v, rng):
        ver = v[1][1]
        if ver == 2:
            parts = unseq(v[2], 10)
            parts[7] = N(min(parts[7][1], 1))
            parts[8] = N(min(parts[8][1], 1))
            return P(v[1], seqv(*parts))
        return v

    def stp_norm(v):
        try:
            if v[0] == 'p' and v[1][1] == 2:
                parts = unseq(v[2], 10)
                parts[7] = N(min(parts[7][1], 1))
                parts[8] = N(min(parts[8][1], 1))
                return P(v[1], seqv(*parts))
        except Exception:
            pass
        return v
    def stp_create_wf(v):
        # the layout create() picks for the fields: v2 iff a flag or a name, else v1 iff a chain
        ver = v[1][1]
        n = {0: 6, 1: 7, 2: 10}[ver]
        parts = unseq(v[2], n)
        chain = L([P(e[1], L([])) for e in parts[6][1]]) if ver >= 1 else L([])   # create() attaches no per-certificate extensions
        etm, ems, name = (parts[7], parts[8], parts[9]) if ver >= 2 else (N(0), N(0), B(b""))
        etm, ems = N(min(etm[1], 1)), N(min(ems[1], 1))
        if etm[1] or ems[1] or name[1]:
            return P(N(2), seqv(*(parts[:6] + [chain, etm, ems, name])))
        if chain[1]:
            return P(N(1), seqv(*(parts[:6] + [chain])))
        return P(N(0), seqv(*parts[:6]))

    def stp_create(v):
        ver = v[1][1]
        n = {0: 6, 1: 7, 2: 10}[ver]
        parts = unseq(v[2], n)
        kw = {}
        if ver >= 1 and parts[6][1]:
            if any(len(e[2][1]) for e in parts[6][1]):
                return None                    # create() cannot attach per-certificate extensions
            kw["client_cert_chain"] = X509CertChain([mk_x509(e[1][1]) for e in parts[6][1]])
        if ver >= 2:
            kw.update(encrypt_then_mac=bool(parts[7][1]), extended_master_secret=bool(parts[8][1]), server_name=_ba(parts[9][1]))
        return M.SessionTicketPayload().create(_ba(parts[0][1]), (parts[1][1], parts[2][1]), parts[3][1], parts[5][1],
                                               nonce=_ba(parts[4][1]), **kw)
    add(Entry("sessionTicketPayload", "SessionTicketPayload", stp_build, M.SessionTicketPayload, stp_val, exact=True,
              wellformed=stp_wf, norm=stp_norm, lossy=True, reject_also=(ValueError,), build_create=stp_create,
              create_wf=stp_create_wf))

    # ---- small structures
    def kse_write(o):
        from tlslite.utils.codec import Writer
        w = Writer()
        o.write(w)
        return w.bytes
    add(Entry("keyShareEntry", "KeyShareEntry", lambda v: E.KeyShareEntry().create(v[1][1], _ba(v[2][1])),
              E.KeyShareEntry, lambda o: P(N(o.group), B(o.key_exchange)), write=kse_write))
    add(Entry("pskIdentity", "PskIdentity", lambda v: E.PskIdentity().create(_ba(v[1][1]), v[2][1]), E.PskIdentity,
              lambda o: P(B(o.identity), N(o.obfuscated_ticket_age))))

    def tack_build(v):
        pk, mg, g, ex, th, sg = unseq(v, 6)
        return E.TACKExtension.TACK().create(_ba(pk[1]), mg[1], g[1], ex[1], _ba(th[1]), _ba(sg[1]))
    add(Entry("tack", "TACK", tack_build, E.TACKExtension.TACK,
              lambda t: seqv(B(t.public_key), N(t.min_generation), N(t.generation), N(t.expiration),
                             B(t.target_hash), B(t.signature))))
    from tlslite.x509 import DelegatedCredential
    add(Entry("delegatedCredentialStruct", "DelegatedCredential", dc_build, DelegatedCredential, dc_val))

    # ---- SSLv2-framed structures (hand-written model, TlsModel/Ssl2.lean)
    from tlslite.constants import SSL2HandshakeType as H2

    def rh2_values(run):
        rng = run.ctx.rng
        out = []
        for l, p, e in [(0, 0, 0), (1, 0, 0), (0x7fff, 0, 0), (0x8000, 0, 0), (0x3fff, 1, 0), (0x4000, 1, 0), (0x3fff, 0, 1),
                        (0x4000, 0, 1), (5, 255, 1), (5, 256, 0), (0x10000, 0, 0), (0xffff, 7, 1)] + \
                [(rng.randrange(0x8000), 0, 0) for _ in range(4)] + \
                [(rng.randrange(0x4000), rng.randrange(1, 256), rng.randrange(2)) for _ in range(4)]:
            short = p == 0 and e == 0
            fits = (l < 0x8000 if short else l < 0x4000) and p < 256
            out.append(("valid" if fits else "oversize", seqv(N(l), N(p), N(e))))
        return out
    # a 3-byte header with zero padding and no escape is legal SSLv2 but is written back as 2 bytes
    add(Entry("recordHeader2", "RecordHeader2", lambda v: M.RecordHeader2().create(v[1][1], v[2][1][1], bool(v[2][2][1])),
              M.RecordHeader2, lambda o: seqv(N(o.length), N(o.padding), N(int(bool(o.securityEscape)))),
              lossy=True, custom_values=rh2_values, custom_lens=lambda d: []))

    def rb(run, n):
        return run.gen.rb(n)

    def ciphers(run, n):
        return L([N(run.ctx.rng.randrange(1 << 24)) for _ in range(n)])

    def pad32(b):
        return bytes(32 - len(b)) + bytes(b) if len(b) < 32 else bytes(b)

    def ch2_values(run):
        rng = run.ctx.rng
        out = []
        for nc, ls, lc in [(0, 0, 32), (1, 0, 32), (3, 16, 32), (5, 32, 32), (21845, 0, 32), (21846, 0, 32),
                           (0, 65535, 32), (0, 65536, 32), (0, 0, 65536)] + [(rng.randrange(8), rng.choice([0, 16, 32]), 32)] * 3:
            v = seqv(N(rng.choice([0, 2, 3])), N(rng.randrange(5)), ciphers(run, nc), B(rb(run, ls)), B(rb(run, lc)))
            fits = nc * 3 < 65536 and ls < 65536 and lc < 65536
            out.append(("valid" if fits else "oversize", v))
        out.append(("oversize", seqv(N(256), N(0), L([]), B(b""), B(bytes(32)))))
        out.append(("oversize", seqv(N(3), N(0), L([N(1 << 24)]), B(b""), B(bytes(32)))))
        return out

    def ch2_build(v):
        a, b, cs, sid, ch = unseq(v, 5)
        o = M.ClientHello(ssl2=True)
        o.create((a[1], b[1]), _ba(ch[1]), _ba(sid[1]), [x[1] for x in cs[1]])
        return o

    def ch2_norm(v):
        try:
            parts = unseq(v, 5)
            parts[4] = B(pad32(parts[4][1]))
            return seqv(*parts)
        except Exception:
            return v
    # a challenge shorter than 32 bytes is stored left-padded: such inputs re-serialise longer
    add(Entry("ssl2ClientHello", "ClientHello(ssl2)", ch2_build, lambda: M.ClientHello(ssl2=True),
              lambda o: seqv(N(o.client_version[0]), N(o.client_version[1]), L([N(x) for x in o.cipher_suites]),
                             B(o.session_id), B(o.random)),
              hstype=H2.client_hello, hs_len=False, norm=ch2_norm, lossy=True, custom_values=ch2_values,
              custom_lens=lambda d: [(2, 2), (4, 2), (6, 2)]))

    def sh2_values(run):
        rng = run.ctx.rng
        out = []
        for lcert, nc, ls in [(0, 0, 0), (1, 1, 16), (300, 3, 16), (65535, 0, 0), (65536, 0, 0), (0, 21846, 0), (0, 0, 65536)] + \
                [(rng.randrange(50), rng.randrange(6), rng.choice([0, 16]))] * 3:
            v = seqv(N(rng.randrange(2)), N(rng.randrange(256)), N(rng.randrange(4)), N(rng.randrange(4)), B(rb(run, lcert)),
                     ciphers(run, nc), B(rb(run, ls)))
            out.append(("valid" if (lcert < 65536 and nc * 3 < 65536 and ls < 65536) else "oversize", v))
        out.append(("oversize", seqv(N(256), N(0), N(0), N(2), B(b""), L([]), B(b""))))
        return out

    def sh2_build(v):
        hit, ct, a, b, cert, cs, sid = unseq(v, 7)
        return M.ServerHello2().create(hit[1], ct[1], (a[1], b[1]), _ba(cert[1]), [x[1] for x in cs[1]], _ba(sid[1]))
    add(Entry("ssl2ServerHello", "ServerHello2", sh2_build, M.ServerHello2,
              lambda o: seqv(N(o.session_id_hit), N(o.certificate_type), N(o.server_version[0]), N(o.server_version[1]),
                             B(o.certificate), L([N(x) for x in o.ciphers]), B(o.session_id)),
              hstype=H2.server_hello, hs_len=False, custom_values=sh2_values, custom_lens=lambda d: [(4, 2), (6, 2), (8, 2)]))

    def cmk_values(run):
        rng = run.ctx.rng
        out = []
        for a, b, c in [(0, 0, 0), (5, 128, 8), (65535, 0, 0), (65536, 0, 0), (0, 65536, 0), (0, 0, 65536), (11, 3, 0)] + \
                [(rng.randrange(12), rng.randrange(140), rng.choice([0, 8, 16]))] * 3:
            v = seqv(N(rng.randrange(1 << 24)), B(rb(run, a)), B(rb(run, b)), B(rb(run, c)))
            out.append(("valid" if max(a, b, c) < 65536 else "oversize", v))
        out.append(("oversize", seqv(N(1 << 24), B(b""), B(b""), B(b""))))
        return out
    add(Entry("ssl2ClientMasterKey", "ClientMasterKey",
              lambda v: M.ClientMasterKey().create(v[1][1], _ba(v[2][1][1]), _ba(v[2][2][1][1]), _ba(v[2][2][2][1])),
              M.ClientMasterKey, lambda o: seqv(N(o.cipher), B(o.clear_key), B(o.encrypted_key), B(o.key_argument)),
              hstype=H2.client_master_key, hs_len=False, custom_values=cmk_values, custom_lens=lambda d: [(3, 2), (5, 2), (7, 2)]))

    for nm, cls, ht in (("ssl2ClientFinished", M.ClientFinished, H2.client_finished),
                        ("ssl2ServerFinished", M.ServerFinished, H2.server_finished)):
        add(Entry(nm, cls.__name__, (lambda v, cls=cls: cls().create(_ba(v[1]))), cls, lambda o: B(o.verify_data),
                  hstype=ht, hs_len=False, exact=True, model_name="ssl2Finished"))

    # ---- CompressedCertificate: framing in the model, (de)compression and the inner Certificate abstract
    # (lossy: the compressed blob is re-created by write(); zlib tolerates bytes after the end of its stream)
    def cc_values(run):
        rng = run.ctx.rng
        out = []
        for n in (0, 1, 2, 3):
            certs = [mk_x509(bytes([0x30, 0x82]) + rb(run, rng.randrange(1, 300))) for _ in range(n)]
            cc = M.CompressedCertificate(CertificateType.x509).create(
                1, [M.CertificateEntry(CertificateType.x509).create(c, []) for c in certs], _ba(rb(run, rng.randrange(0, 4))))
            out.append(("valid", seqv(N(cc.compression_algo), N(cc._uncompressed_msg_len), B(cc._compressed_msg))))
        return out

    def cc_build(v):
        o = M.CompressedCertificate(CertificateType.x509)
        o.compression_algo, o._uncompressed_msg_len, o._compressed_msg = v[1][1], v[2][1][1], bytes(v[2][2][1])
        return o
    add(Entry("compressedCertificate", "CompressedCertificate", cc_build,
              lambda: M.CompressedCertificate(CertificateType.x509),
              lambda o: seqv(N(o.compression_algo), N(o._uncompressed_msg_len), B(o._compressed_msg)),
              hstype=HT.compressed_certificate, stricter=True, lossy=True, custom_values=cc_values,
              norm=lambda v: P(v[1], v[2][1]) if v[0] == 'p' and v[2][0] == 'p' else v))

    # ---- extension_data of every class, and whole extensions in every context
    for cls, py in EXT_PY.items():
        add(Entry("extdata:" + cls, py, (lambda v, cls=cls: ext_build(cls, v)), getattr(E, py),
                  (lambda o: ext_body_val(o)[1]), exact=True, write=lambda o: o.extData))
    for ctx, flags in CTX_FLAGS.items():
        def ext_parse(data, flags=flags):
            p = plain_parser(data)
            o = E.TLSExtension(**flags).parse(p)
            return o, p.index
        add(Entry("ext:" + ctx, "TLSExtension[%s]" % ctx, (lambda v, ctx=ctx: R.ext_obj(ctx, v)), None, R.ext_val,
                  parse=ext_parse))
    return res
